"""Directed scenarios for tasks that enter a cancel scope from a worker thread (`from_thread.run` inside
`to_thread.run_sync`): such a task is registered directly in the caller's scope - it is neither the scope's host nor a
task-group child with a handle scope of its own, a shape the S machine does not have.  Judged by C03's text directly: a
task inside an effectively cancelled scope is interrupted within a bounded number of loop cycles, also if it entered
after the cancellation; a task that is NOT inside a cancelled scope is not treated as cancelled (finding F42, fixed); an operation on a FREE
primitive entered by such a task returns or is interrupted, it never spins in checkpoint_if_cancelled() once the scope
it saw cancelled can no longer reach it (finding F46 scenario A, fixed)."""
from __future__ import annotations

import sys
import threading

from core import REPO

SCENARIOS = ["cancelled_while_waiting", "entered_after_cancellation", "abandoned_thread_not_cancelled",
             "abandoned_thread_cancelled_while_resuming"]


def _run(name: str) -> list[str]:
    import anyio
    from anyio import CancelScope, from_thread, to_thread
    bad: list[str] = []
    result: dict = {}
    gate = threading.Event()

    async def waiter(kind: str):
        try:
            if kind == "lock":
                lock = anyio.Lock()
                async with lock:             # checkpoint_if_cancelled on the uncontended path
                    result["lock"] = "acquired"
            await anyio.sleep(3)
            result["coro"] = "ran to completion"
        except anyio.get_cancelled_exc_class():
            result["coro"] = "cancelled"
            raise

    def worker(kind: str):
        if name in ("entered_after_cancellation", "abandoned_thread_not_cancelled"):
            gate.wait(5)                  # call back into the loop only after the cancellation / after the host has left
        try:
            from_thread.run(waiter, kind)
            result["thread"] = "returned"
        except BaseException as e:  # noqa: BLE001
            result["thread"] = type(e).__name__

    async def main_f46():
        # F46 scenario A: the coroutine of the worker thread is "about to resume with a value" in the very cycle in which
        # the host's outer scope is cancelled (the delivery skips it); when it runs it enters Lock.acquire() on a free
        # lock -> checkpoint_if_cancelled() sees the cancelled outer scope through run_sync's still-entered internal
        # scope and yields; the host then leaves that internal scope (abandon_on_cancel), after which no delivery can
        # reach the coroutine any more.
        lock = anyio.Lock()
        event = anyio.Event()
        waiting = anyio.Event()

        async def coro():
            waiting.set()
            await event.wait()
            try:
                await lock.acquire()
            except BaseException as exc:
                result["coro"] = f"interrupted:{type(exc).__name__}"
                raise
            result["coro"] = "acquired"
            lock.release()

        def thread_func():
            try:
                from_thread.run(coro)
            except BaseException:  # noqa: BLE001
                pass

        async def host():
            await to_thread.run_sync(thread_func, abandon_on_cancel=True)

        with CancelScope() as outer:
            async with anyio.create_task_group() as tg:
                tg.start_soon(host)
                await waiting.wait()
                await anyio.sleep(0.05)
                event.set()
                outer.cancel()                    # same loop cycle as the event.set()
        for _ in range(20):
            if "coro" in result:
                break
            await anyio.sleep(0.05)
        if "coro" not in result:
            import asyncio
            n = sum(1 for t in asyncio.all_tasks() if t is not asyncio.current_task() and not t.done())
            bad.append("Lock.acquire() on a free lock neither returned nor was interrupted within 1 s in a coroutine started "
                       "with from_thread.run() from an abandoned worker thread whose host scope was cancelled while the "
                       f"coroutine was about to resume: {n} task(s) spin on sleep(0) in checkpoint_if_cancelled() with "
                       "nothing left to deliver (the loop never becomes idle)")

    async def main():
        if name == "abandoned_thread_cancelled_while_resuming":
            await main_f46()
        elif name in ("cancelled_while_waiting", "entered_after_cancellation"):
            with CancelScope() as outer:
                with CancelScope():                       # the immediate scope is not the cancelled one
                    async def killer():
                        await anyio.sleep(0.2)
                        outer.cancel()
                        gate.set()
                    async with anyio.create_task_group() as tg:
                        tg.start_soon(killer)
                        with anyio.move_on_after(2.5, shield=True) as guard:
                            await to_thread.run_sync(worker, "sleep")
                        if guard.cancelled_caught:
                            bad.append("to_thread.run_sync did not return within 2.5 s: the coroutine started with from_thread.run() inside the cancelled scope was not interrupted")
            if result.get("coro") == "ran to completion":
                bad.append("a from_thread.run() coroutine waiting inside an effectively cancelled scope slept through (never interrupted)")
        else:
            with anyio.move_on_after(0.1):
                await to_thread.run_sync(worker, "lock", abandon_on_cancel=True)
            gate.set()                    # the host has left the (timed out) scope; the thread is abandoned
            await anyio.sleep(0)
            for _ in range(60):
                if "thread" in result:
                    break
                await anyio.sleep(0.1)
            if result.get("thread") != "returned":
                bad.append(f"coroutine of an ABANDONED worker thread: from_thread.run() ended with {result.get('thread')!r} / coroutine {result.get('coro')!r} (it must run undisturbed: its scope has been left and can no longer cancel it)")

    done = threading.Event()
    err: list = []

    def runner():
        try:
            anyio.run(main)
        except BaseException as e:  # noqa: BLE001
            err.append(type(e).__name__)
        done.set()
    th = threading.Thread(target=runner, daemon=True)
    th.start()
    if not done.wait(12):
        bad.append("scenario did not terminate within 12 s (a task spins or blocks)")
    if err:
        bad.append(f"scenario ended with {err[0]}")
    return bad


def run_all() -> list[tuple[str, str]]:
    """Each scenario in its own interpreter (a spinning task cannot be stopped from inside)."""
    import json
    import os
    import subprocess
    out: list[tuple[str, str]] = []
    env = dict(os.environ, PYTHONPATH=f"{REPO / 'src'}:{os.path.dirname(os.path.abspath(__file__))}", VERIF_REPO=str(REPO))
    for name in SCENARIOS:
        try:
            p = subprocess.run([sys.executable, os.path.abspath(__file__), "--one", name], env=env,
                               stdout=subprocess.PIPE, stderr=subprocess.DEVNULL, text=True, timeout=40)
            last = [l for l in p.stdout.splitlines() if l.startswith("RESULT ")]
            msgs = json.loads(last[-1][7:]) if last else [f"scenario process ended with status {p.returncode} and no result"]
        except subprocess.TimeoutExpired:
            msgs = ["scenario did not terminate (40 s limit)"]
        out += [(f"thread/{name}", m) for m in msgs]
    return out


if __name__ == "__main__":
    if len(sys.argv) >= 3 and sys.argv[1] == "--one":
        import json
        import os
        src = str(REPO / "src")
        if src not in sys.path:
            sys.path.insert(0, src)
        print("RESULT " + json.dumps(_run(sys.argv[2])), flush=True)
        os._exit(0)
    r = run_all()
    print(r or "ok")
    sys.exit(1 if r else 0)
