"""C12 — memory object streams: exactly-once, ordered, bounded delivery.
Correspondence of prims/MemStream.v with anyio's memory object streams on SchedLoop + history monitors.
The generator profile emphasises data flow and cancellation (see memstream_common.PROFILES["C12"])."""

from __future__ import annotations

import memstream_common

DRIVERS = [("memstream", "MemStream")]


def check(tier: str) -> int:
    return memstream_common.check("C12", tier)
