"""C17 — TLS streams: (a) correspondence of boundary/TlsPump.v with the real TLSStream pump loop driven by a
scripted fake SSL object over a scripted fake transport, (b) the real `ssl` module end-to-end: real TLSStream
pairs over an in-memory re-chunking / truncating transport (module c17_tls_e2e), with history monitors."""

from __future__ import annotations

import asyncio
import json
import random
import ssl

import core

DRIVERS = [("tlspump", "TlsPump")]

KINDS = {0: "Ok", 1: "WantRead", 2: "WantWrite", 3: "Syscall", 4: "SSLEOFError", 5: "SSLError(UNEXPECTED_EOF)",
         6: "SSLError(other)", 7: "SSLZeroReturn"}
RXK = {0: "data", 1: "EndOfStream", 2: "OSError", 3: "BrokenResourceError", 4: "ClosedResourceError"}
TXK = {0: "ok", 1: "OSError", 2: "BrokenResourceError", 3: "ClosedResourceError"}
OPN = {0: "handshake", 1: "receive", 2: "send", 3: "unwrap", 4: "aclose"}
RES = {0: "value", 1: "EndOfStream", 2: "BrokenResourceError", 3: "ClosedResourceError", 4: "SSLError",
       5: "SSLZeroReturnError", 6: "OSError", 7: "ValueError", 8: "unexpected-exception", 9: "stuck"}


class Stuck(BaseException):
    """The script is exhausted: the real call would block for ever."""


# ------------------------------------------------------------------------------------------------
# part (a): fakes on both boundaries, the real TLSStream methods in between
# ------------------------------------------------------------------------------------------------

class FakeBIO:
    """ssl.MemoryBIO as far as TLSStream uses it (pending/read/write/write_eof), plus a back door for the fake
    SSL object.  Its behaviour is compared with the real ssl.MemoryBIO by bio_selfcheck()."""

    def __init__(self):
        self.buf = bytearray()
        self.eof_written = False
        self.written = bytearray()       # every byte that came in through write()

    @property
    def pending(self):
        return len(self.buf)

    @property
    def eof(self):
        return self.eof_written and not self.buf

    def read(self, n=-1):
        if n is None or n < 0 or n > len(self.buf):
            n = len(self.buf)
        out = bytes(self.buf[:n])
        del self.buf[:n]
        return out

    def write(self, data):
        if self.eof_written:
            raise ssl.SSLError("cannot write() after write_eof()")
        self.buf += data
        self.written += data
        return len(data)

    def write_eof(self):
        self.eof_written = True


def bio_selfcheck(rng: random.Random, n: int) -> list[str]:
    """Differential check of FakeBIO against the real ssl.MemoryBIO on random call sequences."""
    bad = []
    for _ in range(n):
        real, fake = ssl.MemoryBIO(), FakeBIO()
        for _ in range(rng.randrange(1, 12)):
            c = rng.randrange(5)
            data = bytes(rng.getrandbits(8) for _ in range(rng.randrange(0, 4)))
            outs = []
            for b in (real, fake):
                try:
                    if c == 0:
                        outs.append(("w", b.write(data)))
                    elif c == 1:
                        outs.append(("r", b.read()))
                    elif c == 2:
                        outs.append(("rn", b.read(2)))
                    elif c == 3:
                        outs.append(("e", b.write_eof()))
                    else:
                        outs.append(("p", b.pending, b.eof))
                except ssl.SSLError:
                    outs.append(("SSLError",))
            if outs[0] != outs[1]:
                bad.append(f"FakeBIO differs from ssl.MemoryBIO on op {c}: {outs}")
    return bad


class FakeSSL:
    def __init__(self, script, bio_in: FakeBIO, bio_out: FakeBIO, rng_other: int = 0):
        self.script = list(script)          # (kind, consume, value, emit)
        self.bio_in, self.bio_out = bio_in, bio_out
        self.variant = rng_other
        self.calls = []
        self.emitted = bytearray()

    def _next(self, name, arg=None):
        if not self.script:
            raise Stuck
        kind, cons, val, emit = self.script.pop(0)
        self.calls.append((name, kind, arg))
        if cons > 0:
            self.bio_in.read(cons)
        self.bio_out.buf += bytes(emit)      # OpenSSL writes to the BIO regardless of MemoryBIO.write_eof()
        self.emitted += bytes(emit)
        if kind == 0:
            return bytes(val)
        if kind == 1:
            raise ssl.SSLWantReadError(2, "The operation did not complete (read)")
        if kind == 2:
            raise ssl.SSLWantWriteError(3, "The operation did not complete (write)")
        if kind == 3:
            raise ssl.SSLSyscallError(5, "Some I/O error occurred")
        if kind == 4:
            raise ssl.SSLEOFError(8, "EOF occurred in violation of protocol")
        if kind == 5:
            raise ssl.SSLError(1, "[SSL: UNEXPECTED_EOF_WHILE_READING] unexpected eof while reading (_ssl.c:1000)")
        if kind == 6:
            self.variant += 1
            v = self.variant % 3
            if v == 0:
                raise ssl.SSLError(1, "[SSL: DECRYPTION_FAILED_OR_BAD_RECORD_MAC] decryption failed")
            if v == 1:
                raise ssl.SSLError("no strerror at all")
            raise ssl.SSLCertVerificationError(1, "[SSL: CERTIFICATE_VERIFY_FAILED] certificate verify failed")
        raise ssl.SSLZeroReturnError(6, "TLS/SSL connection has been closed (EOF)")

    def do_handshake(self):
        self._next("do_handshake")

    def read(self, n=1024, buffer=None):
        return self._next("read", n)

    def write(self, data):
        self._next("write", data)
        return len(data)

    def unwrap(self):
        self._next("unwrap")

    def pending(self):
        """Decrypted bytes buffered inside the SSL object: the scripted object never buffers plaintext."""
        return 0


class FakeTransport:
    def __init__(self, rx, tail, tx, bio_out: FakeBIO):
        self.rx = list(rx)                  # (kind, data)
        self.tail = tail                    # None or kind
        self.tx = list(tx)
        self.bio_out = bio_out
        self.calls: list[list[int]] = []
        self.extra_attributes = {}
        self.sent_ok = bytearray()
        self.send_failed = False
        self.delivered = bytearray()

    def _raise(self, kind, table):
        import anyio

        if table == "rx" and kind == 1:
            raise anyio.EndOfStream
        if kind == (2 if table == "rx" else 1):
            raise ConnectionResetError(104, "scripted OSError")
        if kind == (3 if table == "rx" else 2):
            raise anyio.BrokenResourceError
        raise anyio.ClosedResourceError

    async def receive(self, max_bytes: int = 65536):
        if self.rx:
            kind, data = self.rx.pop(0)
        elif self.tail is not None:
            kind, data = self.tail, []
        else:
            raise Stuck
        self.calls.append([1, self.bio_out.pending, kind])
        if kind == 0:
            self.delivered += bytes(data)
            return bytes(data)
        self._raise(kind, "rx")

    async def send(self, item):
        kind = self.tx.pop(0) if self.tx else 0
        self.calls.append([0, kind, len(item), *item])
        if kind:
            self.send_failed = True
            self._raise(kind, "tx")
        self.sent_ok += bytes(item)

    async def aclose(self):
        import anyio

        forced = anyio.current_effective_deadline() == float("-inf")
        self.calls.append([3 if forced else 2])


def res_code(exc) -> int:
    import anyio

    if exc is None:
        return 0
    if isinstance(exc, Stuck):
        return 9
    if isinstance(exc, anyio.EndOfStream):
        return 1
    if isinstance(exc, anyio.BrokenResourceError):
        return 2
    if isinstance(exc, anyio.ClosedResourceError):
        return 3
    if isinstance(exc, ssl.SSLZeroReturnError):
        return 5
    if isinstance(exc, ssl.SSLError):
        return 4
    if isinstance(exc, OSError):
        return 6
    if isinstance(exc, ValueError):
        return 7
    return 8


class PumpCase:
    """One case in the codec's format (see the codec comment in TlsPump.v)."""

    def __init__(self, std, tail, script, rx, tx, ops):
        self.std, self.tail, self.script, self.rx, self.tx, self.ops = std, tail, script, rx, tx, ops
        self.outs: list[int] = []
        self.flags: set[str] = set()
        self.mon: list[str] = []

    def flat(self) -> list[int]:
        c = [1 if self.std else 0, 0 if self.tail is None else 1 + self.tail, len(self.script)]
        for (k, cons, val, emit) in self.script:
            c += [k, cons, len(val), *val, len(emit), *emit]
        c.append(len(self.rx))
        for (k, d) in self.rx:
            c += [k, len(d), *d]
        c.append(len(self.tx))
        c += self.tx
        for op in self.ops:
            if op[0] == 1:
                c += [1, op[1]]
            elif op[0] == 2:
                c += [2, len(op[1]), *op[1]]
            else:
                c.append(op[0])
        return c

    def to_json(self):
        return {"std": self.std, "tail": self.tail, "script": self.script, "rx": self.rx, "tx": self.tx,
                "ops": self.ops,
                "readable": {"script": [(KINDS[k], f"consume {c}", f"value {v}", f"emit {e}") for k, c, v, e in self.script],
                             "rx": [(RXK[k], d) for k, d in self.rx], "tx": [TXK[k] for k in self.tx],
                             "tail": None if self.tail is None else RXK[self.tail],
                             "ops": [(OPN[o[0]], *o[1:]) for o in self.ops]}}

    @staticmethod
    def from_json(j):
        return PumpCase(bool(j["std"]), j["tail"], [tuple(x) for x in j["script"]], [tuple(x) for x in j["rx"]],
                        list(j["tx"]), [tuple(x) for x in j["ops"]])

    async def run(self):
        """Drive the REAL TLSStream methods (unmodified) and record the observations in the codec's format."""
        from anyio.streams.tls import TLSStream

        bin_, bout = FakeBIO(), FakeBIO()
        fssl = FakeSSL(self.script, bin_, bout)
        ft = FakeTransport(self.rx, self.tail, self.tx, bout)
        stream = TLSStream(transport_stream=ft, standard_compatible=self.std, _ssl_object=fssl,
                           _read_bio=bin_, _write_bio=bout)
        outs: list[int] = []
        fed_total = 0
        for op in self.ops:
            ncalls = len(ft.calls)
            nssl = len(fssl.calls)
            val = b""
            exc = None
            self._eof_before = (bin_.eof_written, bout.eof_written)
            try:
                if op[0] == 0:
                    await stream._call_sslobject_method(fssl.do_handshake)
                elif op[0] == 1:
                    val = await stream.receive(op[1])
                elif op[0] == 2:
                    await stream.send(bytes(op[1]))
                elif op[0] == 3:
                    tr, val = await stream.unwrap()
                    if tr is not ft:
                        self.mon.append("unwrap() did not return the transport stream")
                else:
                    await stream.aclose()
            except BaseException as e:  # noqa: BLE001
                exc = e
            code = res_code(exc)
            if code == 8:
                self.mon.append(f"unexpected exception {exc!r} from {OPN[op[0]]}")
            calls = ft.calls[ncalls:]
            outs += [code, len(val), *val, len(calls)]
            for c in calls:
                outs += c
            outs += [1 if bin_.eof_written else 0, 1 if bout.eof_written else 0, bin_.pending, bout.pending]
            self._monitor(op, code, val, calls, fssl.calls[nssl:], bin_, bout)
        self.outs = outs
        # ciphertext conservation (model-independent)
        if not ft.send_failed:
            if bytes(fssl.emitted) != bytes(ft.sent_ok) + bytes(bout.buf):
                self.mon.append("outgoing ciphertext not conserved: bytes produced by the SSL object != bytes sent ++ bytes pending")
        late = any(c[0] == 1 and c[2] == 0 for c in ft.calls) and bytes(bin_.written) != bytes(ft.delivered) and bin_.eof_written
        if bytes(bin_.written) != bytes(ft.delivered) and not late:
            self.mon.append("incoming ciphertext not conserved: bytes delivered by the transport != bytes written to the incoming BIO")
        if ft.send_failed:
            self.flags.add("send_failed")
        return self

    # -- model-independent monitors on the observable history of the real method --
    def _monitor(self, op, code, val, calls, sslcalls, bin_, bout):
        for c in calls:
            if c[0] == 1 and c[1] != 0:
                self.mon.append(f"transport.receive() awaited while {c[1]} produced bytes were still unsent (op {OPN[op[0]]})")
            if c[0] == 1 and c[2] == 1:
                self.flags.add("transport_eof")
                if self.std:
                    if not bin_.eof_written:
                        self.mon.append("standard_compatible: transport EndOfStream not propagated to the incoming BIO (write_eof missing)")
                else:
                    # a ragged end is an ordinary end: report it, do not tell the SSL object (it would treat the EOF as
                    # fatal and the still open sending direction would be dead too)
                    self.flags.add("ragged_eof_nonstd")
                    if code != 1:
                        self.mon.append(f"not standard_compatible: transport EndOfStream reported as {RES.get(code, code)} by {OPN[op[0]]}")
                    if (bin_.eof_written, bout.eof_written) != self._eof_before:
                        self.mon.append("not standard_compatible: the transport's ragged end was passed on to the SSL object "
                                        "(write_eof() on a BIO): the SSL object is poisoned, the open direction is dead")
                    if c is not calls[-1] or (sslcalls and sslcalls[-1][1] != 1):
                        self.mon.append("not standard_compatible: the pump went on after the transport's EndOfStream")
            if c[0] == 1 and c[2] == 0:
                self.flags.add("fed")
            if c[0] == 0 and c[1] == 0 and c[2] > 0:
                self.flags.add("flushed")
            if c[0] == 0 and c[1] == 0 and c[2] > 65536:
                self.flags.add("flushed_over_64k")
        last = sslcalls[-1][1] if sslcalls else None
        want_name = {0: "do_handshake", 1: "read", 2: "write", 3: "unwrap", 4: "unwrap"}[op[0]]
        for (name, _k, arg) in sslcalls:
            if name != want_name:
                self.mon.append(f"{OPN[op[0]]} called SSLObject.{name}")
            elif op[0] == 1 and arg != op[1]:
                self.mon.append(f"receive({op[1]}) called SSLObject.read({arg})")
            elif op[0] == 2 and bytes(arg) != bytes(op[1]):
                self.mon.append("send(item) called SSLObject.write with different data")
        if op[0] == 1 and last in (4, 5) and code in (1, 2):
            self.flags.add("ssl_eof_std" if self.std else "ssl_eof_nonstd")
            if self.std and code != 2:
                self.mon.append("standard_compatible: SSL unexpected-EOF reported as a clean EndOfStream")
            if not self.std and code != 1:
                self.mon.append("not standard_compatible: SSL unexpected-EOF not reported as EndOfStream")
        ragged = (not self.std) and code == 1 and bool(calls) and calls[-1][0] == 1 and calls[-1][2] == 1
        if code in (0, 1) and last in (1, 2) and not (op[0] == 4 and not self.std) and not ragged:
            self.mon.append(f"{OPN[op[0]]} returned although the SSL object's last answer was "
                            f"{KINDS[last]} (the call was not retried)")
        if code == 0 and op[0] != 4 and bout.pending:
            self.mon.append(f"{OPN[op[0]]} returned normally with {bout.pending} bytes of produced ciphertext unsent")
        if op[0] == 1 and code == 0:
            if len(val) > op[1]:
                # only meaningful when the scripted read() honoured its bound
                if sslcalls and sslcalls[-1][1] == 0:
                    self.flags.add("oracle_overlong")
            if len(val) == 0:
                self.mon.append("receive() returned an empty bytes object")
        if op[0] == 1 and code == 1 and last == 0:
            self.flags.add("clean_eos")
        if any(c[1] == 2 for c in sslcalls):
            self.flags.add("want_write")
        if any(c[1] == 1 for c in sslcalls):
            self.flags.add("want_read")


def gen_pump_case(rng: random.Random) -> PumpCase:
    std = rng.random() < 0.6
    nops = rng.choice([1, 2, 3, 4, 6])
    ops, script, rx, tx = [], [], [], []
    wild = rng.random() < 0.15           # completely random script
    for i in range(nops):
        r = rng.random()
        if i == 0 and r < 0.7:
            op = (0,)
        elif r < 0.45:
            op = (1, rng.choice([0, 1, 1, 2, 3, 5, 8]))
        elif r < 0.8:
            op = (2, [rng.randrange(256) for _ in range(rng.choice([0, 1, 2, 4]))])
        elif r < 0.9:
            op = (3,)
        else:
            op = (4,)
        ops.append(op)
        if op == (1, 0):
            continue
        nloop = rng.choice([0, 0, 1, 1, 2, 3])
        for _ in range(nloop):
            k = rng.choice([1, 1, 1, 2])
            emit = [rng.randrange(256) for _ in range(rng.choice([0, 0, 1, 3]))]
            script.append((k, rng.choice([0, 0, 1, 2, 9]), [], emit))
            if k == 1 and rng.random() < 0.9:
                x = rng.random()
                if x < 0.75:
                    rx.append((0, [rng.randrange(256) for _ in range(rng.choice([1, 1, 2, 3, 5]))]))
                elif x < 0.9:
                    rx.append((1, []))
                else:
                    rx.append((rng.choice([2, 3, 4]), []))
        x = rng.random()
        kind = 0 if x < 0.7 else rng.choice([3, 4, 5, 6, 7])
        val = []
        if kind == 0 and op[0] == 1:
            n = op[1]
            ln = rng.choice([0, 1, n, max(0, n - 1), n]) if rng.random() < 0.95 else n + 2
            val = [rng.randrange(256) for _ in range(ln)]
        emit = [rng.randrange(256) for _ in range(rng.choice([0, 1, 2, 4]))]
        if rng.random() < 0.004:
            emit = [rng.randrange(4) for _ in range(rng.choice([4097, 16385, 65537]))]
        script.append((kind, rng.choice([0, 0, 1, 3, 9]), val, emit))
    if wild:
        script = [(rng.randrange(8), rng.randrange(4), [rng.randrange(256) for _ in range(rng.randrange(3))],
                   [rng.randrange(256) for _ in range(rng.randrange(3))]) for _ in range(rng.randrange(1, 8))]
        rx = [(rng.choice([0, 0, 0, 1, 2, 3, 4]), []) for _ in range(rng.randrange(0, 5))]
        rx = [(k, [rng.randrange(256) for _ in range(rng.randrange(0, 3))] if k == 0 else []) for k, _ in rx]
    if rng.random() < 0.15:
        tx = [0] * rng.randrange(0, 3) + [rng.choice([1, 2, 3])]
    tail = rng.choice([None, 1, 1, 1, 0, 3])
    if tail == 0:
        tail = 1
    return PumpCase(std, tail, script, rx, tx, ops)


def small_scope_cases() -> list[PumpCase]:
    """Exhaustive: every SSL outcome kind x every transport answer x flag, one or two loop iterations, for the
    receive and the aclose operation (the two with outcome mapping of their own)."""
    out = []
    for std in (False, True):
        for op in ((1, 2), (2, [5]), (4,), (3,)):
            for k1 in range(8):
                for emit in ([], [9]):
                    for rxk in (0, 1, 2, 3, 4):
                        for txk in (0, 1, 2, 3):
                            if k1 not in (1, 2) and (rxk or txk):
                                continue
                            for k2 in ((0, 4, 5, 6) if k1 in (1, 2) else (0,)):
                                script = [(k1, 1, [7] if k1 == 0 else [], emit)]
                                if k1 in (1, 2):
                                    script.append((k2, 0, [7, 8] if k2 == 0 else [], emit))
                                rx = [(rxk, [1, 2] if rxk == 0 else [])]
                                out.append(PumpCase(std, 1, script, rx, [txk] if txk else [], [op, (1, 1)]))
    return out


def big_output_cases() -> list[PumpCase]:
    """Directed: one SSL call leaves MORE ciphertext in the outgoing BIO than any plausible cap on a single
    transport.send() (1, 4096, 16384, 65536): every flush site must hand over everything that is pending."""
    def blob(n, k):
        # small byte values: the model's bytes are unary numbers
        return [(i * 7 + k + i // 5) % 5 for i in range(n)]

    out = []
    for n in (2, 4097, 16385, 65537, 70001):
        big = blob(n, n % 251)
        out.append(PumpCase(True, 1, [(0, 0, [2], big)], [], [], [(2, [7, 8])]))                         # send
        out.append(PumpCase(True, 1, [(0, 0, [5], big)], [], [], [(1, 4)]))                              # receive
        out.append(PumpCase(False, 1, [(0, 0, [], big)], [], [], [(0,)]))                                # handshake
        out.append(PumpCase(True, 1, [(1, 0, [], big), (0, 2, [5], [1])], [(0, [1, 2])], [], [(1, 4)]))  # want-read flush
        out.append(PumpCase(True, 1, [(2, 0, [], big), (0, 0, [1], big[:n // 2 + 1])], [], [], [(2, [1])]))  # want-write
        out.append(PumpCase(True, 1, [(0, 0, [], big)], [], [], [(3,)]))                                 # unwrap
    return out


def ragged_eof_cases() -> list[PumpCase]:
    """Directed: ragged end under either flag, then a send in the other direction (fix c5df3e8)."""
    out = []
    for std in (False, True):
        for first in ((1, 5), (0,), (3,)):
            for emit1 in ([], [9]):
                for nread in (1, 2):
                    script = [(1, 0, [], emit1)] * nread + ([(5, 0, [], [])] if std else []) + [(0, 0, [2], [23, 3, 3, 0, 2])]
                    rx = [(0, [1, 2])] * (nread - 1)
                    out.append(PumpCase(std, 1, script, rx, [], [first, (2, [7, 8])]))
                    out.append(PumpCase(std, None, script, rx + [(1, [])], [], [first, (2, [7, 8]), (1, 3)]))
    return out


async def run_pump_cases(cases: list[PumpCase]):
    for c in cases:
        await c.run()


def shrink_pump(case: PumpCase, still_bad) -> PumpCase:
    """Cheap shrinking: fewer ops, fewer scripted events, shorter byte strings - while `still_bad(case)` holds."""
    def variants(c: PumpCase):
        for i in range(len(c.ops)):
            yield PumpCase(c.std, c.tail, c.script, c.rx, c.tx, c.ops[:i] + c.ops[i + 1:])
        for i in range(len(c.script)):
            yield PumpCase(c.std, c.tail, c.script[:i] + c.script[i + 1:], c.rx, c.tx, c.ops)
        for i in range(len(c.rx)):
            yield PumpCase(c.std, c.tail, c.script, c.rx[:i] + c.rx[i + 1:], c.tx, c.ops)
        for i in range(len(c.tx)):
            yield PumpCase(c.std, c.tail, c.script, c.rx, c.tx[:i] + c.tx[i + 1:], c.ops)
        for i, (k, cons, val, emit) in enumerate(c.script):
            if cons:
                yield PumpCase(c.std, c.tail, c.script[:i] + [(k, 0, val, emit)] + c.script[i + 1:], c.rx, c.tx, c.ops)
            if len(emit) > 1:
                yield PumpCase(c.std, c.tail, c.script[:i] + [(k, cons, val, emit[:1])] + c.script[i + 1:], c.rx, c.tx, c.ops)
            if len(val) > 1:
                yield PumpCase(c.std, c.tail, c.script[:i] + [(k, cons, val[:1], emit)] + c.script[i + 1:], c.rx, c.tx, c.ops)
        for i, (k, d) in enumerate(c.rx):
            if len(d) > 1:
                yield PumpCase(c.std, c.tail, c.script, c.rx[:i] + [(k, d[:1])] + c.rx[i + 1:], c.tx, c.ops)

    cur = case
    for _ in range(60):
        for v in variants(cur):
            if not v.ops:
                continue
            try:
                if still_bad(v):
                    cur = v
                    break
            except Exception:  # noqa: BLE001
                continue
        else:
            break
    return cur


# ------------------------------------------------------------------------------------------------
# part (b): scenario generation for the real ssl module
# ------------------------------------------------------------------------------------------------

def gen_scenarios(rng: random.Random, tier: str, struct):
    """struct(version, std, payload_c, payload_s) -> (#records c2s, #records s2c) of an uncut run."""
    from c17_tls_e2e import CHUNKINGS, Scenario

    quick = tier == "quick"
    out: list = []
    sid = [0]

    def mk(**kw):
        sid[0] += 1
        return Scenario(seed=core.seed() * 1000 + sid[0], **kw)

    small_payloads = [[], [0], [1], [0, 5, 0], [3, 0, 100], [1000, 1, 1]]
    big_payloads = [[16384], [16385, 1], [20000], [0, 40000, 7]] if quick else \
                   [[16383], [16384], [16385, 1], [20000], [0, 40000, 7], [70000, 0, 3], [16384, 16384, 16384, 5]]
    recv_sizes = [[1], [7], [100], [65536], [1, 16384, 3], [16383], [20000]]
    # 1. no cut: every chunking in both directions, both versions, both flags, both initiators
    for version in ("1.2", "1.3"):
        for std in (True, False):
            for ch in CHUNKINGS:
                other = rng.choice(CHUNKINGS)
                pc = rng.choice(small_payloads + big_payloads[:2])
                ps = rng.choice(small_payloads)
                if ch in ("one", "seven") and sum(pc) > 20000:
                    pc = [5000]
                out.append(mk(version=version, std_c=std, std_s=std, chunk_cs=ch, chunk_sc=other, payload_c=pc, payload_s=ps,
                              recv_c=rng.choice(recv_sizes), recv_s=rng.choice(recv_sizes if sum(pc) <= 5000 else recv_sizes[2:]),
                              initiator=rng.choice(["client", "server"])))
                out.append(mk(version=version, std_c=std, std_s=std, chunk_cs=other, chunk_sc=ch, payload_c=rng.choice(small_payloads),
                              payload_s=rng.choice(small_payloads + [[3000]]), recv_c=rng.choice(recv_sizes), recv_s=rng.choice(recv_sizes),
                              initiator=rng.choice(["client", "server"])))
    # 2. several records, both directions at once
    for version in ("1.2", "1.3"):
        for pc in big_payloads:
            ch = rng.choice(["record", "coalesce", "random", "seven"] if sum(pc) <= 20000 else ["record", "coalesce", "random"])
            out.append(mk(version=version, std_c=True, std_s=True, chunk_cs=ch, chunk_sc=rng.choice(["record", "coalesce", "random"]),
                          payload_c=pc, payload_s=rng.choice(big_payloads), recv_c=rng.choice(recv_sizes[2:]),
                          recv_s=rng.choice(recv_sizes[2:]), initiator=rng.choice(["client", "server"])))
    out.append(mk(version="1.3", std_c=True, std_s=True, chunk_cs="one", chunk_sc="one", payload_c=[17000], payload_s=[5],
                  recv_c=[65536], recv_s=[65536], initiator="client"))
    out.append(mk(version="1.2", std_c=True, std_s=True, chunk_cs="seven", chunk_sc="one", payload_c=[3], payload_s=[16390],
                  recv_c=[1, 5000], recv_s=[1], initiator="server"))
    # 3. mixed flags: one side closes without the closing handshake
    for version in ("1.2", "1.3"):
        for (a, b) in ((True, False), (False, True)):
            for ini in ("client", "server"):
                out.append(mk(version=version, std_c=a, std_s=b, chunk_cs=rng.choice(CHUNKINGS), chunk_sc=rng.choice(CHUNKINGS),
                              payload_c=[10, 300], payload_s=[7], recv_c=[100], recv_s=[100], initiator=ini))
    # 4. cuts at every record of a reference conversation, at every interesting offset inside the record
    modes = ["start", "hdr", "body0", "mid", "last"]
    cut_chunkings = ["record", "coalesce", "random", "record", "coalesce", "random", "seven"] if quick else list(CHUNKINGS[1:])
    for version in ("1.2", "1.3"):
        for std in (True, False):
            pc, ps = [100, 17000], [50]
            n_cs, n_sc = struct(version, std, pc, ps)
            for (d, n) in (("c2s", n_cs), ("s2c", n_sc)):
                for k in range(n):
                    ms = modes if not quick else rng.sample(modes, 2 if std else 1)
                    for m in ms:
                        out.append(mk(version=version, std_c=std, std_s=std, chunk_cs=rng.choice(cut_chunkings),
                                      chunk_sc=rng.choice(cut_chunkings), payload_c=pc, payload_s=ps, recv_c=[65536],
                                      recv_s=rng.choice([[65536], [100], [16384]]), cut=(d, ("rec", k, m)),
                                      initiator=rng.choice(["client", "server"])))
            # absolute offsets (handshake bytes)
            offs = [0, 1, 4, 5, 6, 50] + [rng.randrange(0, 2500) for _ in range(6 if quick else 60)]
            for off in offs:
                out.append(mk(version=version, std_c=std, std_s=std, chunk_cs=rng.choice(CHUNKINGS), chunk_sc=rng.choice(CHUNKINGS),
                              payload_c=[20], payload_s=[30, 1], recv_c=[7], recv_s=[65536],
                              cut=(rng.choice(["c2s", "s2c"]), ("abs", off)), initiator=rng.choice(["client", "server"])))
    # 4b. half-close without close_notify, then the reply in the other direction (fix c5df3e8)
    for version in ("1.2", "1.3"):
        for std_s in (False, True):
            for std_c in (False, True):
                for ch in (CHUNKINGS if not quick else rng.sample(CHUNKINGS, 3)):
                    ps = rng.choice([[5], [0, 300, 1], [20000], [16385, 1]])
                    if ch in ("one", "seven") and sum(ps) > 6000:
                        ps = [700]
                    out.append(mk(version=version, std_c=std_c, std_s=std_s, chunk_cs=rng.choice(CHUNKINGS), chunk_sc=ch,
                                  payload_c=rng.choice([[7], [1, 0, 300], [17000]]), payload_s=ps,
                                  recv_c=rng.choice(recv_sizes[1:]), recv_s=rng.choice(recv_sizes[1:]), mode="half_close"))
    # 4d. one send() producing more than 64 KiB of ciphertext while the reader task of the same end is already parked
    #     in receive(); the writer then idles and the peer replies only after it has got the complete message
    for version in ("1.2", "1.3"):
        for big in ([100000], [300000], [70000, 5]):
            out.append(mk(version=version, std_c=rng.choice([True, False]), std_s=rng.choice([True, False]),
                          chunk_cs=rng.choice(["record", "coalesce", "random"]), chunk_sc=rng.choice(list(CHUNKINGS)),
                          payload_c=big, payload_s=rng.choice([[10], [3, 0, 200]]), recv_c=rng.choice(recv_sizes),
                          recv_s=rng.choice([[65536], [16384], [20000]]), initiator="client", mode="duplex_reply"))
    # 4e. full duplex: one send() producing several hundred KiB of ciphertext (the transport takes it in pieces over many
    #     scheduling steps) WHILE the peer keeps sending small messages that the reader task of the same end receives:
    #     every flush site runs while another task's transport.send() is in flight (seed C17 h)
    for version in ("1.2", "1.3"):
        for big in ([300000], [100000, 70000]):
            out.append(mk(version=version, std_c=True, std_s=True,
                          chunk_cs=rng.choice(["record", "random"]), chunk_sc=rng.choice(["record", "random", "one"]),
                          payload_c=big, payload_s=[rng.choice([1, 50, 700])] * 40, recv_c=rng.choice([[100], [65536]]),
                          recv_s=rng.choice([[65536], [16384], [1000]]), initiator="client"))
    # 4c. receive() inside an already cancelled scope must not consume anything
    for version in ("1.2", "1.3"):
        for ch in ("coalesce", "record", "random"):
            out.append(mk(version=version, std_c=True, std_s=True, chunk_cs=ch, chunk_sc=ch, payload_c=[3000, 10, 5000],
                          payload_s=[3000], recv_c=[1000], recv_s=rng.choice([[700], [512], [1000]]),
                          initiator=rng.choice(["client", "server"]), cancel_probe=rng.choice([2, 3])))
    # 5. random scenarios
    for _ in range(20 if quick else 2500):
        pc = rng.choice(small_payloads + big_payloads)
        ps = rng.choice(small_payloads + big_payloads[:3])
        chs = [c for c in CHUNKINGS if c not in ("one", "seven")] if sum(pc) + sum(ps) > 6000 else list(CHUNKINGS)
        cut = None
        if rng.random() < 0.5:
            cut = (rng.choice(["c2s", "s2c"]), ("rec", rng.randrange(0, 14), rng.choice(modes)))
        std = rng.random() < 0.6
        out.append(mk(version=rng.choice(["1.2", "1.3"]), std_c=std, std_s=std if rng.random() < 0.8 else not std,
                      chunk_cs=rng.choice(chs), chunk_sc=rng.choice(chs), payload_c=pc, payload_s=ps,
                      recv_c=rng.choice(recv_sizes if sum(ps) <= 5000 else recv_sizes[2:]),
                      recv_s=rng.choice(recv_sizes if sum(pc) <= 5000 else recv_sizes[2:]), cut=cut,
                      initiator=rng.choice(["client", "server"])))
    return out


def run_e2e(tier: str, rng: random.Random, corpus: list):
    import anyio
    import c17_tls_e2e as E

    certs = E.Certs()
    results = []          # (scenario, violations, flags, summary)
    hssl_bad: list[str] = []
    for version in ("1.2", "1.3"):
        for cut in (False, True):
            for n in ([0, 1, 20000] if tier == "quick" else [0, 1, 100, 16384, 16385, 50000, 70000]):
                hssl_bad += E.hssl_direct(certs, version, rng, n, cut)

    async def main():
        cache = {}

        async def one(sc):
            out = await E.run_scenario(sc, certs)
            v, fl = E.monitors(sc, *out)
            rc, rs, conn, eps, dl = out
            summ = {"client": [E.exc_name(rc.hs_exc), len(rc.got), E.exc_name(rc.recv_exc), E.exc_name(rc.final_exc), E.exc_name(rc.close_exc)],
                    "server": [E.exc_name(rs.hs_exc), len(rs.got), E.exc_name(rs.recv_exc), E.exc_name(rs.final_exc), E.exc_name(rs.close_exc)],
                    "records": [len(conn.cs.rec_bounds), len(conn.sc.rec_bounds)], "wire": [len(conn.cs.wire), len(conn.sc.wire)],
                    "cut_at": [conn.cs.cut_at, conn.sc.cut_at], "cut_triggered": conn.killed,
                    "transport_calls": [eps[0].n_send, eps[0].n_receive, eps[1].n_send, eps[1].n_receive]}
            if conn.killed:
                fl.add("cut_triggered")
                d = conn.cs if conn.cs.cut_triggered else conn.sc
                if d.cut_at is not None:
                    inside = [(s, t, n) for (s, t, n) in d.rec_bounds if s < d.cut_at < s + n]
                    fl.add("cut_mid_record" if inside else "cut_between_records")
                hs_failed = rc.hs_exc is not None or rs.hs_exc is not None
                fl.add("cut_during_handshake" if hs_failed else "cut_after_handshake")
            if sum(sc.payload_c) > 16384 or sum(sc.payload_s) > 16384:
                fl.add("multi_record_payload")
            if sc.mode == "duplex_reply" and max(sc.payload_c, default=0) > 66000 and not v:
                fl.add("duplex_reply_over_64k")
            if 0 in sc.payload_c or 0 in sc.payload_s:
                fl.add("zero_length_item")
            if sc.payload_c and sc.payload_s:
                fl.add("full_duplex")
            return v, fl, summ

        async def struct(version, std, pc, ps):
            key = (version, std, tuple(pc), tuple(ps))
            if key not in cache:
                sc = E.Scenario(version, std, std, "record", "record", pc, ps, [65536], [65536], None, "client", 7)
                _v, _f, summ = await one(sc)
                cache[key] = tuple(summ["records"])
            return cache[key]

        # the generator needs the record structure of the reference conversations: compute it first
        refs = {}
        for version in ("1.2", "1.3"):
            for std in (True, False):
                refs[(version, std)] = await struct(version, std, [100, 17000], [50])
        scs = list(corpus) + gen_scenarios(rng, tier, lambda v, s, pc, ps: refs[(v, s)])
        nviol = 0
        for sc in scs:
            v, fl, summ = await one(sc)
            results.append((sc, v, fl, summ))
            if v:
                nviol += 1
                if nviol >= 6:
                    break
        # cheap shrinking of the first failing scenarios
        shrunk = []
        for sc, v, fl, summ in [r for r in results if r[1]][:3]:
            best = sc
            for cand in _shrink_candidates(E, sc):
                try:
                    v2, _f2, _s2 = await one(cand)
                except Exception:  # noqa: BLE001
                    continue
                if v2:
                    best = cand
                    v = v2
            shrunk.append((best, v))
        return shrunk

    shrunk = anyio.run(main)
    return results, hssl_bad, shrunk


def _shrink_candidates(E, sc):
    import dataclasses

    yield dataclasses.replace(sc, payload_c=[1] if sc.payload_c else [], payload_s=[1] if sc.payload_s else [])
    yield dataclasses.replace(sc, payload_c=[1], payload_s=[], recv_c=[65536], recv_s=[65536])
    yield dataclasses.replace(sc, chunk_cs="coalesce", chunk_sc="coalesce")


# ------------------------------------------------------------------------------------------------

NOT_EXHIBITED = [
    "OpenSSL / ssl.SSLObject / ssl.MemoryBIO are NOT modelled: in the proofs the SSL object is an arbitrary oracle (theorems 1-6) or the toy record layer toy_call (theorems 7-12: successor 'encryption', type/length framed records, hello / data / close_notify); the contract H_ssl the toy layer satisfies (in-order decryption of completely delivered ciphertext, read(n) <= n, unexpected-EOF error for a cut before close_notify, empty read after close_notify) is only OBSERVED on the real ssl module by part (b) of the harness, for TLS 1.2 and 1.3 of the installed OpenSSL",
    "cryptographic properties (confidentiality, integrity, authentication), certificate validation, renegotiation, key update, session tickets, ALPN: not modelled; the harness runs real handshakes with trustme certificates",
    "concurrent use of one TLSStream by a sending and a receiving task (two pump loops interleaving at their await points) is exercised by part (b) but the model/proofs are about one call at a time; TLSStream has no resource guard of its own",
    "cancellation of a pump loop in the middle of a transport call is not modelled",
    "the transport is an in-memory pair written for this harness (re-chunking, coalescing, truncation); real sockets are covered by C18",
    "unwrap()/aclose() are in the model and in the correspondence of part (a) and in pump theorems 1-4; the end-to-end toy theorems cover handshake + send/receive sequences, with the peer's close_notify as part of the received wire",
    "transport.receive() returning b'' (forbidden by the ByteReceiveStream contract) and max_bytes of transport.receive are not distinguished by the model",
]


def check(tier: str) -> int:
    rep = core.Report("C17", tier)
    rep.assumptions = core.TRUSTED_BASE_COMMON + [
        "model boundary/TlsPump.v hand-written from src/anyio/streams/tls.py:179-268 (tree with fix c5df3e8: ragged end not passed to OpenSSL when not standard_compatible) (pump loop, unwrap, aclose, receive, send); SSL object = oracle, transport = script",
        "level: proof, PARTIAL - see 'not exhibited by the model'",
    ] + ["not exhibited by the model: " + x for x in NOT_EXHIBITED]
    proofs_ok = core.proof_stage(rep, "props/C17.v")
    exe = core.build_driver("tlspump", "TlsPump")
    rng = random.Random(core.seed())

    # ---------------- part (a): pump correspondence ----------------
    corpus_dir = core.VERIF / "corpus" / "C17"
    corpus_a, corpus_b = [], []
    for f in sorted(corpus_dir.glob("*.json")):
        j = json.loads(f.read_text())
        if j.get("kind") == "pump":
            corpus_a.append(PumpCase.from_json(j["case"]))
        elif j.get("kind") == "e2e":
            import c17_tls_e2e as E

            corpus_b.append(E.Scenario.from_json(j["scenario"]))
    bio_bad = bio_selfcheck(rng, 200 if tier == "quick" else 3000)
    cases = list(corpus_a) + small_scope_cases() + ragged_eof_cases() + big_output_cases()
    n_small = len(cases) - len(corpus_a)
    n_random = 4000 if tier == "quick" else 150000
    cases += [gen_pump_case(rng) for _ in range(n_random)]
    asyncio.run(run_pump_cases(cases))
    flats = [c.flat() for c in cases]
    model_outs = core.run_driver(exe, flats)
    disagreements = [(c, m) for c, m in zip(cases, model_outs) if c.outs != m]
    stuck = sum(1 for m in model_outs if 9 in m[:1])
    pump_hits = [(c, msg) for c in cases for msg in c.mon]

    sample_n = 60 if tier == "quick" else 400
    idx = [i for i in range(len(cases)) if len(flats[i]) < 3000]
    rng.shuffle(idx)
    idx = idx[:sample_n]
    vm_ok, vm_log = core.coq_eval_cases("c17", "TlsPump", [flats[i] for i in idx], [cases[i].outs for i in idx])

    # ---------------- part (b): the real ssl module ----------------
    e2e_results, hssl_bad, shrunk = run_e2e(tier, rng, corpus_b)
    e2e_hits = [(sc, v) for sc, v, _fl, _s in e2e_results if v]

    # ---------------- decide ----------------
    def rerun_bad(pred):
        def f(c: PumpCase):
            c2 = PumpCase(c.std, c.tail, c.script, c.rx, c.tx, c.ops)
            asyncio.run(c2.run())
            return pred(c2)
        return f

    seen = set()
    for c, msg in pump_hits[:40]:
        key = msg.split(" (op")[0][:60]
        if key in seen:
            continue
        seen.add(key)
        small = shrink_pump(c, rerun_bad(lambda c2, key=key: any(m.startswith(key) for m in c2.mon)))
        asyncio.run(small.run())
        rep.violation(msg, {"kind": "pump-monitor", "component": "part (a): real TLSStream methods over scripted fake SSL object and transport",
                            "case": small.to_json(), "impl_observations": small.outs,
                            "model_observations": core.run_driver(exe, [small.flat()])[0]})
        if len(seen) >= 4:
            break
    for (sc, v), (ssc, sv) in zip(e2e_hits[:3], shrunk + [(None, None)] * 3):
        use = ssc if ssc is not None else sc
        rep.violation((sv or v)[0], {"kind": "e2e-monitor", "component": "part (b): real ssl, real TLSStream pair over the re-chunking/truncating transport",
                                     "scenario": use.to_json(), "all_messages": (sv or v)[:6]})
    for msg in hssl_bad[:3]:
        rep.violation(msg, {"kind": "contract", "component": "H_ssl observed directly on a pair of ssl.SSLObject", "message": msg})
    for msg in bio_bad[:1]:
        rep.violation(msg, {"kind": "harness-selfcheck", "component": "FakeBIO vs ssl.MemoryBIO", "message": msg}, no_input=True)

    tie_broken = []
    if not proofs_ok:
        tie_broken.append("proof obligation: " + str(rep.coverage.get("proof_failure", {}).get("where")))
    if disagreements:
        tie_broken.append("correspondence TlsPump.run_case vs anyio.streams.tls.TLSStream (pump loop)")
    if not vm_ok and not disagreements:
        tie_broken.append("vm_compute sample disagrees with extracted model")
    if tie_broken and not (pump_hits or e2e_hits):
        d = None
        if disagreements:
            c, m = min(disagreements, key=lambda cm: len(cm[0].flat()))
            small = shrink_pump(c, lambda c2: (asyncio.run(c2.run()), c2.outs != core.run_driver(exe, [c2.flat()])[0])[1])
            asyncio.run(small.run())
            d = {"case": small.to_json(), "impl": small.outs, "model": core.run_driver(exe, [small.flat()])[0]}
        rep.violation("; ".join(tie_broken), {"kind": "tie", "broken": tie_broken, "case": d}, no_input=True)
    elif disagreements and (pump_hits or e2e_hits):
        rep.notes.append(f"correspondence also broken on {len(disagreements)} cases")

    # ---------------- evidence ----------------
    flags_a: dict = {}
    for c in cases:
        for f in c.flags:
            flags_a[f] = flags_a.get(f, 0) + 1
    flags_b: dict = {}
    for _sc, _v, fl, _s in e2e_results:
        for f in fl:
            flags_b[f] = flags_b.get(f, 0) + 1
    opcount: dict = {}
    kindcount: dict = {}
    for c in cases:
        for o in c.ops:
            opcount[OPN[o[0]]] = opcount.get(OPN[o[0]], 0) + 1
        for ev in c.script:
            kindcount[KINDS[ev[0]]] = kindcount.get(KINDS[ev[0]], 0) + 1
    rescount: dict = {}
    for m in model_outs:
        if m:
            rescount[RES.get(m[0], str(m[0]))] = rescount.get(RES.get(m[0], str(m[0])), 0) + 1
    interesting_a = {"want_read", "want_write", "transport_eof", "ragged_eof_nonstd", "ssl_eof_std", "ssl_eof_nonstd", "clean_eos", "send_failed"}
    distinct = len({tuple(f) for f, c in zip(flats, cases) if c.flags & interesting_a})
    e2e_dist: dict = {}
    for sc, _v, _fl, _s in e2e_results:
        for k in (f"tls{sc.version}", f"chunk:{sc.chunk_cs}", f"chunk:{sc.chunk_sc}", "cut" if sc.cut else "nocut", f"mode:{sc.mode}",
                  f"std:{int(sc.std_c)}{int(sc.std_s)}"):
            e2e_dist[k] = e2e_dist.get(k, 0) + 1
    rep.coverage.update({
        "trusted_base": rep.assumptions,
        "evaluations": len(cases) + len(e2e_results),
        "programs": len(cases) + len(e2e_results),
        "traces_validated_against_impl": len(cases) - len(disagreements),
        "disagreements_checked": len(disagreements),
        "distinct_nontrivial": distinct + len({json.dumps(sc.to_json(), sort_keys=True) for sc, _v, fl, _s in e2e_results if fl}),
        "rule": "(a) scripted SSL-object answers (8 outcome kinds, arbitrary consume/emit) x scripted transport (any chunk sizes, EndOfStream, OSError, Broken/ClosedResourceError on receive and send) x op sequences (handshake/receive/send/unwrap/aclose): exhaustive small scope + random, run through the REAL TLSStream methods with fake BIOs and compared observation by observation with the extracted model; (b) real TLS 1.2/1.3 connections between two real TLSStreams over an in-memory transport with 1-byte / 7-byte / per-record / coalesced / random chunking, payload sequences 0 B .. 70 kB, receive sizes 1 .. 65536, both directions concurrently, clean close by either side, mixed standard_compatible, half-close without close_notify followed by the reply in the other direction, receive() in a cancelled scope, and a cut at every record of a reference conversation x {record start, inside header, after header, mid body, last byte} plus absolute offsets in the handshake; non-trivial = reaches want-read/want-write/EOF/error mapping (a) or any monitor-relevant predicate (b)",
        "exhaustive_small_scope_cases": n_small,
        "corpus_cases": len(corpus_a) + len(corpus_b),
        "pump_cases": len(cases),
        "e2e_scenarios": len(e2e_results),
        "reached_pump": flags_a,
        "reached_e2e": flags_b,
        "op_distribution": opcount,
        "ssl_outcome_distribution": kindcount,
        "first_result_distribution": rescount,
        "e2e_distribution": e2e_dist,
        "vm_compute_sample": len(idx),
        "vm_compute_ok": vm_ok,
        "model_stuck_first_op": stuck,
        "monitor_hits": len(pump_hits) + len(e2e_hits) + len(hssl_bad),
        "hssl_direct_checks_failed": len(hssl_bad),
        "not_exhibited_by_model": NOT_EXHIBITED,
        "samples": [cases[i].to_json()["readable"] | {"outs": cases[i].outs[:60]} for i in idx[:2]] +
                   [{"scenario": sc.to_json(), "summary": s} for sc, _v, _fl, s in e2e_results[:1] + e2e_results[-1:]],
    })
    need_a = ("want_read", "want_write", "transport_eof", "ragged_eof_nonstd", "ssl_eof_std", "ssl_eof_nonstd", "clean_eos", "flushed", "flushed_over_64k", "fed")
    need_b = ("cut_during_handshake", "cut_mid_record", "cut_between_records", "cut_after_handshake", "truncated_std",
              "truncated_nonstd", "clean_eos_std", "multi_record_payload", "zero_length_item", "full_duplex",
              "half_close_nonstd", "half_close_broken_std", "reply_after_ragged_eof_delivered", "duplex_reply_over_64k",
              "hssl_unexpected_eof_on_cut", "hssl_empty_read_after_close_notify")
    for need in need_a:
        if not flags_a.get(need):
            rep.notes.append(f"generator self-check: pump predicate {need} never reached")
    if not e2e_hits:
        for need in need_b:
            if not flags_b.get(need):
                rep.notes.append(f"generator self-check: e2e predicate {need} never reached")
    return rep.finish()


def replay(path: str) -> int:
    """bin/replay C17 <file>: re-executes a stored case on the current tree (and on the model for pump cases)."""
    d = json.load(open(path))
    kind = d.get("kind")
    if kind in ("pump", "pump-monitor", "tie") and (d.get("case") or {}).get("case", d.get("case")):
        j = d["case"]["case"] if "case" in d["case"] else d["case"]
        c = PumpCase.from_json(j)
        asyncio.run(c.run())
        exe = core.build_driver("tlspump", "TlsPump")
        m = core.run_driver(exe, [c.flat()])[0]
        print(json.dumps(c.to_json()["readable"], indent=1))
        print("implementation:", c.outs)
        print("model         :", m)
        for msg in c.mon:
            print("MONITOR:", msg)
        return 1 if (c.mon or c.outs != m) else 0
    if kind in ("e2e", "e2e-monitor"):
        import anyio
        import c17_tls_e2e as E

        sc = E.Scenario.from_json(d["scenario"])
        certs = E.Certs()
        out = anyio.run(E.run_scenario, sc, certs)
        v, fl = E.monitors(sc, *out)
        rc, rs = out[0], out[1]
        print(json.dumps(sc.to_json()))
        for r in (rc, rs):
            print(f"{r.role}: handshake={E.exc_name(r.hs_exc)} received={len(r.got)} receive-loop={E.exc_name(r.recv_exc)} "
                  f"after-data={E.exc_name(r.final_exc)} aclose={'ok' if r.close_done else E.exc_name(r.close_exc)}")
        for msg in v:
            print("MONITOR:", msg)
        return 1 if v else 0
    print(json.dumps(d, indent=1)[:4000])
    return 0
