"""C17 — TLS streams: (a) correspondence of boundary/TlsPump.v with the real TLSStream pump loop driven by a
scripted fake SSL object over a scripted fake transport, (b) the real `ssl` module end-to-end: real TLSStream
pairs over an in-memory re-chunking / truncating transport (module c17_tls_e2e), with history monitors."""

from __future__ import annotations

import asyncio
import json
import random
import ssl

import core

DRIVERS = [("tlspump", "TlsPump")]

KINDS = {0: "Ok", 1: "WantRead", 2: "WantWrite", 3: "Syscall", 4: "SSLEOFError", 5: "SSLError(UNEXPECTED_EOF)",
         6: "SSLError(other)", 7: "SSLZeroReturn"}
RXK = {0: "data", 1: "EndOfStream", 2: "OSError", 3: "BrokenResourceError", 4: "ClosedResourceError"}
TXK = {0: "ok", 1: "OSError", 2: "BrokenResourceError", 3: "ClosedResourceError"}
OPN = {0: "handshake", 1: "receive", 2: "send", 3: "unwrap", 4: "aclose"}
RES = {0: "value", 1: "EndOfStream", 2: "BrokenResourceError", 3: "ClosedResourceError", 4: "SSLError",
       5: "SSLZeroReturnError", 6: "OSError", 7: "ValueError", 8: "unexpected-exception", 9: "stuck"}


class Stuck(BaseException):
    """The script is exhausted: the real call would block for ever."""


# ------------------------------------------------------------------------------------------------
# part (a): fakes on both boundaries, the real TLSStream methods in between
# ------------------------------------------------------------------------------------------------

class FakeBIO:
    """ssl.MemoryBIO as far as TLSStream uses it (pending/read/write/write_eof), plus a back door for the fake
    SSL object.  Its behaviour is compared with the real ssl.MemoryBIO by bio_selfcheck()."""

    def __init__(self):
        self.buf = bytearray()
        self.eof_written = False

    @property
    def pending(self):
        return len(self.buf)

    @property
    def eof(self):
        return self.eof_written and not self.buf

    def read(self, n=-1):
        if n is None or n < 0 or n > len(self.buf):
            n = len(self.buf)
        out = bytes(self.buf[:n])
        del self.buf[:n]
        return out

    def write(self, data):
        if self.eof_written:
            raise ssl.SSLError("cannot write() after write_eof()")
        self.buf += data
        return len(data)

    def write_eof(self):
        self.eof_written = True


def bio_selfcheck(rng: random.Random, n: int) -> list[str]:
    """Differential check of FakeBIO against the real ssl.MemoryBIO on random call sequences."""
    bad = []
    for _ in range(n):
        real, fake = ssl.MemoryBIO(), FakeBIO()
        for _ in range(rng.randrange(1, 12)):
            c = rng.randrange(5)
            data = bytes(rng.getrandbits(8) for _ in range(rng.randrange(0, 4)))
            outs = []
            for b in (real, fake):
                try:
                    if c == 0:
                        outs.append(("w", b.write(data)))
                    elif c == 1:
                        outs.append(("r", b.read()))
                    elif c == 2:
                        outs.append(("rn", b.read(2)))
                    elif c == 3:
                        outs.append(("e", b.write_eof()))
                    else:
                        outs.append(("p", b.pending, b.eof))
                except ssl.SSLError:
                    outs.append(("SSLError",))
            if outs[0] != outs[1]:
                bad.append(f"FakeBIO differs from ssl.MemoryBIO on op {c}: {outs}")
    return bad


class FakeSSL:
    def __init__(self, script, bio_in: FakeBIO, bio_out: FakeBIO, rng_other: int = 0):
        self.script = list(script)          # (kind, consume, value, emit)
        self.bio_in, self.bio_out = bio_in, bio_out
        self.variant = rng_other
        self.calls = []

    def _next(self, name, arg=None):
        if not self.script:
            raise Stuck
        kind, cons, val, emit = self.script.pop(0)
        self.calls.append((name, kind))
        if cons > 0:
            self.bio_in.read(cons)
        self.bio_out.buf += bytes(emit)      # OpenSSL writes to the BIO regardless of MemoryBIO.write_eof()
        if kind == 0:
            return bytes(val)
        if kind == 1:
            raise ssl.SSLWantReadError(2, "The operation did not complete (read)")
        if kind == 2:
            raise ssl.SSLWantWriteError(3, "The operation did not complete (write)")
        if kind == 3:
            raise ssl.SSLSyscallError(5, "Some I/O error occurred")
        if kind == 4:
            raise ssl.SSLEOFError(8, "EOF occurred in violation of protocol")
        if kind == 5:
            raise ssl.SSLError(1, "[SSL: UNEXPECTED_EOF_WHILE_READING] unexpected eof while reading (_ssl.c:1000)")
        if kind == 6:
            self.variant += 1
            v = self.variant % 3
            if v == 0:
                raise ssl.SSLError(1, "[SSL: DECRYPTION_FAILED_OR_BAD_RECORD_MAC] decryption failed")
            if v == 1:
                raise ssl.SSLError("no strerror at all")
            raise ssl.SSLCertVerificationError(1, "[SSL: CERTIFICATE_VERIFY_FAILED] certificate verify failed")
        raise ssl.SSLZeroReturnError(6, "TLS/SSL connection has been closed (EOF)")

    def do_handshake(self):
        self._next("do_handshake")

    def read(self, n=1024, buffer=None):
        return self._next("read", n)

    def write(self, data):
        self._next("write", data)
        return len(data)

    def unwrap(self):
        self._next("unwrap")


class FakeTransport:
    def __init__(self, rx, tail, tx, bio_out: FakeBIO):
        self.rx = list(rx)                  # (kind, data)
        self.tail = tail                    # None or kind
        self.tx = list(tx)
        self.bio_out = bio_out
        self.calls: list[list[int]] = []
        self.extra_attributes = {}

    def _raise(self, kind, table):
        import anyio

        if table == "rx" and kind == 1:
            raise anyio.EndOfStream
        if kind == (2 if table == "rx" else 1):
            raise ConnectionResetError(104, "scripted OSError")
        if kind == (3 if table == "rx" else 2):
            raise anyio.BrokenResourceError
        raise anyio.ClosedResourceError

    async def receive(self, max_bytes: int = 65536):
        if self.rx:
            kind, data = self.rx.pop(0)
        elif self.tail is not None:
            kind, data = self.tail, []
        else:
            raise Stuck
        self.calls.append([1, self.bio_out.pending, kind])
        if kind == 0:
            return bytes(data)
        self._raise(kind, "rx")

    async def send(self, item):
        kind = self.tx.pop(0) if self.tx else 0
        self.calls.append([0, kind, len(item), *item])
        if kind:
            self._raise(kind, "tx")

    async def aclose(self):
        import anyio

        forced = anyio.current_effective_deadline() == float("-inf")
        self.calls.append([3 if forced else 2])


def res_code(exc) -> int:
    import anyio

    if exc is None:
        return 0
    if isinstance(exc, Stuck):
        return 9
    if isinstance(exc, anyio.EndOfStream):
        return 1
    if isinstance(exc, anyio.BrokenResourceError):
        return 2
    if isinstance(exc, anyio.ClosedResourceError):
        return 3
    if isinstance(exc, ssl.SSLZeroReturnError):
        return 5
    if isinstance(exc, ssl.SSLError):
        return 4
    if isinstance(exc, OSError):
        return 6
    if isinstance(exc, ValueError):
        return 7
    return 8


class PumpCase:
    """One case in the codec's format (see the codec comment in TlsPump.v)."""

    def __init__(self, std, tail, script, rx, tx, ops):
        self.std, self.tail, self.script, self.rx, self.tx, self.ops = std, tail, script, rx, tx, ops
        self.outs: list[int] = []
        self.flags: set[str] = set()
        self.mon: list[str] = []

    def flat(self) -> list[int]:
        c = [1 if self.std else 0, 0 if self.tail is None else 1 + self.tail, len(self.script)]
        for (k, cons, val, emit) in self.script:
            c += [k, cons, len(val), *val, len(emit), *emit]
        c.append(len(self.rx))
        for (k, d) in self.rx:
            c += [k, len(d), *d]
        c.append(len(self.tx))
        c += self.tx
        for op in self.ops:
            if op[0] == 1:
                c += [1, op[1]]
            elif op[0] == 2:
                c += [2, len(op[1]), *op[1]]
            else:
                c.append(op[0])
        return c

    def to_json(self):
        return {"std": self.std, "tail": self.tail, "script": self.script, "rx": self.rx, "tx": self.tx,
                "ops": self.ops,
                "readable": {"script": [(KINDS[k], f"consume {c}", f"value {v}", f"emit {e}") for k, c, v, e in self.script],
                             "rx": [(RXK[k], d) for k, d in self.rx], "tx": [TXK[k] for k in self.tx],
                             "tail": None if self.tail is None else RXK[self.tail],
                             "ops": [(OPN[o[0]], *o[1:]) for o in self.ops]}}

    @staticmethod
    def from_json(j):
        return PumpCase(bool(j["std"]), j["tail"], [tuple(x) for x in j["script"]], [tuple(x) for x in j["rx"]],
                        list(j["tx"]), [tuple(x) for x in j["ops"]])

    async def run(self):
        """Drive the REAL TLSStream methods (unmodified) and record the observations in the codec's format."""
        from anyio.streams.tls import TLSStream

        bin_, bout = FakeBIO(), FakeBIO()
        fssl = FakeSSL(self.script, bin_, bout)
        ft = FakeTransport(self.rx, self.tail, self.tx, bout)
        stream = TLSStream(transport_stream=ft, standard_compatible=self.std, _ssl_object=fssl,
                           _read_bio=bin_, _write_bio=bout)
        outs: list[int] = []
        fed_total = 0
        for op in self.ops:
            ncalls = len(ft.calls)
            nssl = len(fssl.calls)
            val = b""
            exc = None
            try:
                if op[0] == 0:
                    await stream._call_sslobject_method(fssl.do_handshake)
                elif op[0] == 1:
                    val = await stream.receive(op[1])
                elif op[0] == 2:
                    await stream.send(bytes(op[1]))
                elif op[0] == 3:
                    tr, val = await stream.unwrap()
                    if tr is not ft:
                        self.mon.append("unwrap() did not return the transport stream")
                else:
                    await stream.aclose()
            except BaseException as e:  # noqa: BLE001
                exc = e
            code = res_code(exc)
            if code == 8:
                self.mon.append(f"unexpected exception {exc!r} from {OPN[op[0]]}")
            calls = ft.calls[ncalls:]
            outs += [code, len(val), *val, len(calls)]
            for c in calls:
                outs += c
            outs += [1 if bin_.eof_written else 0, 1 if bout.eof_written else 0, bin_.pending, bout.pending]
            self._monitor(op, code, val, calls, fssl.calls[nssl:], bin_, bout)
        self.outs = outs
        return self

    # -- model-independent monitors on the observable history of the real method --
    def _monitor(self, op, code, val, calls, sslcalls, bin_, bout):
        for c in calls:
            if c[0] == 1 and c[1] != 0:
                self.mon.append(f"transport.receive() awaited while {c[1]} produced bytes were still unsent (op {OPN[op[0]]})")
            if c[0] == 1 and c[2] == 1:
                self.flags.add("transport_eof")
                if not bin_.eof_written:
                    self.mon.append("transport EndOfStream not propagated to the incoming BIO (write_eof missing)")
            if c[0] == 1 and c[2] == 0:
                self.flags.add("fed")
            if c[0] == 0 and c[1] == 0 and c[2] > 0:
                self.flags.add("flushed")
        last = sslcalls[-1][1] if sslcalls else None
        if op[0] == 1 and last in (4, 5) and code in (1, 2):
            self.flags.add("ssl_eof_std" if self.std else "ssl_eof_nonstd")
            if self.std and code != 2:
                self.mon.append("standard_compatible: SSL unexpected-EOF reported as a clean EndOfStream")
            if not self.std and code != 1:
                self.mon.append("not standard_compatible: SSL unexpected-EOF not reported as EndOfStream")
        if op[0] == 1 and code == 0:
            if len(val) > op[1]:
                # only meaningful when the scripted read() honoured its bound
                if sslcalls and sslcalls[-1][1] == 0:
                    self.flags.add("oracle_overlong")
            if len(val) == 0:
                self.mon.append("receive() returned an empty bytes object")
        if op[0] == 1 and code == 1 and last == 0:
            self.flags.add("clean_eos")
        if any(k == 2 for _, k in sslcalls):
            self.flags.add("want_write")
        if any(k == 1 for _, k in sslcalls):
            self.flags.add("want_read")


def gen_pump_case(rng: random.Random) -> PumpCase:
    std = rng.random() < 0.6
    nops = rng.choice([1, 2, 3, 4, 6])
    ops, script, rx, tx = [], [], [], []
    wild = rng.random() < 0.15           # completely random script
    for i in range(nops):
        r = rng.random()
        if i == 0 and r < 0.7:
            op = (0,)
        elif r < 0.45:
            op = (1, rng.choice([0, 1, 1, 2, 3, 5, 8]))
        elif r < 0.8:
            op = (2, [rng.randrange(256) for _ in range(rng.choice([0, 1, 2, 4]))])
        elif r < 0.9:
            op = (3,)
        else:
            op = (4,)
        ops.append(op)
        if op == (1, 0):
            continue
        nloop = rng.choice([0, 0, 1, 1, 2, 3])
        for _ in range(nloop):
            k = rng.choice([1, 1, 1, 2])
            emit = [rng.randrange(256) for _ in range(rng.choice([0, 0, 1, 3]))]
            script.append((k, rng.choice([0, 0, 1, 2, 9]), [], emit))
            if k == 1 and rng.random() < 0.9:
                x = rng.random()
                if x < 0.75:
                    rx.append((0, [rng.randrange(256) for _ in range(rng.choice([1, 1, 2, 3, 5]))]))
                elif x < 0.9:
                    rx.append((1, []))
                else:
                    rx.append((rng.choice([2, 3, 4]), []))
        x = rng.random()
        kind = 0 if x < 0.7 else rng.choice([3, 4, 5, 6, 7])
        val = []
        if kind == 0 and op[0] == 1:
            n = op[1]
            ln = rng.choice([0, 1, n, max(0, n - 1), n]) if rng.random() < 0.95 else n + 2
            val = [rng.randrange(256) for _ in range(ln)]
        emit = [rng.randrange(256) for _ in range(rng.choice([0, 1, 2, 4]))]
        script.append((kind, rng.choice([0, 0, 1, 3, 9]), val, emit))
    if wild:
        script = [(rng.randrange(8), rng.randrange(4), [rng.randrange(256) for _ in range(rng.randrange(3))],
                   [rng.randrange(256) for _ in range(rng.randrange(3))]) for _ in range(rng.randrange(1, 8))]
        rx = [(rng.choice([0, 0, 0, 1, 2, 3, 4]), []) for _ in range(rng.randrange(0, 5))]
        rx = [(k, [rng.randrange(256) for _ in range(rng.randrange(0, 3))] if k == 0 else []) for k, _ in rx]
    if rng.random() < 0.15:
        tx = [0] * rng.randrange(0, 3) + [rng.choice([1, 2, 3])]
    tail = rng.choice([None, 1, 1, 1, 0, 3])
    if tail == 0:
        tail = 1
    return PumpCase(std, tail, script, rx, tx, ops)


def small_scope_cases() -> list[PumpCase]:
    """Exhaustive: every SSL outcome kind x every transport answer x flag, one or two loop iterations, for the
    receive and the aclose operation (the two with outcome mapping of their own)."""
    out = []
    for std in (False, True):
        for op in ((1, 2), (2, [5]), (4,), (3,)):
            for k1 in range(8):
                for emit in ([], [9]):
                    for rxk in (0, 1, 2, 3, 4):
                        for txk in (0, 1, 2, 3):
                            if k1 not in (1, 2) and (rxk or txk):
                                continue
                            for k2 in ((0, 4, 5, 6) if k1 in (1, 2) else (0,)):
                                script = [(k1, 1, [7] if k1 == 0 else [], emit)]
                                if k1 in (1, 2):
                                    script.append((k2, 0, [7, 8] if k2 == 0 else [], emit))
                                rx = [(rxk, [1, 2] if rxk == 0 else [])]
                                out.append(PumpCase(std, 1, script, rx, [txk] if txk else [], [op, (1, 1)]))
    return out


async def run_pump_cases(cases: list[PumpCase]):
    for c in cases:
        await c.run()
