"""Tie T (source-to-Coq translators re-run on every check): shared driver for C09 (tools/translate_lock.py) and C10
(tools/translate_prims.py).

The generated .v files live in coq/prims next to the hand-written sources, so two checks running at the same time
against different trees (VERIF_REPO) would overwrite each other's files between `translate` and `make`.  Every user
of these files (this module, bin/setup) therefore holds the `tiegen` lock from the start of the translation until the
proof cone has been rebuilt and inspected; inside that window the generated files and their .vo are this run's."""

from __future__ import annotations

import os
import re
import subprocess
import sys

import core


def translate_and_prove(rep, prop_file: str, script):
    """Regenerate (fail closed: a refusal leaves a file that does not compile), then build the cone of prop_file.
    `script` is one translator or a list of them.  Returns (worst translator rc, concatenated output, proofs_ok)."""
    env = dict(os.environ, VERIF_REPO=str(core.REPO))
    scripts = [script] if isinstance(script, str) else list(script)
    rc, outs = 0, []
    with core.locked("tiegen"):
        for sc in scripts:
            p = subprocess.run([sys.executable, str(core.VERIF / "tools" / sc)], env=env,
                               stdout=subprocess.PIPE, stderr=subprocess.STDOUT, text=True, timeout=120)
            rc = max(rc, p.returncode)
            outs.append(p.stdout.strip())
        proofs_ok = core.proof_stage(rep, prop_file)
    return rc, "\n".join(outs), proofs_ok


def failing_obligation(where: str, helper_segments: dict | None = None):
    """'prims/LockGenEq.v:123' -> (name of the enclosing Theorem/Lemma, segment it speaks about)."""
    m = re.match(r"(.+\.v):(\d+)$", where or "")
    if not m or not (core.COQ / m.group(1)).exists():
        return None, None
    lines = (core.COQ / m.group(1)).read_text().splitlines()[:int(m.group(2))]
    for ln in reversed(lines):
        d = re.match(r"\s*(?:Theorem|Lemma|Example|Corollary|Definition)\s+([A-Za-z0-9_']+)", ln)
        if d:
            name = d.group(1)
            seg = (helper_segments or {}).get(name)
            if seg is None and name.startswith("tie_"):
                seg = re.sub(r"_spec$", "", name[4:])
            return name, seg
    return None, None


def describe(rep, t_rc: int, t_out: str, proofs_ok: bool, tie_files, helper_segments=None):
    """The tie_T coverage entry and the list of broken-tie messages (empty if the tie holds)."""
    lines = t_out.splitlines()
    head = [ln for ln in lines if ln.startswith("translate_")]
    segs = dict(re.findall(r"^  (\w+) := (.*)$", t_out, re.M))
    tie_T = {
        "translator_ok": t_rc == 0,
        "translator_output": [ln[-700:] for ln in head],
        "segments": segs,
        "equality_proved": bool(proofs_ok),
    }
    broken = []
    if not proofs_ok:
        where = str(rep.coverage.get("proof_failure", {}).get("where"))
        if t_rc != 0:
            tie_T["broken"] = "translator refused"
            broken.append("tie T: the class is outside the translator's grammar: "
                          + "; ".join(ln for ln in head if "REFUSED" in ln)[-600:])
        elif where.split(":")[0] in tie_files:
            thm, seg = failing_obligation(where, helper_segments)
            tie_T.update({"broken": "equality proof", "failing_theorem": thm, "segment": seg, "where": where})
            broken.append(f"tie T: the regenerated code no longer equals the model: {thm} ({where}) fails"
                          + (f", segment {seg}" if seg else ""))
    return tie_T, broken
