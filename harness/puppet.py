"""Puppet tasks on a SchedLoop: each puppet is a real asyncio.Task that performs, one at a time, the API
actions the harness hands it and records how each one ended.  The harness decides which ready handle runs."""

from __future__ import annotations

import asyncio
from asyncio import CancelledError

from schedloop import SchedLoop


class Puppet:
    def __init__(self, world: "World", tid: int):
        self.world = world
        self.tid = tid
        self.cmdfut: asyncio.Future | None = None
        self.at_decision = False      # suspended waiting for the next command
        self.outcome = None           # ('ok', value) | ('exc', exception) of the last finished command
        self.log: list = []
        self.task: asyncio.Task | None = None
        self.finished = False

    async def main(self):
        loop = self.world.loop
        try:
            while True:
                self.cmdfut = loop.create_future()
                self.at_decision = True
                cmd = await self.cmdfut
                self.at_decision = False
                if cmd is None:
                    return
                try:
                    res = await cmd(self)
                    self.outcome = ("ok", res)
                except CancelledError as e:
                    self.outcome = ("exc", e)
                    # the puppet "swallows" the cancellation.  Programs that do so may or may not call uncancel():
                    # Task.cancelling() is a sticky counter, and a primitive must not mistake a task that was cancelled
                    # at some point in the past for one that is being cancelled now.  Alternate (deterministic).
                    self.n_swallowed = getattr(self, "n_swallowed", 0) + 1
                    t = asyncio.current_task()
                    if self.n_swallowed % 2 == 0:
                        while t.cancelling():
                            t.uncancel()
                except BaseException as e:  # noqa: BLE001
                    self.outcome = ("exc", e)
        finally:
            self.finished = True


class World:
    def __init__(self):
        self.loop = SchedLoop()
        self.puppets: dict[int, Puppet] = {}

    def session(self):
        return self.loop.session()

    def spawn(self, tid: int) -> Puppet:
        p = Puppet(self, tid)
        p.task = self.loop.create_task(p.main(), name=f"puppet{tid}")
        self.puppets[tid] = p
        # run its first step so that it sits at its decision point
        self._run_task_handle(p)
        assert p.at_decision
        return p

    def handle_of(self, p: Puppet):
        for h in self.loop.ready_handles():
            if getattr(h._callback, "__self__", None) is p.task:
                return h
        return None

    def _run_task_handle(self, p: Puppet) -> bool:
        h = self.handle_of(p)
        if h is None:
            return False
        self.loop.run_handle(h)
        return True

    def runnable(self, p: Puppet) -> bool:
        return self.handle_of(p) is not None

    def act(self, tid: int, cmd):
        """Give command `cmd` (async callable taking the puppet) to puppet tid, which must be at its decision
        point, and run it up to its next suspension.  Returns ('ok',v)/('exc',e) or ('blocked',None)."""
        p = self.puppets[tid]
        assert p.at_decision, f"puppet {tid} is not at a decision point"
        p.outcome = None
        p.cmdfut.set_result(cmd)
        ok = self._run_task_handle(p)
        assert ok
        return self.status(p)

    def status(self, p: Puppet):
        if p.at_decision or p.finished:
            return p.outcome
        return ("blocked", None)

    def resume(self, tid: int):
        p = self.puppets[tid]
        assert not p.at_decision
        ok = self._run_task_handle(p)
        if not ok:
            return None
        return self.status(p)

    def close(self):
        # finish puppets so that no "Task was destroyed but it is pending" noise remains
        for p in self.puppets.values():
            if p.task is not None and not p.task.done():
                p.task.cancel()
        for _ in range(50):
            if not self.loop._ready:
                break
            self.loop.run_cycle()
        self.loop.close()
