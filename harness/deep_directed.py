"""Directed scenario for unbounded nesting depth (finding F26, fixed): a chain of nested task groups across tasks,
deeper than the interpreter's recursion limit allows for one Python frame per cancel scope.  The S machine's
delivery walk is structural recursion on fuel (no stack to exhaust), so this is a resource boundary of the
implementation outside the model; the scenario is judged by C01's text directly: when a block finishes, every task
ever started in it has terminated."""
from __future__ import annotations

import asyncio
import sys

from core import REPO


async def _chain(depth: int, trigger: str) -> list[str]:
    import anyio
    from anyio import create_task_group
    bad: list[str] = []
    running: set[int] = set()
    all_up = anyio.Event()

    async def level(n: int) -> None:
        running.add(n)
        try:
            if n == depth:
                all_up.set()
                await anyio.sleep_forever()
            async with create_task_group() as tg:
                tg.start_soon(level, n + 1)
            # the block has been left
        finally:
            alive = [m for m in running if m > n]
            if alive and len(bad) < 3:
                bad.append(f"the task group block of level {n} was left while {len(alive)} descendant tasks were still running")
            running.discard(n)

    async def failer() -> None:
        await all_up.wait()
        raise ValueError("boom")

    try:
        if trigger == "sibling_error":
            async with create_task_group() as tg:
                tg.start_soon(level, 0)
                tg.start_soon(failer)
        else:
            with anyio.move_on_after(30) as scope:
                async with create_task_group() as tg:
                    tg.start_soon(level, 0)
                    await all_up.wait()
                    scope.cancel()
    except BaseException as e:  # noqa: BLE001
        leaves = []

        def walk(x):
            if isinstance(x, BaseExceptionGroup):
                for y in x.exceptions:
                    walk(y)
            else:
                leaves.append(type(x).__name__)
        walk(e)
        if any(x == "RecursionError" for x in leaves):
            bad.append(f"RecursionError came out of the outermost block ({sorted(set(leaves))})")
    if running:
        bad.append(f"{len(running)} tasks of the tree are still running after the outermost block was left")
    return bad


async def _leaf_error(depth: int) -> list[str]:
    """C02 (finding F52): one group per task, `depth` levels, the innermost task raises the only error of the program;
    the leaves of what the outermost block raises must be exactly that error."""
    from anyio import create_task_group, sleep_forever

    class Boom(Exception):
        pass

    async def level(n: int) -> None:
        if n == 0:
            await asyncio.sleep(0.05)
            raise Boom("the only error raised by any task")
        async with create_task_group() as tg:
            tg.start_soon(level, n - 1)
            tg.start_soon(sleep_forever)

    found, stack = [], []
    try:
        await level(depth)
    except BaseException as exc:  # noqa: BLE001
        stack = [exc]
    while stack:
        item = stack.pop()
        if isinstance(item, BaseExceptionGroup):
            stack.extend(item.exceptions)
        else:
            found.append(item)
    names = sorted(type(e).__name__ for e in found)
    if names == ["Boom"]:
        return []
    # the known finding F52 is the depth at which BaseExceptionGroup.split() exhausts the interpreter's stack (HEAD: clean
    # up to 1200, lost from 1500 on); losing the error through a RecursionError at a smaller depth is something else
    tag = " [kf:deep_error_replaced_by_recursion_error]" if names == ["RecursionError"] and depth >= 1400 else ""
    return [f"{depth} nested task groups (one per task), the innermost task raised Boom and nothing else failed: the "
            f"outermost block raised leaves {names} - the error was dropped{tag}"]


def run_c02(depth: int | None = None) -> list[tuple[str, str]]:
    """The scenario at depth 1000 (= the default recursion limit; must be clean) and at 3500 (known finding F52)."""
    if depth is None:
        return run_c02(1000) + run_c02(3500)
    import json
    import os
    import subprocess
    env = dict(os.environ, PYTHONPATH=f"{REPO / 'src'}:{os.path.dirname(os.path.abspath(__file__))}", VERIF_REPO=str(REPO))
    try:
        p = subprocess.run([sys.executable, os.path.abspath(__file__), "--one", "leaf_error", str(depth)], env=env,
                           stdout=subprocess.PIPE, stderr=subprocess.DEVNULL, text=True, timeout=90)
        last = [l for l in p.stdout.splitlines() if l.startswith("RESULT ")]
        msgs = json.loads(last[-1][7:]) if last else [f"scenario process ended with status {p.returncode} and no result"]
    except subprocess.TimeoutExpired:
        msgs = ["the task tree never terminated (90 s limit)"]
    return [(f"leaf_error/depth={depth}", m) for m in msgs]


def run_all(depth: int | None = None) -> list[tuple[str, str]]:
    """Each trigger runs in its own interpreter with a hard time limit: on a tree with the defect the program may
    hang or drown in loop error reports."""
    import json
    import os
    import subprocess
    depth = depth or sys.getrecursionlimit()
    out: list[tuple[str, str]] = []
    env = dict(os.environ, PYTHONPATH=f"{REPO / 'src'}:{os.path.dirname(os.path.abspath(__file__))}", VERIF_REPO=str(REPO))
    for trig in ("sibling_error", "scope_cancel"):
        try:
            p = subprocess.run([sys.executable, os.path.abspath(__file__), "--one", trig, str(depth)], env=env,
                               stdout=subprocess.PIPE, stderr=subprocess.DEVNULL, text=True, timeout=45)
            last = [l for l in p.stdout.splitlines() if l.startswith("RESULT ")]
            msgs = json.loads(last[-1][7:]) if last else [f"scenario process ended with status {p.returncode} and no result"]
        except subprocess.TimeoutExpired:
            msgs = ["the task tree never terminated (45 s limit)"]
        out += [(f"{trig}/depth={depth}", m) for m in msgs]
    return out


def _one(trig: str, depth: int) -> None:
    import json

    async def main():
        asyncio.get_running_loop().set_exception_handler(lambda loop, ctx: None)
        if trig == "leaf_error":
            return await asyncio.wait_for(_leaf_error(depth), 70)
        return await asyncio.wait_for(_chain(depth, trig), 20)
    try:
        msgs = asyncio.run(main())
    except asyncio.TimeoutError:
        msgs = ["the task tree never terminated (watchdog)"]
    except BaseException as e:  # noqa: BLE001
        msgs = [f"scenario ended with {type(e).__name__}: {str(e)[:120]}"]
    print("RESULT " + json.dumps(msgs), flush=True)
    import os
    os._exit(0)


if __name__ == "__main__":
    if len(sys.argv) >= 4 and sys.argv[1] == "--one":
        src = str(REPO / "src")
        if src not in sys.path:
            sys.path.insert(0, src)
        _one(sys.argv[2], int(sys.argv[3]))
    r = run_all()
    print(r or "ok")
    sys.exit(1 if r else 0)
