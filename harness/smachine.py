"""Implementation side of the S machine: real AnyIO cancel scopes / task groups / start() / task handles driven by
puppet tasks on SchedLoop, producing the same flat (ops, observations) encoding as coq/scopes/Machine.v."""

from __future__ import annotations

import asyncio
import math
import random
import re
from asyncio import CancelledError

from schedloop import SchedLoop

# op codes (see Machine.resolve)
NEWSCOPE, ENTER, EXIT, CANCEL, SETSHIELD, SETDEADLINE, GNEW, GENTER, GEXIT, SPAWN, START, STARTED, HCANCEL, HWAIT, \
    YIELD, CKIF, SHIELDCK, SLEEP, HOLD, DROP, WRAP, FINISH, UNCANCEL, EFFDL, FAILAT = range(25)
NEWROOT, NATIVECANCEL, EXTCANCEL, RUNSTEP, RUNWAKE, RUNDELIVER, RUNTASKDONE, RUNSLEEPDONE, RUNTIMEOUT = range(30, 39)
TICK = 40
OPNAMES = {0: "NewScope", 1: "Enter", 2: "Exit", 3: "Cancel", 4: "SetShield", 5: "SetDeadline", 6: "GroupNew",
           7: "GroupEnter", 8: "GroupExit", 9: "Spawn", 10: "Start", 11: "Started", 12: "HandleCancel",
           13: "HandleWait", 14: "Yield", 15: "CkIf", 16: "ShieldCk", 17: "Sleep", 18: "Hold", 19: "Drop",
           20: "Wrap", 21: "Finish", 22: "Uncancel", 23: "EffDeadline", 24: "FailAt", 30: "NewRoot",
           31: "NativeCancel", 32: "ExtCancel", 33: "RunStep", 34: "RunWake", 35: "RunDeliver", 36: "RunTaskDone",
           37: "RunSleepDone", 38: "RunTimeout", 40: "Tick"}

CANCEL_RE = re.compile(r"Cancelled via cancel scope ([0-9a-f]+)")


class _Hostile:
    """An object that cannot be printed."""

    def __repr__(self):
        raise RuntimeError("repr() of a user object failed")

    __str__ = __repr__


class _EqualError(ValueError):
    """A user exception type with VALUE equality (what a @dataclass exception has): every two instances compare and
    hash equal although they are distinct objects with their own code.  The library must tell exceptions apart by
    identity: `exc in some_list` / set membership silently merges such errors (seed C02 h).  Every error a program
    holds is of this kind (the plain ValueErrors made by `wrap` are not)."""

    def __eq__(self, other):
        return isinstance(other, _EqualError)

    def __hash__(self):
        return 7


class _FalsyError(_EqualError):
    """A user exception whose truth value is False (an "error collection" that happens to be empty): the library
    must decide by `is not None`, never by truthiness."""

    def __bool__(self):
        return False

    def __len__(self):
        return 0


class SPuppet:
    def __init__(self, world: "SWorld", tid: int, spawned: bool):
        self.world = world
        self.tid = tid
        self.spawned = spawned
        self.task: asyncio.Task | None = None
        self.cmdfut: asyncio.Future | None = None
        self.at_decision = False
        self.started = False
        self.finished = False
        self.outcome = None
        self.held: BaseException | None = None
        self.task_status = None
        self.failat_cms: dict = {}
        self.idle_hits = 0
        self.inbox: list = []
        self.cmd_outcome = None
        self.cmd_done = 0
        self.busy = False
        self.pending_op = None
        self.in_start_join = False

    async def main(self):
        self.task = asyncio.current_task()
        self.started = True
        loop = self.world.loop
        try:
            while True:
                self.busy = False
                if self.inbox:
                    cmd = self.inbox.pop(0)
                else:
                    self.cmdfut = loop.create_future()
                    self.at_decision = True
                    try:
                        cmd = await self.cmdfut
                    except CancelledError as e:
                        # cancellation delivered while the program sits between two operations
                        self.at_decision = False
                        if self.world.shutdown:
                            raise
                        self.held = e
                        self.outcome = ("exc", e)
                        self.idle_hits += 1
                        continue
                    self.at_decision = False
                    if cmd == "inbox":
                        continue
                self.busy = True
                if isinstance(cmd, tuple) and cmd[0] == "finish":
                    if self.held is not None:
                        raise self.held
                    return cmd[1]
                try:
                    res = await cmd(self)
                    self.outcome = ("ok", res)
                except BaseException as e:  # noqa: BLE001
                    if self.world.shutdown and isinstance(e, CancelledError):
                        raise
                    self.held = e
                    self.outcome = ("exc", e)
                self.cmd_outcome = self.outcome
                self.cmd_done += 1
        finally:
            self.finished = True
            self.at_decision = False


class SWorld:
    """Real objects + id registries.  All ids are allocation indices (1-based), as in the model."""

    real = False
    shutdown = False

    def __init__(self, loop=None):
        import anyio
        import anyio._backends._asyncio as ab
        import anyio._core._tasks as ct

        self.anyio = anyio
        self.ab = ab
        self.ct = ct
        self.loop = loop if loop is not None else SchedLoop()
        self.puppets: dict[int, SPuppet] = {}
        self.scopes: list = []
        self.groups: list = []
        self.handles: list = []          # TaskHandle objects in creation order == spawned puppets in order
        self.spawned_tids: list[int] = []
        self.ops: list[int] = []
        self.outs: list[int] = []
        self.step_lens: list[int] = []
        self.fresh: set[int] = set()
        self.public_handles: list[int] = []
        self.public_scopes: list[int] = []
        self.log: list = []              # readable history for monitors: (op tuple, result tuple, snapshot dict)
        self._expect_child: SPuppet | None = None
        if self.real:
            self._patch()
            return
        orig_create_task = self.loop.create_task

        def create_task(coro, **kw):
            task = orig_create_task(coro, **kw)
            ch = self._expect_child
            if ch is not None:
                self._expect_child = None
                ch.tid = self.next_tid()
                ch.pre_task = task
                self.register_child(ch)
            return task

        self.loop.create_task = create_task
        self._patch()

    # --- registries through constructor patches (harness-side only) ---
    def _patch(self):
        world = self
        ab, ct = self.ab, self.ct
        self._orig_scope_init = ab.CancelScope.__init__
        self._orig_handle_init = ct.TaskHandle.__init__

        def scope_init(sc, *a, **kw):
            world._orig_scope_init(sc, *a, **kw)
            if not any(x is sc for x in world.scopes):
                world.scopes.append(sc)

        def handle_init(h, *a, **kw):
            world._orig_handle_init(h, *a, **kw)
            world.handles.append(h)

        ab.CancelScope.__init__ = scope_init
        ct.TaskHandle.__init__ = handle_init

    def _unpatch(self):
        self.ab.CancelScope.__init__ = self._orig_scope_init
        self.ct.TaskHandle.__init__ = self._orig_handle_init

    def __enter__(self):
        self._sess = self.loop.session()
        self._sess.__enter__()
        return self

    def __exit__(self, *a):
        try:
            for p in self.puppets.values():
                if p.task is not None and not p.task.done():
                    p.task.cancel()
            for _ in range(200):
                if not self.loop._ready:
                    nt = self.loop.next_timer()
                    if nt is None or nt == math.inf:
                        break
                    self.loop.advance(max(nt - self.loop.time(), 0))
                self.loop.run_cycle()
                for p in self.puppets.values():
                    if p.task is not None and not p.task.done():
                        p.task.cancel()
        except BaseException:  # noqa: BLE001
            pass
        finally:
            self._unpatch()
            self._sess.__exit__(*a)
            try:
                self.loop.close()
            except BaseException:  # noqa: BLE001
                pass

    # --- id helpers ---
    def sid(self, sc) -> int:
        if sc is None:
            return 0
        for i, x in enumerate(self.scopes):
            if x is sc:
                return i + 1
        return 9999

    def tid_of_task(self, task) -> int:
        if task is None:
            return 0
        for t, p in self.puppets.items():
            if p.task is task or getattr(p, "pre_task", None) is task:
                return t
        return 9999

    def handle_of(self, tid: int):
        return self.handles[self.spawned_tids.index(tid)]

    # --- encoding of exceptions / results ---
    def leaf_code(self, e) -> int:
        if isinstance(e, CancelledError):
            m = CANCEL_RE.search(str(e.args[0])) if e.args and isinstance(e.args[0], str) else None
            if not m:
                return 1000
            ident = int(m.group(1), 16)
            for i, x in enumerate(self.scopes):
                if id(x) == ident:
                    return 1000 + i + 1
            return 1999
        if isinstance(e, TimeoutError):
            return 3001
        if isinstance(e, RuntimeError):
            return 3000
        if isinstance(e, ValueError) and e.args and isinstance(e.args[0], int):
            return 2000 + e.args[0]
        return 3998

    def leaves(self, e):
        if isinstance(e, BaseExceptionGroup):
            out = []
            for x in e.exceptions:
                out += self.leaves(x)
            return out
        return [e]

    def enc_exn(self, e) -> list[int]:
        lv = self.leaves(e)
        return [1 if isinstance(e, BaseExceptionGroup) else 0, len(lv)] + [self.leaf_code(x) for x in lv]

    def enc_outcome(self, out) -> list[int]:
        if out is None:
            return [3]
        kind, val = out
        if kind == "blocked":
            return [2]
        if kind == "none":
            return [3]
        if kind == "time":
            if val == math.inf:
                return [4, 0, 0]
            if val == -math.inf:
                return [4, 1, 0]
            return [4, 2, int(val)]
        if kind == "ok":
            if val is True:
                return [0, 1]
            if isinstance(val, int) and not isinstance(val, bool):
                return [0, val]
            return [0, 0]
        return [1] + self.enc_exn(val)

    # --- classification of loop handles ---
    def classify(self, h) -> int:
        cb = h._callback
        owner = getattr(cb, "__self__", None)
        name = getattr(cb, "__name__", "")
        if isinstance(owner, asyncio.Task):
            t = self.tid_of_task(owner)
            if type(cb).__name__ == "TaskStepMethWrapper":
                return 1000 + t
            return 2000 + t
        if name == "_deliver_cancellation":
            return 3000 + self.sid(owner)
        if name == "_timeout":
            return 6000 + self.sid(owner)
        if name == "task_done":
            return 4000 + self.tid_of_task(h._args[0])
        if name == "_set_result_unless_cancelled":
            fut = h._args[0]
            for t, p in self.puppets.items():
                if p.task is not None and getattr(p.task, "_fut_waiter", None) is fut:
                    return 5000 + t
            return 5000
        return 9000

    def find_handle(self, code: int):
        for h in self.loop.ready_handles():
            if self.classify(h) == code:
                return h
        return None

    # --- snapshot ---
    def task_state(self, p: SPuppet) -> int:
        task = p.task or getattr(p, "pre_task", None)
        if task is not None and task.done():
            if task.cancelled():
                return 5
            return 4 if task.exception() is not None else 3
        if not p.started:
            return 0
        return 1 if p.at_decision else 2

    def handle_status(self, p: SPuppet) -> int:
        if not p.spawned:
            return 0
        st = self.handle_of(p.tid).status.name
        return {"PENDING": 1, "CANCELLING": 2, "FINISHED": 3, "FAILED": 4, "CANCELLED": 5}[st]

    def exn_sum(self, e) -> int:
        return sum(self.leaf_code(x) for x in self.leaves(e))

    def handle_outcome(self, p: SPuppet) -> list[int]:
        """[TaskHandle._return_value + 1 or 0, sum of the leaf codes of TaskHandle._exception or 0]"""
        if not p.spawned:
            return [0, 0]
        h = self.handle_of(p.tid)
        try:
            rv = h._return_value
            has_rv = True
        except AttributeError:
            has_rv = False
        exc = h._exception
        return [(int(rv) + 1) if has_rv and isinstance(rv, int) else 0, self.exn_sum(exc) if exc is not None else 0]

    def observe(self) -> list[int]:
        ab = self.ab
        out = [int(self.loop.time()), len(self.puppets)]
        for t in sorted(self.puppets):
            p = self.puppets[t]
            task = p.task
            ts = ab._task_states.get(task) if task is not None else None
            cur = self.sid(ts.cancel_scope) if ts is not None else 0
            if task is None:
                # created by the group but not yet run: state is kept by the task object we do not know yet
                task = self.find_unstarted_task(p)
                ts = ab._task_states.get(task) if task is not None else None
                cur = self.sid(ts.cancel_scope) if ts is not None else 0
            out += [self.task_state(p), task.cancelling() if task is not None else 0,
                    1 if (task is not None and task._must_cancel) else 0, cur, self.handle_status(p)] + self.handle_outcome(p)
        out.append(len(self.scopes))
        for sc in self.scopes:
            flags = (int(sc._active) + 2 * int(sc._cancel_called) + 4 * int(sc._cancelled_caught)
                     + 8 * int(sc._shield) + 16 * int(sc._cancel_handle is not None)
                     + 32 * int(sc._timeout_handle is not None))
            dl = -1 if sc._deadline == math.inf else (0 if sc._deadline == -math.inf else int(sc._deadline))
            out += [flags, sc._pending_uncancellations or 0, dl, self.tid_of_task(sc._host_task),
                    self.sid(sc._parent_scope), len(sc._tasks), len(sc._child_scopes)]
        out.append(len(self.groups))
        for tg in self.groups:
            out += [len(tg._tasks), len(getattr(tg, "_exceptions", [])), int(tg._on_completed_fut is not None),
                    sum(self.exn_sum(e) for e in getattr(tg, "_exceptions", []))]
        codes = sorted(self.classify(h) for h in self.loop.ready_handles())
        out += [len(codes)] + codes
        tms = [x for x in self.loop.live_timers() if x[0] != math.inf]
        out.append(len(tms))
        for (w, _s, h) in tms:
            out += [int(w) if w != math.inf else -1, self.classify(h)]
        return out

    def find_unstarted_task(self, p: SPuppet):
        return getattr(p, "pre_task", None)

    # --- performing ops ---
    def adopt_expected(self):
        """Real-loop mode: the create_task hook is not available; find the task the group just created."""
        ch = self._expect_child
        if ch is None or not self.real:
            return
        new = [t for t in ch._tg._tasks if t not in ch._known]
        if new:
            self._expect_child = None
            ch.tid = self.next_tid()
            ch.pre_task = new[0]
            self.register_child(ch)

    def register_child(self, child: SPuppet):
        self.puppets[child.tid] = child
        self.spawned_tids.append(child.tid)

    def next_tid(self) -> int:
        return len(self.puppets) + 1

    def command(self, c: int, b: int, d: int):
        """Return the async callable implementing puppet op c with args (b, d)."""
        w = self
        anyio = self.anyio
        inf = math.inf

        def fdl(x):
            # deadline 0 lies in the past (or is "now") at every moment of a run; it is passed as -inf every other
            # time: "already expired" is commonly written that way (current_effective_deadline() returns it inside
            # a cancelled scope) and must behave like any other past deadline.  Deterministic in the op index.
            if x == 0 and (len(w.ops) // 4) % 2 == 0:
                return -inf
            return float(x)

        async def newscope(p):
            # the public constructors are glue over the same scope: rotate through them (deterministic in the index)
            k = len(w.scopes) % 3
            now = w.loop.time()
            if k == 0:
                anyio.CancelScope(deadline=(inf if b < 0 else fdl(b)), shield=bool(d))
            elif k == 1:
                anyio.move_on_at(None if b < 0 else fdl(b), shield=bool(d))
            else:
                anyio.move_on_after(None if b < 0 else fdl(b) - now, shield=bool(d))
            w.fresh.add(len(w.scopes))
            w.public_scopes.append(len(w.scopes))
            return len(w.scopes)

        async def enter(p):
            w.fresh.discard(b)
            w.scopes[b - 1].__enter__()

        async def exit_(p):
            sc = w.scopes[b - 1]
            e = p.held
            if d and b in p.failat_cms:
                cm = p.failat_cms.pop(b)
                r = cm.__exit__(type(e), e, e.__traceback__) if e is not None else cm.__exit__(None, None, None)
            else:
                r = sc.__exit__(type(e), e, e.__traceback__) if e is not None else sc.__exit__(None, None, None)
            if r:
                p.held = None
            return bool(r)

        async def failat(p):
            if len(w.scopes) % 2 == 0:
                cm = anyio.fail_at(None if b < 0 else fdl(b), shield=bool(d))
            else:
                cm = anyio.fail_after(None if b < 0 else fdl(b) - w.loop.time(), shield=bool(d))
            cm.__enter__()
            p.failat_cms[len(w.scopes)] = cm
            w.public_scopes.append(len(w.scopes))
            return len(w.scopes)

        async def cancel(p):
            w.scopes[b - 1].cancel()

        async def setshield(p):
            w.scopes[b - 1].shield = bool(d)

        async def setdeadline(p):
            w.scopes[b - 1].deadline = inf if d < 0 else fdl(d)

        async def gnew(p):
            w.groups.append(anyio.create_task_group())
            w.public_scopes.append(len(w.scopes))      # tg.cancel_scope is public
            return len(w.groups)

        async def genter(p):
            await w.groups[b - 1].__aenter__()

        async def gexit(p):
            e = p.held
            tg = w.groups[b - 1]
            r = await (tg.__aexit__(type(e), e, e.__traceback__) if e is not None else tg.__aexit__(None, None, None))
            if r:
                p.held = None
            return bool(r)

        async def spawn(p):
            tg = w.groups[b - 1]
            child = SPuppet(w, 0, True)
            child._tg = tg
            child._known = set(tg._tasks)
            coro = child.main()
            w._expect_child = child
            try:
                tg.create_task(coro)
                w.adopt_expected()                # real-loop mode: no create_task hook
            finally:
                if w._expect_child is child:      # refused: no task was created
                    w._expect_child = None
                    coro.close()
            w.public_handles.append(child.tid)   # create_task() hands the TaskHandle to the program
            return child.tid

        async def start(p):
            tg = w.groups[b - 1]
            child = SPuppet(w, 0, True)

            child._tg = tg
            child._known = set(tg._tasks)

            def fn(*, task_status):
                child.task_status = task_status
                w._expect_child = child
                return child.main()

            return await tg.start(fn)

        async def started(p):
            if p.task_status is not None:
                p.task_status.started(b)

        async def hcancel(p):
            w.handle_of(b).cancel()

        async def hwait(p):
            await w.handle_of(b).wait()

        async def yield_(p):
            await anyio.lowlevel.checkpoint()

        async def ckif(p):
            await anyio.lowlevel.checkpoint_if_cancelled()

        async def shieldck(p):
            await anyio.lowlevel.cancel_shielded_checkpoint()

        async def sleep(p):
            if b < 0:
                await anyio.sleep_forever()
            else:
                await anyio.sleep(float(b))

        async def hold(p):
            # every third error carries an argument whose repr()/str() raise: user exceptions are arbitrary objects
            # and the library must not depend on being able to print them (deterministic in the op index)
            # ... and every third one has a false truth value
            # ... and all of them have value equality (plain ValueErrors still come from `wrap` below)
            k = len(w.ops) // 4
            if k % 3 == 0:
                p.held = _EqualError(b, _Hostile())
            elif k % 3 == 1:
                p.held = _FalsyError(b)
            else:
                p.held = _EqualError(b)

        async def drop(p):
            p.held = None

        async def wrap(p):
            members = ([p.held] if p.held is not None else []) + [ValueError(b)]
            p.held = BaseExceptionGroup("wrapped", members)

        async def uncancel(p):
            return asyncio.current_task().uncancel()

        async def effdl(p):
            return ("time", anyio.current_effective_deadline())

        table = {NEWSCOPE: newscope, ENTER: enter, EXIT: exit_, CANCEL: cancel, SETSHIELD: setshield,
                 SETDEADLINE: setdeadline, GNEW: gnew, GENTER: genter, GEXIT: gexit, SPAWN: spawn, START: start,
                 STARTED: started, HCANCEL: hcancel, HWAIT: hwait, YIELD: yield_, CKIF: ckif, SHIELDCK: shieldck,
                 SLEEP: sleep, HOLD: hold, DROP: drop, WRAP: wrap, UNCANCEL: uncancel, EFFDL: effdl, FAILAT: failat}
        return table[c]

    def puppet_handle(self, p: SPuppet):
        task = p.task or getattr(p, "pre_task", None)
        for h in self.loop.ready_handles():
            if getattr(h._callback, "__self__", None) is task and task is not None:
                return h
        return None

    def status_after(self, p: SPuppet, first_step=False):
        tk = p.task or getattr(p, "pre_task", None)
        if p.finished or (tk is not None and tk.done()):
            return ("none", None)
        if p.at_decision:
            if first_step:
                return ("none", None)
            out = p.outcome
            if out and out[0] == "ok" and isinstance(out[1], tuple) and out[1][0] == "time":
                return out[1]
            return out
        return ("blocked", None)

    def do(self, c: int, a: int = 0, b: int = 0, d: int = 0):
        """Perform one op on the implementation, append its encoding and observation."""
        loop = self.loop
        out = None
        if c < 30:
            p = self.puppets[a]
            assert p.at_decision and not p.cmdfut.done(), f"puppet {a} cannot act"
            # object references must exist (shrunk or hand-written cases may dangle)
            if c in (ENTER, EXIT, CANCEL, SETSHIELD, SETDEADLINE):
                assert 1 <= b <= len(self.scopes), f"scope {b} does not exist"
            if c in (GENTER, GEXIT, SPAWN, START):
                assert 1 <= b <= len(self.groups), f"group {b} does not exist"
            if c in (HCANCEL, HWAIT):
                assert b in self.spawned_tids, f"handle {b} does not exist"
            p.outcome = None
            if c == FINISH:
                p.cmdfut.set_result(("finish", b))
            else:
                p.cmdfut.set_result(self.command(c, b, d))
            h = self.puppet_handle(p)
            loop.run_handle(h)
            out = self.status_after(p)
            p.pending_op = c if (out is not None and out[0] == "blocked") else None
            p.in_start_join = False
        elif c == NEWROOT:
            t = self.next_tid()
            p = SPuppet(self, t, False)
            self.puppets[t] = p
            p.task = loop.create_task(p.main(), name=f"root{t}")
            loop.run_handle(self.puppet_handle(p))
            out = ("ok", t)
        elif c == NATIVECANCEL:
            p = self.puppets[a]
            task = p.task or getattr(p, "pre_task", None)
            # asyncio accepts any object as the cancel message; rotate through the kinds foreign code uses
            # (deterministic in the op index, so a replay issues the same message)
            kind = (len(self.ops) // 4) % 5
            if kind == 0:
                task.cancel()
            else:
                task.cancel({1: None, 2: "deadline exceeded", 3: 7, 4: ("reason", 1)}[kind])
            out = ("none", None)
        elif c == EXTCANCEL:
            self.scopes[a - 1].cancel()
            out = ("none", None)
        elif c in (RUNSTEP, RUNWAKE):
            p = self.puppets[a]
            first = not p.started
            h = self.find_handle((1000 if c == RUNSTEP else 2000) + a)
            assert h is not None, f"no handle for {c} {a}"
            p.outcome = None
            loop.run_handle(h)
            out = self.status_after(p, first_step=first)
            if out is not None and out[0] == "blocked":
                if p.pending_op == START:
                    p.in_start_join = True       # start() was interrupted and now waits for the child under a shield
            else:
                p.pending_op = None
                p.in_start_join = False
        elif c in (RUNDELIVER, RUNTASKDONE, RUNSLEEPDONE, RUNTIMEOUT):
            base = {RUNDELIVER: 3000, RUNTASKDONE: 4000, RUNSLEEPDONE: 5000, RUNTIMEOUT: 6000}[c]
            h = self.find_handle(base + a)
            assert h is not None, f"no handle for {c} {a}"
            loop.run_handle(h)
            out = ("none", None)
        elif c == TICK:
            loop.advance(float(a))
            out = ("none", None)
        else:
            raise ValueError(c)
        enc = self.enc_outcome(out)
        obs = self.observe()
        self.ops += [c, a, b, d]
        self.outs += enc + obs
        self.step_lens.append(len(enc) + len(obs))
        self.log.append(((c, a, b, d), enc, None))
        return enc

    # --- what can be done next (implementation-side view) ---
    def enabled_env(self):
        en = []
        for h in self.loop.ready_handles():
            code = self.classify(h)
            kind, ident = divmod(code, 1000)
            c = {1: RUNSTEP, 2: RUNWAKE, 3: RUNDELIVER, 4: RUNTASKDONE, 5: RUNSLEEPDONE, 6: RUNTIMEOUT}.get(kind)
            if c is not None and ident not in (0, 999):
                en.append((c, ident))
        return en

    def idle_puppets(self):
        return [t for t, p in self.puppets.items() if p.at_decision and not p.cmdfut.done()]
