"""C15 — BlockingPortal: correspondence of boundary/Portal.v with anyio.from_thread.BlockingPortal.

Part (a): deterministic lock-step correspondence on SchedLoop.  The REAL BlockingPortal lives in a host task of
the schedule-controlled loop; foreign-thread actions are performed by REAL helper threads which the harness runs,
one at a time, to the end of their non-blocking part (a gate on the instance's ``_check_running`` separates the
thread's running-flag read from the landing of its marshalled ``start_soon``); the harness decides when each
queued handle runs.  Observables are compared step by step with the extracted model (and a sample by vm_compute).

Part (b): end-to-end runs of ``start_blocking_portal()`` with several real caller threads on the stock asyncio
loop and on uvloop (see c15_portal_e2e below), checked by history monitors only.
"""

from __future__ import annotations

import asyncio
import json
import random
import threading
import time
from asyncio import CancelledError
from concurrent.futures import CancelledError as FutCancelledError
from concurrent.futures import TimeoutError as FutTimeoutError
from concurrent.futures import as_completed as cf_as_completed
from concurrent.futures import wait as cf_wait
from threading import get_ident

import core

DRIVERS = [("portal", "Portal")]

# ---- codec (must match boundary/Portal.v) --------------------------------------------------------------------
ISSUE, LAND, STEP, REAP, FCANCEL, CLAND, STOP, HEXIT, HRESUME, LOOPEND, FCANCEL_LOOP = range(11)
OPN = {ISSUE: "ThreadIssue", LAND: "ThreadLand", STEP: "TaskStep", REAP: "TaskReap", FCANCEL: "FutureCancel",
       CLAND: "CancelLand", STOP: "Stop", HEXIT: "HostExit", HRESUME: "ResumeHost", LOOPEND: "LoopEnd",
       FCANCEL_LOOP: "FutureCancelLoop"}
KSYNC, KCORO, KSTART = 0, 1, 2
F_BLOCK, F_RETURN, F_RAISE, F_RERAISE, F_CANCEL_OWN = 0, 1, 2, 3, 4
# payload of F_CANCEL_OWN (ignored by the model): how the callable's own cancellation comes about
OWN_RAISE, OWN_AWAIT_CANCELLED, OWN_NATIVE = 0, 1, 2   # raise CancelledError() / awaited future cancelled / Task.cancel()
E_NOSTART = 50
NOBS_GLOBAL = 9
NOBS_CALL = 9
THREAD_WAIT = 8.0     # a helper thread that does not reach its next stable point within this time is a failure


class Boom(Exception):
    def __init__(self, code):
        super().__init__(f"boom{code}")
        self.code = code


class BaseBoom(BaseException):
    def __init__(self, code):
        super().__init__(f"baseboom{code}")
        self.code = code


class FalsyLenBoom(Boom):
    """An exception whose truth value is False: a 'collection of problems' that happens to be empty (F47)."""
    def __len__(self):
        return 0


class FalsyBoolBoom(Boom):
    def __bool__(self):
        return False


E_FALSY, E_FALSY_BOOL = 4, 5       # Portal.e_falsy = 4; 5 is the __bool__ flavour (the model treats every code alike)


def make_exc(code: int) -> BaseException:
    if code >= 100:
        return BaseBoom(code)
    if code == E_FALSY:
        return FalsyLenBoom(code)
    if code == E_FALSY_BOOL:
        return FalsyBoolBoom(code)
    return Boom(code)


def exc_code(e: BaseException) -> int:
    c = getattr(e, "code", None)
    if isinstance(c, int):
        return c
    if isinstance(e, RuntimeError) and "without calling task_status.started" in str(e):
        return E_NOSTART
    return 98


def reported_done(f) -> bool:
    """Is the future reported as done by concurrent.futures.wait()?  (false for a cancelled future whose waiters
    were never notified: state CANCELLED instead of CANCELLED_AND_NOTIFIED)"""
    return f in cf_wait([f], timeout=0).done


def yielded_by_as_completed(f) -> bool:
    try:
        return any(x is f for x in cf_as_completed([f], timeout=0))
    except (TimeoutError, FutTimeoutError):
        return False


def cell_obs(f, notify_bit: bool = False) -> list[int]:
    """(code, value) of a concurrent.futures.Future, public API only; with notify_bit a cancelled future is
    3 = CANCELLED (not reported by wait()) or 4 = CANCELLED_AND_NOTIFIED."""
    if f is None or not f.done():
        return [0, 0]
    if f.cancelled():
        return [4 if (notify_bit and reported_done(f)) else 3, 0]
    e = f.exception(0)
    if e is not None:
        return [2, exc_code(e)]
    r = f.result(0)
    return [1, r if isinstance(r, int) else 97]


class HarnessError(Exception):
    pass


class CallRec:
    def __init__(self, k: int, kind: int):
        self.k = k
        self.kind = kind
        self.sig = threading.Event()       # the caller thread reached a stable point
        self.go = threading.Event()        # release from the _check_running gate
        self.at_gate = False
        self.passed_check = False
        self.caller = None                 # ('ok', ret) | ('exc', e)
        self.thread: threading.Thread | None = None
        self.fut = None                    # the per-call concurrent future (recorded when it is marshalled)
        self.status_fut = None
        self.task: asyncio.Task | None = None
        self.land_handle = None
        self.execs = 0
        self.waiter: asyncio.Future | None = None
        self.next_action = None
        self.final = None                  # ('ret', v) | ('raise', exc) | ('cancelled',)
        self.started_val = None
        self.interrupts = 0
        self.lost = False                  # handed over after the loop's last iteration (F40)
        self.cancel_lost = False           # ... the scope.cancel of a Future.cancel() likewise
        self.loop_cancelled_running = False   # its future was cancelled IN THE LOOP THREAD while the callable was blocked
        self.interrupts_at_loop_cancel = 0
        self.own_cancel = False            # the callable's own outcome was a cancellation not requested via the portal
        self.steps_after_left = 0
        self.cancel_threads: list = []     # [thread, result-box, handle-or-None]
        self.cancel_handle = None
        self.fcancel_true = False          # some Future.cancel() by a caller returned True
        self.fcancel_flipped = False       # ... and it was the one that flipped the pending future


class PortalRun:
    """Executes ops against a real BlockingPortal hosted on a SchedLoop."""

    def __init__(self, ncalls: int):
        from schedloop import SchedLoop

        self.ncalls = ncalls
        self.loop = SchedLoop()
        self.ops: list[int] = []
        self.outs: list[int] = []
        self.mon: list[str] = []
        self.flags: set[str] = set()
        self.recs: dict[int, CallRec] = {}
        self.by_thread: dict[int, CallRec] = {}
        self.host_state = "init"          # body | exiting | left
        self.host_exc = None
        self.stopped_ever = False
        self.cancel_remaining_requested = False   # some stop(cancel_remaining=True) ran while the group was entered
        self.loop_ended = False            # env op LoopEnd performed: the harness never runs a handle again
        self.known_hits: list[str] = []    # hangs explained by the known finding F40 (predicate landed_after_loop_end)
        self.group_cancel_cause = None     # why the portal's group scope may legitimately be cancelled
        self.group_cancel_reported = False
        self.own_cancel_seen = False
        self.portal = None
        self.body_fut = None
        self.harness_errors: list[str] = []
        self.admin_tasks: list = []

    def slim(self) -> "PortalRun":
        """Drop everything but the recorded history (thousands of runs are kept until the model has been run)."""
        for name in ("loop", "recs", "by_thread", "portal", "body_fut", "admin_tasks", "host_task", "tg", "_sess",
                     "host_exc"):
            self.__dict__.pop(name, None)
        return self

    def _tw(self) -> float:
        """Bound for waiting on a helper thread; once the case has failed, do not spend time on further waits."""
        return 0.3 if (self.mon or self.harness_errors) else THREAD_WAIT

    # ---- set-up / tear-down ---------------------------------------------------------------------------------
    def __enter__(self):
        from anyio.from_thread import BlockingPortal

        self._sess = self.loop.session()
        self._sess.__enter__()

        async def host_main():
            try:
                async with BlockingPortal() as portal:
                    self.portal = portal
                    self.body_fut = self.loop.create_future()
                    self.host_state = "body"
                    try:
                        await self.body_fut
                    finally:
                        self.host_state = "exiting"
            except BaseException as e:  # noqa: BLE001 - outcome of the group exit is not part of C15
                self.host_exc = e
            finally:
                self.host_state = "left"

        self.host_task = self.loop.create_task(host_main(), name="portal-host")
        self.loop.run_handle(self._handle_of(self.host_task))
        assert self.host_state == "body"
        portal = self.portal
        self.tg = portal._task_group
        orig_check = portal._check_running
        orig_spawn = portal._spawn_task_from_thread

        def gated_check():
            orig_check()                                  # raises RuntimeError when the portal is not running
            rec = self.by_thread.get(get_ident())
            if rec is not None:
                rec.passed_check = True
                rec.at_gate = True
                rec.sig.set()
                if not rec.go.wait(60):
                    raise HarnessError("gate never released")
                rec.at_gate = False

        def recording_spawn(func, args, kwargs, name, future):
            rec = self.by_thread.get(get_ident())
            if rec is not None:
                rec.fut = future
                ts = kwargs.get("task_status")
                rec.status_fut = getattr(ts, "_future", None)
            return orig_spawn(func, args, kwargs, name, future)

        # instance attributes shadow the methods: the real code calls self._check_running() / self._spawn_...
        portal._check_running = gated_check
        portal._spawn_task_from_thread = recording_spawn
        return self

    def __exit__(self, *a):
        try:
            self._teardown()
        finally:
            self._sess.__exit__(*a)

    def _teardown(self):
        # release everything that may still block a helper thread, then stop the loop's tasks
        for rec in self.recs.values():
            rec.go.set()
        deadline = time.time() + 5
        while time.time() < deadline:
            alive = [t for t in self._all_threads() if t.is_alive()]
            for rec in self.recs.values():
                if rec.waiter is not None and not rec.waiter.done():
                    rec.waiter.cancel()
            for t in asyncio.all_tasks(self.loop):
                if not t.done():
                    t.cancel()
            for _ in range(20):
                if not self.loop._ready:
                    break
                self.loop.run_cycle()
            if not alive and not self.loop._ready:
                break
            time.sleep(0.001)
        for t in self._all_threads():
            t.join(0.5)
        self.leaked_threads = [t.name for t in self._all_threads() if t.is_alive()]
        self.loop.close()

    def _all_threads(self):
        out = []
        for rec in self.recs.values():
            if rec.thread is not None:
                out.append(rec.thread)
            out += [c[0] for c in rec.cancel_threads]
        return out

    # ---- handles --------------------------------------------------------------------------------------------
    def _handle_of(self, task):
        for h in self.loop.ready_handles():
            if getattr(h._callback, "__self__", None) is task:
                return h
        return None

    def _reap_handle(self, rec: CallRec):
        for h in self.loop.ready_handles():
            if getattr(h._callback, "__name__", "") == "task_done" and h._args and h._args[0] is rec.task:
                return h
        return None

    def _host_wake_is_spurious(self) -> bool:
        """The host is inside the wait loop of TaskGroup.__aexit__ and was woken by a cancellation of its own
        task (it re-enters the loop), not by the completion future."""
        f = self.tg._on_completed_fut
        return self.host_state == "exiting" and f is not None and f.cancelled()

    def normalise(self):
        """Run the loop's internal bookkeeping that is not an op of the model: cancellation delivery retries and
        the host's spurious wake-ups inside the wait loop."""
        if self.loop_ended:
            return
        for _ in range(2):
            ran = False
            for h in list(self.loop.ready_handles()):
                if h not in self.loop._ready or h._cancelled:
                    continue
                name = getattr(h._callback, "__name__", "")
                if name == "_deliver_cancellation":
                    self.loop.run_handle(h)
                    ran = True
                elif getattr(h._callback, "__self__", None) is self.host_task and self._host_wake_is_spurious():
                    self.loop.run_handle(h)
                    ran = True
            if not ran:
                break
        self._check_unknown_handles()

    def _check_unknown_handles(self):
        known_tasks = {self.host_task} | {r.task for r in self.recs.values() if r.task is not None}
        marshalled = {r.land_handle for r in self.recs.values()} | {r.cancel_handle for r in self.recs.values()}
        for h in self.loop.ready_handles():
            cb = h._callback
            name = getattr(cb, "__name__", "")
            if getattr(cb, "__self__", None) in known_tasks or name in ("_deliver_cancellation", "task_done"):
                continue
            if h in marshalled:
                continue
            self.harness_errors.append(f"unclassified ready handle {h!r}")

    def _wait_new_handle(self, before: set, thread: threading.Thread | None):
        """Wait until a helper thread has appended a handle to the ready queue (returns it) or has finished
        (returns None)."""
        deadline = time.time() + self._tw()
        while time.time() < deadline:
            for h in list(self.loop._ready):
                if id(h) not in before:
                    return h
            if thread is not None and not thread.is_alive():
                # the thread may have appended just before exiting
                for h in list(self.loop._ready):
                    if id(h) not in before:
                        return h
                return None
            time.sleep(0.0002)
        raise HarnessError("helper thread neither marshalled a call nor finished")

    # ---- the scripted callables -----------------------------------------------------------------------------
    def _take_action(self, rec: CallRec):
        act = rec.next_action
        if act is None:
            raise HarnessError(f"callable of call {rec.k} ran without a scripted action")
        rec.next_action = None
        if self.host_state == "left":
            rec.steps_after_left += 1
        return act

    def _make_callable(self, rec: CallRec):
        run = self

        if rec.kind == KSYNC:
            def sync_fn():
                rec.execs += 1
                sv, fin, val = run._take_action(rec)
                if fin == F_RETURN:
                    rec.final = ("ret", val)
                    return val
                if fin == F_CANCEL_OWN:
                    rec.final = ("cancelled",)
                    rec.own_cancel = True
                    raise CancelledError()
                exc = make_exc(val)
                rec.final = ("raise", exc)
                raise exc
            return sync_fn

        async def coro_fn(*, task_status=None):
            rec.execs += 1
            err = None
            while True:
                sv, fin, val = run._take_action(rec)
                if sv:
                    task_status.started(sv)
                    rec.started_val = sv
                if fin == F_BLOCK:
                    rec.waiter = run.loop.create_future()
                    try:
                        await rec.waiter
                        err = None
                    except CancelledError as e:
                        err = e
                        rec.interrupts += 1
                    rec.waiter = None
                elif fin == F_RETURN:
                    rec.final = ("ret", val)
                    return val
                elif fin == F_RAISE:
                    exc = make_exc(val)
                    rec.final = ("raise", exc)
                    raise exc
                elif fin == F_CANCEL_OWN:
                    # own outcome = a cancellation nobody requested through the portal: either the native
                    # CancelledError just received from the awaited (cancelled) future / Task.cancel(), or a fresh one
                    rec.final = ("cancelled",)
                    rec.own_cancel = True
                    raise err if err is not None else CancelledError()
                else:
                    rec.final = ("cancelled",)
                    raise err
        return coro_fn

    # ---- implementation-side state ---------------------------------------------------------------------------
    def phase(self, rec: CallRec | None) -> int:
        if rec is None:
            return 0
        if rec.lost:
            return 8
        if rec.task is None:
            if rec.caller is not None and rec.caller[0] == "exc":
                return 3 if rec.passed_check else 1
            return 2
        if not rec.task.done():
            return 5 if rec.execs else 4
        return 6 if rec.task in self.tg._tasks else 7

    def blocked(self, rec: CallRec) -> bool:
        return rec.task is not None and not rec.task.done() and rec.execs > 0

    def interruptible(self, rec: CallRec) -> bool:
        return self.blocked(rec) and self._handle_of(rec.task) is not None

    def caller_code(self, rec: CallRec | None) -> int:
        if rec is None:
            return 0
        if rec.lost:
            return 8 if rec.caller is None else 98
        if rec.caller is None:
            if rec.task is None:
                return 2
            return 5 if rec.kind == KSTART else 98     # start_task_soon must have returned once landed
        tag, val = rec.caller
        if tag == "ok":
            return 4
        if rec.task is None:
            return 3 if rec.passed_check else 1
        if isinstance(val, FutCancelledError):
            return 7
        return 6

    def host_code(self) -> int:
        if self.host_state == "body":
            return 0
        if self.host_state == "left":
            return 3
        return 1 if self.tg._on_completed_fut is not None else 2

    def observe(self, res: int) -> list[int]:
        f = self.tg._on_completed_fut
        woken = 1 if (f is not None and f.done() and not f.cancelled()) else 0
        out = [res, 1 if self.portal._event_loop_thread_id is not None else 0,
               1 if self.portal._stop_event.is_set() else 0, self.host_code(), woken, len(self.tg._tasks),
               1 if self.tg.cancel_scope.cancel_called else 0, 1 if self.loop_ended else 0,
               1 if any(r.lost or r.cancel_lost for r in self.recs.values()) else 0]
        for k in range(self.ncalls):
            rec = self.recs.get(k)
            if rec is None:
                out += [0, 0, 0, 0, 0, 0, 0, 0, 0]
                continue
            landed = rec.task is not None
            out += [self.phase(rec)] + (cell_obs(rec.fut, notify_bit=True) if landed else [0, 0]) \
                + (cell_obs(rec.status_fut) if landed else [0, 0]) \
                + [rec.execs, 1 if self.interruptible(rec) else 0, 1 if rec.cancel_handle is not None else 0,
                   self.caller_code(rec)]
        return out

    # ---- which ops the implementation can perform now -------------------------------------------------------
    def enabled(self) -> list[tuple]:
        en = []
        nxt = len(self.recs)
        if nxt < self.ncalls:
            en += [(ISSUE, nxt, kd) for kd in (KSYNC, KCORO, KSTART)]
        if self.loop_ended:
            # the loop is not running any more: only thread-side actions remain (a hand-over is now lost: F40)
            for k, rec in self.recs.items():
                if rec.at_gate and rec.task is None and rec.land_handle is None and not rec.lost:
                    en.append((LAND, k))
                if rec.cancel_handle is not None and not rec.cancel_lost:
                    en.append((CLAND, k))
            return en
        for k, rec in self.recs.items():
            if rec.at_gate and rec.task is None and rec.land_handle is None:
                en.append((LAND, k))
            if rec.task is not None and not rec.task.done():
                h = self._handle_of(rec.task)
                if rec.execs == 0 and h is not None:
                    en.append((STEP, k, 0))
                elif rec.execs and h is None and rec.waiter is not None:
                    en.append((STEP, k, 0))
                elif rec.execs and h is not None:
                    en.append((STEP, k, 1))
            if rec.task is not None and self._reap_handle(rec) is not None:
                en.append((REAP, k))
            if rec.caller is not None and rec.caller[0] == "ok" and rec.task is not None \
                    and not any(c[0].is_alive() for c in rec.cancel_threads):
                en.append((FCANCEL, k))
                en.append((FCANCEL_LOOP, k))
            if rec.cancel_handle is not None:
                en.append((CLAND, k))
        en.append((STOP, 0))
        if self.host_state != "left":
            en.append((STOP, 1))
        if self.host_state == "body":
            if self._handle_of(self.host_task) is not None:
                en.append((HEXIT, 1))        # the body was interrupted by the group's cancellation
            else:
                en += [(HEXIT, 0), (HEXIT, 1)]
        if self.host_state == "exiting" and self._handle_of(self.host_task) is not None:
            en.append((HRESUME,))
        if self.host_state == "left" and all(r.task is None or (r.task.done() and r.task not in self.tg._tasks)
                                             for r in self.recs.values()):
            en.append((LOOPEND,))
        return en

    # ---- performing one op ------------------------------------------------------------------------------------
    def do(self, code: int, k: int = 0, a: int = 0, b: int = 0, c: int = 0, d: int = 0):
        before_int = {j for j, r in self.recs.items() if self.interruptible(r)}
        self._stopped_before_this_op = self.stopped_ever
        if self.group_cancel_cause is None:
            if code == STOP and a:
                self.group_cancel_cause = "stop(cancel_remaining=True)"
            elif code == HEXIT and a:
                self.group_cancel_cause = "the body of the portal's context raised"
            elif code == STEP and c == F_RAISE and d >= 100:
                self.group_cancel_cause = "a callable raised a BaseException"
        try:
            res = self._perform(code, k, a, b, c, d)
        except HarnessError as e:
            self.mon.append(f"helper thread stuck while performing {OPN.get(code, code)} {k}: {e}")
            res = 98
        self.normalise()
        self._settle_threads()
        self.ops += [code, k, a, b, c, d]
        self.outs += self.observe(res)
        self._monitor_step(code, k, a, b, c, d, res, before_int)

    def _perform(self, code, k, a, b, c, d) -> int:
        loop = self.loop
        if code == ISSUE:
            if k in self.recs or k >= self.ncalls:
                return 99
            rec = self.recs[k] = CallRec(k, a)
            fn = self._make_callable(rec)
            portal = self.portal

            def caller():
                self.by_thread[get_ident()] = rec
                try:
                    if rec.kind == KSTART:
                        rec.caller = ("ok", portal.start_task(fn))
                    else:
                        rec.caller = ("ok", portal.start_task_soon(fn))
                except BaseException as e:  # noqa: BLE001
                    rec.caller = ("exc", e)
                finally:
                    rec.sig.set()

            rec.thread = threading.Thread(target=caller, name=f"c15-caller-{k}", daemon=True)
            rec.thread.start()
            if not rec.sig.wait(self._tw()):
                raise HarnessError("caller thread did not reach the gate")
            rec.sig.clear()
            if rec.at_gate:
                return 0
            rec.thread.join(self._tw())
            if isinstance(rec.caller[1], RuntimeError):
                return 1
            self.harness_errors.append(f"issue of {k} ended with {rec.caller!r}")
            return 98
        if code == LOOPEND:
            if self.host_state != "left" or self.loop_ended:
                return 99
            self.loop_ended = True             # from now on the harness never runs a handle of this loop
            return 7
        if self.loop_ended and code in (STEP, REAP, STOP, HEXIT, HRESUME):
            return 99
        if self.loop_ended and code == FCANCEL_LOOP:
            return 99
        rec = self.recs.get(k) if code in (LAND, STEP, REAP, FCANCEL, CLAND, FCANCEL_LOOP) else None
        if code in (LAND, STEP, REAP, FCANCEL, CLAND, FCANCEL_LOOP) and rec is None:
            return 99
        if code == FCANCEL_LOOP:
            # Future.cancel() executed in the event-loop thread: a callback of the loop (as a done-callback of another
            # future, another call's callable or the host task would) cancels the future of call k
            if rec.caller is None or rec.caller[0] != "ok" or rec.fut is None:
                return 99
            fut = rec.fut
            was_pending = not fut.done()
            box = {}
            h = loop.call_soon(lambda: box.__setitem__("ret", fut.cancel()))
            loop.run_handle(h)
            if box.get("ret"):
                rec.fcancel_true = True
                if was_pending:
                    rec.fcancel_flipped = True
                    if self.blocked(rec) and rec.kind != KSYNC:
                        rec.loop_cancelled_running = True
                        rec.loop_cancel_just_now = True
                        rec.interrupts_at_loop_cancel = rec.interrupts
                return 5
            return 6
        if code == LAND:
            if not rec.at_gate or rec.task is not None or rec.land_handle is not None or rec.lost:
                return 99
            before = {id(h) for h in loop._ready}
            tasks_before = set(asyncio.all_tasks(loop))
            rec.go.set()
            h = self._wait_new_handle(before, rec.thread)
            if h is None:
                self.harness_errors.append(f"caller {k} finished without marshalling: {rec.caller!r}")
                return 98
            rec.land_handle = h
            if self.loop_ended:
                # F40: the thread passed _check_running before stop(); its call_soon_threadsafe comes after the loop's
                # last iteration: the handle stays in the ready queue for ever
                rec.lost = True
                return 10
            loop.run_handle(h)                 # = the marshalled start_soon runs in the loop
            rec.land_handle = None
            new = [t for t in asyncio.all_tasks(loop) if t not in tasks_before]
            if new:
                rec.task = new[0]
                if rec.kind != KSTART:
                    rec.thread.join(self._tw())
                return 2
            rec.thread.join(self._tw())
            if rec.caller is not None and isinstance(rec.caller[1], RuntimeError):
                return 3
            self.harness_errors.append(f"land of {k}: no task and caller={rec.caller!r}")
            return 98
        if code == STEP:
            if rec.task is None or rec.task.done():
                return 99
            h = self._handle_of(rec.task)
            if rec.execs == 0:
                if a or h is None:
                    return 99
            elif a:
                if h is None:
                    return 99
            else:
                if h is not None or rec.waiter is None:
                    return 99
                if c == F_CANCEL_OWN and d == OWN_AWAIT_CANCELLED:
                    rec.waiter.cancel()             # "somebody" cancels the asyncio future the callable awaits
                elif c == F_CANCEL_OWN and d == OWN_NATIVE:
                    rec.task.cancel()               # a third party cancels the call's task natively
                else:
                    rec.waiter.set_result(None)
                h = self._handle_of(rec.task)
            rec.next_action = (b, c, d)
            loop.run_handle(h)
            if rec.next_action is not None:
                rec.next_action = None
                if rec.task.done() or rec.execs == 0:
                    # the wrapper ended, or suspended, without entering the callable: the step is repeated by the
                    # harness (the task's next handle) and the monitors say what the outcome means for the property
                    self.flags.add("wrapper_suspended_or_ended_before_callable")
                    return 4
                self.harness_errors.append(f"step of {k} did not reach the callable")
                return 98
            return 4
        if code == REAP:
            h = self._reap_handle(rec) if rec.task is not None else None
            if h is None:
                return 99
            loop.run_handle(h)
            return 7
        if code == FCANCEL:
            if rec.caller is None or rec.caller[0] != "ok" or rec.fut is None:
                return 99
            fut = rec.fut
            was_pending = not fut.done()
            box = {}
            before = {id(h) for h in loop._ready}

            def canceller():
                try:
                    box["ret"] = fut.cancel()
                except BaseException as e:  # noqa: BLE001
                    box["exc"] = e

            t = threading.Thread(target=canceller, name=f"c15-cancel-{k}", daemon=True)
            t.start()
            h = self._wait_new_handle(before, t)
            rec.cancel_threads.append([t, box, h])
            if h is not None:
                rec.cancel_handle = h
                if was_pending:
                    rec.fcancel_flipped = True
                rec.fcancel_true = True
                return 5                       # the flip happened: cancel() will return True once it lands
            t.join(self._tw())
            if "exc" in box:
                self.harness_errors.append(f"Future.cancel of {k} raised {box['exc']!r}")
                return 98
            if box.get("ret"):
                rec.fcancel_true = True
                if was_pending:
                    rec.fcancel_flipped = True
                return 5
            return 6
        if code == CLAND:
            if rec.cancel_handle is None:
                return 99
            if self.loop_ended:
                rec.cancel_lost = True         # F40, second entry point: Future.cancel() never returns
                return 10
            h = rec.cancel_handle
            loop.run_handle(h)
            rec.cancel_handle = None
            for t, box, hh in rec.cancel_threads:
                if hh is h:
                    t.join(self._tw())
                    if box.get("ret") is not True:
                        self.mon.append(f"Future.cancel() of call {k} that flipped the future returned {box!r}")
            return 7
        if code == STOP:
            t = loop.create_task(self.portal.stop(bool(a)), name="c15-admin")
            self.admin_tasks.append(t)
            loop.run_handle(self._handle_of(t))
            self.stopped_ever = True
            return 7
        if code == HEXIT:
            if self.host_state != "body":
                return 99
            h = self._handle_of(self.host_task)
            if h is None:
                if a:
                    self.body_fut.set_exception(Boom(9))
                else:
                    self.body_fut.set_result(None)
                h = self._handle_of(self.host_task)
            elif not a:
                return 99                      # the body has been cancelled: it cannot end normally any more
            loop.run_handle(h)
            self.stopped_ever = True
            return 9 if self.host_state == "left" else 8
        if code == HRESUME:
            h = self._handle_of(self.host_task) if self.host_state == "exiting" else None
            if h is None:
                return 99
            loop.run_handle(h)
            return 9 if self.host_state == "left" else 8
        return 99

    def _settle_threads(self):
        """A start_task caller returns as soon as its status future is resolved: wait for that (bounded)."""
        for rec in self.recs.values():
            if rec.kind == KSTART and rec.caller is None and rec.status_fut is not None and rec.status_fut.done() \
                    and rec.thread.is_alive() and rec.task is not None:
                rec.thread.join(self._tw())
                if rec.thread.is_alive():
                    self.mon.append(f"start_task caller {rec.k} still blocked although its status future is resolved")

    # ---- property monitors on the implementation's history (independent of the model) -----------------------
    def _monitor_step(self, code, k, a, b, c, d, res, before_int):
        rec = self.recs.get(k) if code in (ISSUE, LAND, STEP, REAP, FCANCEL, CLAND, FCANCEL_LOOP) else None
        # -- every call the portal accepted is run exactly once and its caller is answered: once the call's task has
        #    ended, the callable has been invoked and the future (for start_task also the status future) is resolved
        for r in self.recs.values():
            if r.task is not None and r.task.done() and not getattr(r, "_unanswered_flagged", False):
                problems = []
                if r.execs == 0:
                    problems.append("its callable ran 0 times")
                if r.fut is not None and not r.fut.done():
                    problems.append("its caller was never answered (the returned future is still pending)")
                if r.kind == KSTART and r.status_fut is not None and not r.status_fut.done():
                    problems.append("start_task() never returns (the task_status future is still pending)")
                if problems:
                    r._unanswered_flagged = True
                    self.mon.append(f"call {r.k} was accepted by the portal (its task was created and has ended) but "
                                    + " and ".join(problems))
        # -- F39: a cancelled future whose task has ended must be reported to waiters (wait / as_completed), whoever
        #    cancelled it
        for r in self.recs.values():
            if r.task is not None and r.task.done() and r.fut is not None and r.fut.cancelled() \
                    and not getattr(r, "_unreported_flagged", False):
                by = "its caller" if r.fcancel_true else "the portal"
                if not reported_done(r.fut):
                    r._unreported_flagged = True
                    self.mon.append(f"the future of call {r.k} was cancelled by {by} and its task has ended, but "
                                    f"concurrent.futures.wait() does not report it as done (waiters never notified)")
                elif not yielded_by_as_completed(r.fut):
                    r._unreported_flagged = True
                    self.mon.append(f"the cancelled future of call {r.k} is not yielded by concurrent.futures.as_completed()")
                else:
                    self.flags.add("cancelled_by_caller_reported" if r.fcancel_true else "cancelled_by_portal_reported")
        if code == LOOPEND and res == 7:
            self.flags.add("loop_end")
        if code in (LAND, CLAND) and res == 10:
            self.flags.add("landed_after_loop_end")
        # -- nobody is cancelled without a cause: a task may receive a cancellation only because its own future was
        #    cancelled by its caller or because the whole portal was told to cancel (stop(cancel_remaining=True), an
        #    exception leaving the context's body, a BaseException out of a callable)
        what = f"{OPN.get(code, code)} {k}" + (" (the call's own outcome is a cancellation)" if code == STEP and c == F_CANCEL_OWN else "")
        if self.tg.cancel_scope.cancel_called and self.group_cancel_cause is None and not self.group_cancel_reported:
            self.group_cancel_reported = True
            self.mon.append(f"after {what} the portal's task group scope is cancelled although no stop(cancel_remaining=True) "
                            f"ran, the context's body did not raise and no callable raised a BaseException")
        for j in sorted({j for j, r in self.recs.items() if self.interruptible(r)} - before_int):
            r = self.recs[j]
            if not (r.fcancel_true or self.group_cancel_cause):
                self.mon.append(f"after {what} a cancellation is delivered to call {j} although neither its own future was "
                                f"cancelled nor cancel_remaining requested")
        if self.host_state == "body" and self._handle_of(self.host_task) is not None and self.group_cancel_cause is None \
                and not getattr(self, "_host_cancel_reported", False):
            self._host_cancel_reported = True
            self.mon.append(f"after {what} the host task was cancelled out of the body of the portal's context "
                            f"(sleep_until_stopped) although nobody stopped the portal")
        if code == STEP and res == 4 and c == F_CANCEL_OWN:
            self.own_cancel_seen = True
            self.flags.add(("own_cancel_raise", "own_cancel_awaited_future", "own_cancel_native_task_cancel")[d if (rec and rec.kind != KSYNC and d in (1, 2)) else 0])
            if any(r.k != k and r.task is not None and not r.task.done() for r in self.recs.values()):
                self.flags.add("own_cancel_with_others_in_flight")
        if code == ISSUE and res == 0 and self.own_cancel_seen:
            self.flags.add("call_accepted_after_own_cancel")
        if code == STEP and res == 4 and rec is not None and rec.final is not None and rec.final[0] == "cancelled" \
                and not rec.own_cancel and not (rec.fcancel_true or self.group_cancel_cause):
            self.mon.append(f"callable of call {k} ended with a CancelledError it received although neither its own future was "
                            f"cancelled nor cancel_remaining requested")
        for r in self.recs.values():
            if r.execs > 1:
                self.mon.append(f"callable of call {r.k} was invoked {r.execs} times")
        if code == ISSUE and res in (0, 1):
            # `stopped_ever` is updated by the op itself, so an Issue sees the stops that precede it
            if self.stopped_ever and res == 0:
                self.mon.append(f"call {k} issued after the portal was stopped was not refused")
            if not self.stopped_ever and res == 1:
                self.mon.append(f"call {k} refused although the portal was never stopped")
            if res == 1:
                self.flags.add("issue_refused_after_stop")
        if code == LAND and res == 3:
            self.flags.add("land_refused_group_inactive")
            if self.host_state != "left":
                self.mon.append(f"landing of call {k} refused although the portal's group is still active")
        if code == LAND and res == 2 and self.host_state == "left":
            self.mon.append(f"call {k} accepted into the group after the portal's context was left")
        if code == LAND and res == 2 and self.stopped_ever:
            self.flags.add("land_after_stop_accepted")
        if code == FCANCEL_LOOP and res == 5 and rec is not None:
            self.flags.add("future_cancel_in_loop_thread")
            if getattr(rec, "loop_cancel_just_now", False):
                rec.loop_cancel_just_now = False
                self.flags.add("future_cancel_in_loop_thread_while_running")
                if not self.interruptible(rec):
                    self.mon.append(f"the future of running call {k} was cancelled in the event-loop thread (cancel() returned "
                                    f"True, the future reports cancelled()) but no cancellation reaches its task")
        if code == STEP and res == 4 and rec is not None and rec.loop_cancelled_running and rec.final is not None \
                and rec.final[0] in ("ret", "raise") and rec.interrupts == rec.interrupts_at_loop_cancel:
            self.mon.append(f"the future of call {k} reports cancelled() (cancelled in the event-loop thread while its task was "
                            f"running) but its task was never cancelled and ran to completion ({rec.final[0]})")
        if code in (FCANCEL, CLAND, FCANCEL_LOOP) and rec is not None:
            now_int = {j for j, r in self.recs.items() if self.interruptible(r)}
            others = (now_int - before_int) - {k}
            if others:
                self.mon.append(f"cancelling the future of call {k} delivered a cancellation to calls {sorted(others)}")
            if code == FCANCEL and res == 5 and rec.fcancel_flipped and self.blocked(rec) and rec.kind != KSYNC \
                    and rec.cancel_handle is None and not self.interruptible(rec):
                self.mon.append(f"future of running call {k} cancelled by its caller but no cancellation of its "
                                f"task was requested")
            if code == CLAND and self.blocked(rec) and not self.interruptible(rec):
                self.mon.append(f"cancellation of the future of call {k} landed but its task was not cancelled")
            if code == CLAND and self.blocked(rec):
                self.flags.add("future_cancel_interrupts_task")
            if code == FCANCEL and res == 5 and rec.execs == 0:
                self.flags.add("future_cancel_before_first_step")
        if code == FCANCEL and res == 5 and self.stopped_ever and rec is not None and self.blocked(rec):
            self.flags.add("future_cancel_after_stop")
        if code == STEP and res == 4 and rec is not None:
            if a:
                self.flags.add("interrupt")
                if c != F_RERAISE:
                    self.flags.add("interrupt_swallowed")
            if b:
                self.flags.add("started")
            if rec.final is not None and rec.fut is not None:
                self._monitor_answer(rec)
            if c == F_BLOCK and rec.fut is not None and rec.fut.cancelled() and rec.fcancel_true \
                    and rec.cancel_handle is None and self.blocked(rec) and not self.interruptible(rec):
                self.mon.append(f"call {k} blocks although its caller cancelled its future and no cancellation is "
                                f"on its way to the task")
        if code == STOP and a and res == 7:
            self.flags.add("stop_cancel_remaining")
            if self.host_state != "left":
                self.cancel_remaining_requested = True
                running_calls = [r.k for r in self.recs.values() if self.blocked(r)]
                if self.portal._event_loop_thread_id is None and self.portal._stop_event.is_set() \
                        and getattr(self, "_stopped_before_this_op", False):
                    self.flags.add("two_phase_stop")
                    if running_calls:
                        self.flags.add("two_phase_stop_with_running_calls")
                if not self.tg.cancel_scope.cancel_called:
                    self.mon.append("stop(cancel_remaining=True) was executed but the portal's task group scope is not "
                                    f"cancelled (calls still running: {running_calls})")
                for r in self.recs.values():
                    if self.blocked(r) and not self.interruptible(r):
                        self.mon.append(f"after stop(cancel_remaining=True) no cancellation is on its way to running call "
                                        f"{r.k}: the exit would wait for it to finish by itself")
        if code == STEP and res == 4 and c == F_BLOCK and self.cancel_remaining_requested and rec is not None \
                and self.host_state != "left" and self.blocked(rec) and not self.interruptible(rec):
            self.mon.append(f"call {k} blocks after stop(cancel_remaining=True) was executed and no cancellation is on its "
                            f"way to it")
        if code == HRESUME and res == 8:
            self.flags.add("host_rewaits")
        if code == LAND and res == 2 and self.host_code() == 2:
            self.flags.add("land_during_exit_checkpoint")
        if code == LAND and res == 2 and self.host_code() == 1:
            self.flags.add("land_during_exit_wait")
        if code in (HEXIT, HRESUME) and self.host_state == "left":
            self.flags.add("left")
            for r in self.recs.values():
                if r.task is not None and (not r.task.done() or r.task in self.tg._tasks):
                    self.mon.append(f"the portal's context was left while call {r.k} (landed) has not finished")
        for r in self.recs.values():
            if r.steps_after_left:
                self.mon.append(f"callable of call {r.k} ran a step after the portal's context was left")
                r.steps_after_left = 0

    def _monitor_answer(self, rec: CallRec):
        """_call_func has just returned for this call: the future must carry exactly the callable's outcome."""
        fut = rec.fut
        kind = rec.final[0]
        if not fut.done():
            self.mon.append(f"call {rec.k} finished ({kind}) but its future is still pending")
            return
        if fut.cancelled():
            if not (rec.fcancel_true or kind == "cancelled"):
                self.mon.append(f"future of call {rec.k} is cancelled although nobody cancelled it and the callable "
                                f"ended with {kind}")
            self.flags.add("result_dropped_cancelled" if kind != "cancelled" else "answer_cancelled")
        elif kind == "ret":
            if fut.exception(0) is not None or fut.result(0) != rec.final[1]:
                self.mon.append(f"call {rec.k} returned {rec.final[1]} but its future holds {cell_obs(fut)}")
            self.flags.add("answer_value")
        elif kind == "raise":
            if fut.exception(0) is not rec.final[1]:
                self.mon.append(f"call {rec.k} raised {rec.final[1]!r} but its future holds {cell_obs(fut)}")
            self.flags.add("answer_exception")
            if not rec.final[1]:
                self.flags.add("answer_falsy_exception")
                if rec.kind == KSTART and rec.started_val is None:
                    self.flags.add("start_task_falsy_exception_before_started")
        else:
            self.mon.append(f"call {rec.k} ended with a cancellation but its future holds {cell_obs(fut)}")
        if rec.kind == KSTART and rec.status_fut is not None:
            sf = rec.status_fut
            if not sf.done():
                self.mon.append(f"start_task call {rec.k} finished but its status future is still pending")
            elif rec.started_val is not None:
                if sf.cancelled() or sf.exception(0) is not None or sf.result(0) != rec.started_val:
                    self.mon.append(f"start_task call {rec.k} called started({rec.started_val}) but the status is {cell_obs(sf)}")
            elif not sf.cancelled() and sf.exception(0) is None:
                self.mon.append(f"start_task call {rec.k} never called started() but the status holds a value")

    # ---- finishing a case -------------------------------------------------------------------------------------
    def drain(self):
        """Deterministically run the case to its end (every op is recorded and compared like any other)."""
        val = 900
        for _ in range(400):
            en = self.enabled()
            pick = None
            for kindsel in (CLAND, LAND, REAP, STEP, HEXIT, HRESUME):
                for e in en:
                    if e[0] == kindsel:
                        pick = e
                        break
                if pick:
                    break
            if pick is None:
                break
            if pick[0] == STEP:
                k, w = pick[1], pick[2]
                val += 1
                if w:
                    self.do(STEP, k, 1, 0, F_RERAISE, 0)
                else:
                    self.do(STEP, k, 0, 0, F_RETURN, val)
            elif pick[0] == HEXIT:
                self.do(HEXIT, 0, 1 if (HEXIT, 0) not in en else 0)
            elif pick[0] == HRESUME:
                self.do(HRESUME)
            else:
                self.do(pick[0], pick[1])
        self.final_checks()

    def final_checks(self):
        if self.host_state != "left":
            self.mon.append(f"the portal's context could not be left: host {self.host_state}, "
                            f"{len(self.tg._tasks)} tasks in the group, nothing runnable (deadlock)")
        for rec in self.recs.values():
            for t, box, h in rec.cancel_threads:
                lost = rec.cancel_lost and h is not None and h is rec.cancel_handle
                t.join(0.15 if lost else self._tw())
                if t.is_alive():
                    if lost:
                        self.known_hits.append(f"Future.cancel() on the future of call {rec.k} never returns: its scope.cancel was "
                                               f"handed to the loop after the loop's last iteration (bounded join expired)")
                    else:
                        self.mon.append(f"thread cancelling the future of call {rec.k} is left hanging")
                elif lost:
                    self.flags.add("f40_history_did_not_hang")
            if rec.thread is not None:
                if rec.lost:
                    rec.thread.join(0.15)      # bounded: the thread is expected to sit in run_sync's f.result()
                    if rec.thread.is_alive():
                        self.known_hits.append(f"caller thread of call {rec.k} is left hanging: it passed _check_running before the "
                                               f"portal was stopped and handed its call to the loop after the loop's last iteration "
                                               f"- the call is neither run nor refused (bounded join expired)")
                    else:
                        self.flags.add("f40_history_did_not_hang")
                        if not (rec.caller and rec.caller[0] == "exc" and isinstance(rec.caller[1], RuntimeError)):
                            self.mon.append(f"call {rec.k} handed over after the loop's last iteration ended with {rec.caller!r}")
                    continue
                rec.thread.join(self._tw() if rec.caller is None else 0.5)
                if rec.thread.is_alive():
                    self.mon.append(f"caller thread of call {rec.k} is left hanging (phase {self.phase(rec)})")
                    continue
            if rec.task is not None and rec.execs == 0 and not getattr(rec, "_unanswered_flagged", False):
                self.mon.append(f"call {rec.k} was accepted by the portal (its task was created) but its callable ran 0 times"
                                + ("" if rec.fut is None or rec.fut.done() else " and its caller was never answered"))
            if rec.task is not None:
                if rec.execs != 1 and self.host_state == "left":
                    self.mon.append(f"landed call {rec.k} ran its callable {rec.execs} times by the time the context was left")
                if rec.caller is not None and rec.caller[0] == "ok":
                    ret = rec.caller[1]
                    if rec.kind == KSTART:
                        if not (isinstance(ret, tuple) and ret[0] is rec.fut and ret[1] == rec.started_val):
                            self.mon.append(f"start_task of call {rec.k} returned {ret!r}, started value was {rec.started_val}")
                    elif ret is not rec.fut:
                        self.mon.append(f"start_task_soon of call {rec.k} returned a different future")
                elif rec.caller is not None and rec.kind == KSTART:
                    e = rec.caller[1]
                    if rec.started_val is not None:
                        self.mon.append(f"start_task of call {rec.k} raised {e!r} although started({rec.started_val}) was called")
                    elif rec.final and rec.final[0] == "raise" and e is not rec.final[1] and not rec.fcancel_true:
                        self.mon.append(f"start_task of call {rec.k} raised {e!r} instead of the task's exception "
                                        f"{rec.final[1]!r}" + (" (an exception whose truth value is False)"
                                                               if not rec.final[1] else ""))
            elif rec.caller is not None and rec.caller[0] == "exc" and not isinstance(rec.caller[1], RuntimeError):
                self.mon.append(f"refused call {rec.k} got {rec.caller[1]!r} instead of RuntimeError")
        # the exit of the portal's context may only surface what the callables (BaseException) or the body raised
        def leaves(e):
            if isinstance(e, BaseExceptionGroup):
                for x in e.exceptions:
                    yield from leaves(x)
            else:
                yield e
        if self.host_exc is not None:
            for e in leaves(self.host_exc):
                if not isinstance(e, (BaseBoom, Boom)):
                    self.mon.append(f"leaving the portal's context raised an error that no callable raised: {e!r}")
        for ctx in self.loop.errors:
            exc = ctx.get("exception")
            if isinstance(exc, BaseBoom):
                continue
            self.mon.append(f"event loop error handler called: {ctx.get('message')} {exc!r}")
        for e in self.harness_errors:
            self.mon.append("harness: " + e)


# ---- cases -----------------------------------------------------------------------------------------------------
def run_script(ncalls: int, flat_ops: list[int], drain: bool = True) -> PortalRun:
    r = PortalRun(ncalls)
    with r:
        for i in range(0, len(flat_ops) - 5, 6):
            r.do(*flat_ops[i:i + 6])
        r.scripted_len = len(r.ops)
        if drain:
            r.drain()
    if getattr(r, "leaked_threads", None):
        r.mon.append(f"caller threads never got an answer and are left hanging at the end of the history: {r.leaked_threads}")
    return r.slim()


def random_case(rng: random.Random, nsteps: int, prefix: list[int] | None = None, ncalls: int | None = None) -> PortalRun:
    """Random walk over the ops the implementation enables; `prefix` (flat ops) is executed first (used to search
    for a monitor-failing input around a model/implementation divergence)."""
    ncalls = ncalls or rng.choice([1, 2, 2, 3, 3, 4])
    w = {ISSUE: 4, LAND: 4, STEP: 5, REAP: 3, FCANCEL: rng.choice([0.5, 1.5, 3]), CLAND: 3,
         STOP: rng.choice([0.1, 0.4, 1.0]), HEXIT: rng.choice([0.2, 0.6, 1.5]), HRESUME: rng.choice([1, 3]),
         LOOPEND: rng.choice([0.2, 1.0, 3.0]), FCANCEL_LOOP: rng.choice([0.3, 1.0, 2.0])}
    w_own = rng.choice([0, 0.7, 2.0])      # how often a callable's own outcome is a foreign cancellation
    r = PortalRun(ncalls)
    val = 10
    with r:
        for i in range(0, len(prefix or []) - 5, 6):
            r.do(*prefix[i:i + 6])
        for _ in range(nsteps):
            en = r.enabled()
            if not en:
                break                              # the loop has ended and every thread has acted
            ws = []
            for x in en:
                wx = w[x[0]]
                if x[0] == STOP and x[1] == 1 and r.stopped_ever and not r.tg.cancel_scope.cancel_called \
                        and any(r.blocked(q) for q in r.recs.values()):
                    wx = max(wx * 6, 2.0)          # second phase of a two-phase shutdown with calls still running
                ws.append(wx)
            e = rng.choices(en, ws)[0]
            code = e[0]
            if code == ISSUE:
                r.do(ISSUE, e[1], e[2])
            elif code == STEP:
                k, wk = e[1], e[2]
                rec = r.recs[k]
                val += 1
                can_start = rec.kind == KSTART and rec.status_fut is not None and not rec.status_fut.done()
                sv = val + 100 if (can_start and rng.random() < 0.6) else 0
                own_w = w_own
                if rec.kind == KSYNC:
                    fin = rng.choices([F_RETURN, F_RAISE, F_CANCEL_OWN], [2, 1, own_w])[0]
                elif wk:
                    fin = rng.choice([F_RERAISE, F_RERAISE, F_RERAISE, F_RETURN, F_RAISE, F_BLOCK])
                else:
                    fin = rng.choices([F_BLOCK, F_RETURN, F_RAISE, F_CANCEL_OWN], [3, 1, 1, own_w])[0]
                d = 0
                if fin == F_RETURN:
                    d = val
                elif fin == F_RAISE:
                    d = rng.choice([1, 2, 3, E_FALSY, E_FALSY_BOOL, 100])
                elif fin == F_CANCEL_OWN and rec.kind != KSYNC and rec.execs:
                    d = rng.choice([OWN_RAISE, OWN_AWAIT_CANCELLED, OWN_NATIVE])
                r.do(STEP, k, wk, sv, fin, d)
            elif code in (STOP, HEXIT):
                r.do(code, 0, e[1])
            elif code == HRESUME:
                r.do(HRESUME)
            elif code == LOOPEND:
                r.do(LOOPEND)
            else:
                r.do(code, e[1])
        r.scripted_len = len(r.ops)
        r.drain()
    if getattr(r, "leaked_threads", None):
        r.mon.append(f"caller threads never got an answer and are left hanging at the end of the history: {r.leaked_threads}")
    return r.slim()


def case_of(r: PortalRun) -> list[int]:
    return [1, 1, 1, r.ncalls] + r.ops


def readable(ops: list[int]) -> list:
    return [(OPN.get(ops[i], ops[i]), *ops[i + 1:i + 6]) for i in range(0, len(ops) - 5, 6)]


def msg_class(msg: str) -> str:
    """Class of a monitor message: its text with the numbers abstracted."""
    import re
    return re.sub(r"\d+", "#", msg)[:70]


def shrink(ncalls: int, ops: list[int], budget: int = 40, cls: str | None = None) -> list[int]:
    """Drop ops while a monitor (of the same message class, if given) still trips."""
    def trips(cand):
        mon = run_script(ncalls, cand).mon
        return any(msg_class(m) == cls for m in mon) if cls else bool(mon)

    cur = ops
    tries = 0
    i = len(cur) // 6 - 1
    while i >= 0 and tries < budget:
        cand = cur[:6 * i] + cur[6 * (i + 1):]
        tries += 1
        try:
            if trips(cand):
                cur = cand
        except Exception:  # noqa: BLE001
            pass
        i -= 1
    return cur


def exhaustive_cases(ncalls: int, depth: int, kinds=(KCORO,), budget: int = 100000) -> list[PortalRun]:
    """Every op sequence up to `depth` that the implementation enables, over a reduced op alphabet
    (one fixed payload per op kind), by replay of each prefix."""
    results: list[PortalRun] = []
    count = [0]

    def variants(r: PortalRun, e):
        code = e[0]
        if code == ISSUE:
            return [[ISSUE, e[1], e[2], 0, 0, 0]] if e[2] in kinds else []
        if code == STEP:
            k, wk = e[1], e[2]
            rec = r.recs[k]
            if rec.kind == KSYNC:
                return [[STEP, k, 0, 0, F_RETURN, 70 + k]]
            if wk:
                return [[STEP, k, 1, 0, F_RERAISE, 0], [STEP, k, 1, 0, F_RETURN, 80 + k]]
            out = [[STEP, k, 0, 0, F_BLOCK, 0], [STEP, k, 0, 0, F_RETURN, 70 + k],
                   [STEP, k, 0, 0, F_CANCEL_OWN, OWN_NATIVE if rec.execs else OWN_RAISE]]
            if rec.kind == KSTART and rec.status_fut is not None and not rec.status_fut.done():
                out.append([STEP, k, 0, 60 + k, F_BLOCK, 0])
            return out
        if code == STOP:
            if e[1] == 0 and r.portal._event_loop_thread_id is None:
                return []                      # stop(False) on a stopped portal changes nothing
            if e[1] == 1 and r.tg.cancel_scope.cancel_called:
                return []
            return [[code, 0, e[1], 0, 0, 0]]
        if code in (FCANCEL, FCANCEL_LOOP):
            rec = r.recs[e[1]]
            return [[code, e[1], 0, 0, 0, 0]] if (rec.fut is not None and not rec.fut.cancelled()) else []
        if code == HEXIT:
            return [[code, 0, e[1], 0, 0, 0]]
        if code == HRESUME:
            return [[HRESUME, 0, 0, 0, 0, 0]]
        if code == LOOPEND:
            return [[LOOPEND, 0, 0, 0, 0, 0]]
        return [[code, e[1], 0, 0, 0, 0]]

    def rec_(prefix: list[int]):
        if count[0] >= budget:
            return
        count[0] += 1
        leaf = len(prefix) // 6 >= depth
        r = PortalRun(ncalls)
        with r:
            for i in range(0, len(prefix), 6):
                r.do(*prefix[i:i + 6])
            r.scripted_len = len(r.ops)
            nxt = [] if leaf else [v for e in r.enabled() for v in variants(r, e)]
            r.drain()
        if getattr(r, "leaked_threads", None):
            r.mon.append(f"caller threads never got an answer and are left hanging at the end of the history: {r.leaked_threads}")
        r.slim()
        if leaf or not nxt or r.mon:
            results.append(r)
        for v in nxt:
            rec_(prefix + v)

    rec_([])
    return results


# ==================================================================================================================
# Part (b): end-to-end with start_blocking_portal() and real caller threads (stock loop and uvloop)
# ==================================================================================================================
E2E_WAIT = 6.0


class E2ECall:
    def __init__(self, idx: int, api: str, is_coro: bool, gated: bool, fail: bool, started, cancel: bool, late: bool):
        self.idx, self.api, self.is_coro, self.gated, self.fail = idx, api, is_coro, gated, fail
        self.started, self.cancel, self.late = started, cancel, late
        self.value = 1000 + idx
        self.fail_code = 1            # which exception a failing callable raises (E_FALSY / E_FALSY_BOOL: falsy ones)
        self.own_cancel = None        # None | 'raise' | 'await' | 'native': the callable's own outcome is a cancellation
        self.gate = threading.Event()
        self.issued = threading.Event()
        self.lock = threading.Lock()
        self.execs = 0
        self.exec_threads: list[int] = []
        self.outcome = None           # what the callable did: ('ret', v) | ('raise', exc) | ('cancelled',)
        self.t_finished = None
        self.fut = None
        self.start_ret = None
        self.caller = None            # ('ok', v) | ('exc', e) | ('hang',)
        self.cancel_ret = None
        self.t_issue_done = None

    def describe(self):
        return {"idx": self.idx, "api": self.api, "coro": self.is_coro, "gated": self.gated, "fail": self.fail,
                "started": self.started, "cancel": self.cancel, "late": self.late, "own_cancel": self.own_cancel}


def e2e_make_fn(c: E2ECall):
    import anyio

    if not c.is_coro:
        def fn():
            with c.lock:
                c.execs += 1
                c.exec_threads.append(get_ident())
            try:
                if c.fail:
                    exc = make_exc(c.fail_code)
                    c.outcome = ("raise", exc)
                    raise exc
                c.outcome = ("ret", c.value)
                return c.value
            finally:
                c.t_finished = time.monotonic()
        return fn

    async def cfn(*, task_status=None):
        with c.lock:
            c.execs += 1
            c.exec_threads.append(get_ident())
        try:
            if task_status is not None and c.started is not None:
                task_status.started(c.started)
            if c.gated:
                while not c.gate.is_set():
                    await anyio.sleep(0.001)
            else:
                await anyio.sleep(0)
            if c.own_cancel == "raise":
                raise CancelledError()
            if c.own_cancel == "await":        # plain asyncio interop: the awaited task is cancelled by somebody else
                inner = asyncio.ensure_future(asyncio.sleep(30))
                asyncio.get_running_loop().call_later(0.002, inner.cancel)
                await inner
            if c.own_cancel == "native":       # a third party cancels this call's task natively
                asyncio.get_running_loop().call_later(0.002, asyncio.current_task().cancel)
                await asyncio.sleep(30)
            if c.fail:
                exc = make_exc(c.fail_code)
                c.outcome = ("raise", exc)
                raise exc
            c.outcome = ("ret", c.value)
            return c.value
        except CancelledError:
            c.outcome = ("cancelled",)
            raise
        finally:
            c.t_finished = time.monotonic()
    return cfn


def e2e_scenario(rng: random.Random, backend_opts: dict, label: str):
    """One end-to-end history.  Returns (monitor messages, description, flags)."""
    from anyio.from_thread import start_blocking_portal

    nthreads = rng.choice([2, 3, 3, 4])
    ncalls = rng.choice([3, 4, 5, 6, 8])
    exit_exc = rng.random() < 0.4
    calls: list[E2ECall] = []
    for i in range(ncalls):
        api = rng.choice(["call", "soon", "soon", "start"])
        is_coro = True if api == "start" else rng.random() < 0.75
        gated = is_coro and rng.random() < 0.7
        fail = rng.random() < 0.25
        started = (2000 + i) if (api == "start" and (gated or rng.random() < 0.8)) else None
        cancel = (api == "soon" or (api == "start" and started is not None)) and rng.random() < 0.4
        calls.append(E2ECall(i, api, is_coro, gated, fail, started, cancel, False))
        calls[-1].fail_code = rng.choice([1, 2, E_FALSY, E_FALSY_BOOL])
        if is_coro and not cancel and rng.random() < 0.2:
            calls[-1].own_cancel = rng.choice(["raise", "await", "native"])
    nlate = rng.choice([0, 1, 2])
    for j in range(nlate):
        calls.append(E2ECall(ncalls + j, rng.choice(["call", "soon", "start"]), True, False, False, 2500 + j, False, True))
    assign = {t: [] for t in range(nthreads)}
    for c in calls:
        assign[rng.randrange(nthreads)].append(c)
    for t in assign:   # non-blocking APIs first, so that a gated call() cannot hold back an issue the controller awaits
        assign[t].sort(key=lambda c: (c.late, c.api == "call"))

    mon: list[str] = []
    flags: set[str] = set()
    st = {"portal": None, "t_exit_signal": None, "t_exited": None, "owner_exc": None, "loop_thread": None}
    portal_ready = threading.Event()
    exit_signal = threading.Event()
    exited = threading.Event()

    class BodyError(Exception):
        pass

    def owner():
        try:
            with start_blocking_portal("asyncio", backend_opts) as portal:
                st["portal"] = portal
                st["loop_thread"] = portal._event_loop_thread_id
                portal_ready.set()
                if not exit_signal.wait(E2E_WAIT * 2):
                    mon.append("harness: exit signal never given")
                if exit_exc:
                    raise BodyError()
        except BodyError:
            pass
        except BaseException as e:  # noqa: BLE001
            st["owner_exc"] = e
        finally:
            st["t_exited"] = time.monotonic()
            exited.set()
            portal_ready.set()

    def caller(mine: list[E2ECall]):
        portal_ready.wait(E2E_WAIT)
        portal = st["portal"]
        if portal is None:
            return
        for c in mine:
            if c.late:
                exited.wait(E2E_WAIT * 2)
            fn = e2e_make_fn(c)
            try:
                if c.api == "call":
                    c.caller = ("ok", portal.call(fn))
                elif c.api == "soon":
                    c.fut = portal.start_task_soon(fn)
                else:
                    c.fut, c.start_ret = portal.start_task(fn)
            except BaseException as e:  # noqa: BLE001
                c.caller = ("exc", e)
            c.t_issue_done = time.monotonic()
            c.issued.set()
        for c in mine:
            if c.fut is not None and c.caller is None:
                try:
                    # Future.exception(): CPython's Future.result() decides by the exception's truth value, which is
                    # not AnyIO's business for a future it merely returns
                    e = c.fut.exception(timeout=E2E_WAIT)
                    c.caller = ("exc", e) if e is not None else ("ok", c.fut.result(timeout=0))
                except TimeoutError:
                    c.caller = ("hang",)
                except BaseException as e:  # noqa: BLE001
                    c.caller = ("exc", e)

    towner = threading.Thread(target=owner, name=f"c15-owner-{label}", daemon=True)
    towner.start()
    tcallers = [threading.Thread(target=caller, args=(assign[t],), name=f"c15-e2e-caller-{t}", daemon=True)
                for t in range(nthreads)]
    for t in tcallers:
        t.start()
    if not portal_ready.wait(E2E_WAIT) or st["portal"] is None:
        mon.append(f"start_blocking_portal did not come up: {st['owner_exc']!r}")
        exit_signal.set()
        return mon, {"label": label}, flags

    actions = [("release", c) for c in calls if c.gated] + [("cancel", c) for c in calls if c.cancel] + [("exit", None)] \
        + [("probe", None)] * rng.choice([0, 1, 2])
    rng.shuffle(actions)
    order = []
    for what, c in actions:
        d = rng.choice([0, 0, 0.001, 0.003])
        if d:
            time.sleep(d)
        if what == "release":
            order.append(("release", c.idx))
            c.gate.set()
        elif what == "probe":
            # the portal accepts calls until it is stopped, whatever happened to other calls
            if st["t_exit_signal"] is None:
                try:
                    if st["portal"].call(lambda: 5) != 5:
                        mon.append("probe call returned a wrong value")
                    order.append(("probe", "ok"))
                    flags.add("probe_before_stop")
                except BaseException as e:  # noqa: BLE001
                    order.append(("probe", repr(e)))
                    mon.append(f"a call issued before the portal was asked to stop was not served: {e!r} "
                               f"(own-cancellation calls so far: {[x.idx for x in calls if x.own_cancel and x.outcome]})")
        elif what == "cancel":
            if c.issued.wait(2.0) and c.fut is not None:
                c.cancel_ret = c.fut.cancel()
                order.append(("cancel", c.idx, c.cancel_ret))
            else:
                order.append(("cancel-skipped", c.idx))
        else:
            order.append(("exit", exit_exc))
            st["t_exit_signal"] = time.monotonic()
            exit_signal.set()
    # a coroutine task whose future was cancelled while it was gated must end without its gate: check before the
    # safety release below
    for c in calls:
        if c.cancel_ret is True and c.is_coro and c.gated and c.execs and not c.gate.is_set():
            pass
    for c in calls:
        c.gate.set()
    if not exited.wait(E2E_WAIT):
        mon.append("leaving start_blocking_portal() did not complete (owner thread hangs)")
    for t in tcallers:
        t.join(E2E_WAIT)
        if t.is_alive():
            mon.append(f"caller thread {t.name} left hanging")
    towner.join(1.0)

    # ---- monitors ----
    t_exit_signal, t_exited = st["t_exit_signal"], st["t_exited"]
    if st["owner_exc"] is not None:
        mon.append(f"start_blocking_portal() raised {st['owner_exc']!r}")
    cancel_remaining = exit_exc
    for c in calls:
        who = f"call {c.idx} ({c.api}, {'coro' if c.is_coro else 'sync'})"
        if c.caller is None:
            mon.append(f"{who}: caller never got an answer")
            continue
        if c.caller[0] == "hang":
            mon.append(f"{who}: caller left hanging on its future")
            continue
        refused = c.caller[0] == "exc" and isinstance(c.caller[1], RuntimeError) and c.execs == 0 and c.fut is None
        if refused:
            flags.add("refused")
            if t_exit_signal is None or c.t_issue_done < t_exit_signal:
                mon.append(f"{who}: refused with {c.caller[1]!r} before the portal was asked to stop")
            continue
        if c.late:
            mon.append(f"{who}: issued after the portal's context was left but not refused with RuntimeError: {c.caller!r}")
            continue
        if c.execs != 1:
            mon.append(f"{who}: accepted but its callable ran {c.execs} times")
            continue
        if c.exec_threads and c.exec_threads[0] != st["loop_thread"]:
            mon.append(f"{who}: callable ran outside the event loop thread")
        if c.t_finished is None:
            mon.append(f"{who}: callable never finished")
        elif t_exited is not None and c.t_finished > t_exited:
            mon.append(f"{who}: leaving the portal's context completed before this task finished")
        kind = c.outcome[0] if c.outcome else None
        tag = c.caller[0]
        got_cancel = tag == "exc" and isinstance(c.caller[1], FutCancelledError)
        if kind == "cancelled":
            flags.add("task_cancelled")
            if c.own_cancel:
                flags.add("own_cancel_" + c.own_cancel)
            elif not (c.cancel_ret is True or cancel_remaining):
                mon.append(f"{who}: task was cancelled although neither its future was cancelled nor cancel_remaining requested")
            if not got_cancel and not (c.api == "start" and c.started is not None and c.caller[0] == "ok"):
                mon.append(f"{who}: task cancelled but caller got {c.caller!r}")
        if c.fut is not None and c.fut.cancelled():
            # F39: whoever cancelled it, once the task has ended (the context has been left) the waiters are told
            if c.fut not in cf_wait([c.fut], timeout=1.0).done:
                mon.append(f"{who}: its future is cancelled and its task has ended but concurrent.futures.wait() never "
                           f"reports it as done (cancelled by {'the caller' if c.cancel_ret else 'the portal / the callable'})")
            elif not yielded_by_as_completed(c.fut):
                mon.append(f"{who}: its cancelled future is not yielded by as_completed()")
            else:
                flags.add("cancelled_future_reported")
        if c.cancel_ret is True:
            flags.add("future_cancelled")
            if c.fut is not None and not c.fut.cancelled():
                mon.append(f"{who}: Future.cancel() returned True but the future is not cancelled")
        elif kind == "ret" and c.api == "start" and c.started is None:
            flags.add("exited_without_started")
            if not (tag == "exc" and isinstance(c.caller[1], RuntimeError) and "started" in str(c.caller[1])):
                mon.append(f"{who}: exited without calling started() but start_task gave {c.caller!r}")
        elif kind == "ret":
            flags.add("value")
            if not (tag == "ok" and c.caller[1] == c.value):
                mon.append(f"{who}: returned {c.value} but caller got {c.caller!r}")
        elif kind == "raise":
            flags.add("exception")
            falsy = not c.outcome[1]
            if falsy:
                flags.add("falsy_exception")
            note = " (an exception whose truth value is False)" if falsy else ""
            if tag == "ok" and c.api == "call":
                mon.append(f"{who}: call returned {c.caller[1]!r} although the callable raised {c.outcome[1]!r}{note}")
            elif c.api == "start" and c.started is None and tag == "exc" and isinstance(c.caller[1], RuntimeError) \
                    and c.caller[1] is not c.outcome[1]:
                mon.append(f"{who}: start_task raised {c.caller[1]!r} instead of the task's exception {c.outcome[1]!r}{note}")
            elif not (tag == "exc" and c.caller[1] is c.outcome[1]):
                mon.append(f"{who}: raised {c.outcome[1]!r}{note} but caller got {c.caller!r}")
        if c.api == "start" and c.fut is not None and c.started is not None and c.start_ret != c.started:
            mon.append(f"{who}: started({c.started}) but start_task returned {c.start_ret!r}")
        if c.api == "start" and c.started is not None:
            flags.add("started")
        if c.gated and kind in ("ret", "raise") and t_exit_signal is not None and c.t_finished > t_exit_signal:
            flags.add("finished_after_stop_requested")
    if cancel_remaining:
        flags.add("cancel_remaining")
    desc = {"label": label, "threads": nthreads, "exit_exc": exit_exc, "calls": [c.describe() for c in calls],
            "order": order}
    return mon, desc, flags


def e2e_fixed_scenarios():
    """Directed histories (as seeds for the rng-free part): returned as callables taking backend options."""
    return []


def run_e2e(tier: str, rng: random.Random):
    results = []
    n = 60 if tier == "quick" else 1000
    backends = [("stock", {}), ("uvloop", {"use_uvloop": True})]
    try:
        import uvloop  # noqa: F401
    except Exception:  # noqa: BLE001
        backends = backends[:1]
    directed = {"caller_kinds": e2e_caller_kinds, "falsy_exceptions": e2e_falsy_exceptions,
                "cancel_in_loop_thread": e2e_cancel_in_loop_thread}
    for f in sorted((core.VERIF / "corpus" / "C15").glob("e2e_*.json")):
        spec = json.loads(f.read_text())
        fn = directed.get(spec.get("e2e_scenario"))
        if fn is None:
            continue
        for name, opts in backends:
            if name in spec.get("backends", [name]):
                mon, desc, flags = fn(opts, f"{name}-corpus-{f.stem}")
                desc["backend"] = name
                desc["corpus"] = f.name
                results.append((mon, desc, flags))
    for name, opts in backends:
        for i in range(2 if tier == "quick" else 10):
            mon, desc, flags = e2e_caller_kinds(opts, f"{name}-kinds-{i}")
            desc["backend"] = name
            results.append((mon, desc, flags))
            if mon:
                break
        for i in range(max(4, n // 10)):
            if sum(1 for m, _, _ in results if m) >= 3:
                break
            seed = rng.randrange(1 << 30)
            mon, desc, flags = e2e_two_phase_stop(random.Random(seed), opts, f"{name}-2ph-{i}")
            desc["seed"] = seed
            desc["backend"] = name
            desc["replay_fn"] = "e2e_two_phase_stop"
            results.append((mon, desc, flags))
        for i in range(n):
            if sum(1 for m, _, _ in results if m) >= 3:
                break
            seed = rng.randrange(1 << 30)
            mon, desc, flags = e2e_scenario(random.Random(seed), opts, f"{name}-{i}")
            desc["seed"] = seed
            desc["backend"] = name
            results.append((mon, desc, flags))
    return results, [b[0] for b in backends]


def e2e_caller_kinds(backend_opts: dict, label: str):
    """Caller kinds, end to end.  The same set of calls (call with a sync callable, call with a coroutine,
    start_task_soon, start_task incl. the code before started()) is issued from
      plain             a plain foreign thread,
      own-worker        an AnyIO worker thread (to_thread.run_sync) of the PORTAL's own event loop,
      other-worker      an AnyIO worker thread of ANOTHER event loop (an outer anyio.run) using a portal that a third
                        thread created,
      other-worker-own  an AnyIO worker thread of another event loop that opens start_blocking_portal() itself and leaves it.
    Monitors: threading.get_ident() seen by every callable (every segment of it) is the ident of the portal's event-loop
    thread; every caller gets its value; leaving the portal's context terminates.  Returns (mon, desc, flags)."""
    import anyio
    from anyio import to_thread
    from anyio.from_thread import start_blocking_portal

    mon: list[str] = []
    flags: set[str] = set()
    seen: list[tuple] = []           # (caller kind, what, ident seen by the callable, ident of the portal's loop thread)
    lock = threading.Lock()

    def ident_of(name):
        return next((t.ident for t in threading.enumerate() if t.name == name), None)

    def use_portal(portal, kind: str, pname: str):
        def note(what):
            with lock:
                seen.append((kind, what, get_ident(), ident_of(pname)))

        def sync_fn():
            note("call(sync callable)")
            return 1

        async def coro_fn():
            note("call(coroutine), first segment")
            await anyio.sleep(0.001)
            note("call(coroutine), after a checkpoint")
            return 2

        async def soon_fn():
            note("start_task_soon, first segment")
            await anyio.sleep(0.001)
            note("start_task_soon, after a checkpoint")
            return 3

        async def start_fn(*, task_status):
            note("start_task, code before started()")
            task_status.started(4)
            await anyio.sleep(0.001)
            note("start_task, after started()")
            return 5

        try:
            got = [portal.call(sync_fn), portal.call(coro_fn), portal.start_task_soon(soon_fn).result(E2E_WAIT)]
            fut, sv = portal.start_task(start_fn)
            got += [sv, fut.result(E2E_WAIT)]
            if got != [1, 2, 3, 4, 5]:
                mon.append(f"caller kind {kind}: callers got {got} instead of [1, 2, 3, 4, 5]")
            else:
                flags.add("kind_" + kind)
        except BaseException as e:  # noqa: BLE001
            mon.append(f"caller kind {kind}: a call through a running portal failed with {e!r}")

    pa = f"c15-portalA-{label}"
    pb = f"c15-portalB-{label}"
    st = {"portal": None, "a_left": False, "b_left": False}
    ready, done = threading.Event(), threading.Event()

    def owner_a():                                   # a plain thread creates portal A
        try:
            with start_blocking_portal("asyncio", backend_opts, name=pa) as portal:
                st["portal"] = portal
                ready.set()
                done.wait(E2E_WAIT * 4)
            st["a_left"] = True
        except BaseException as e:  # noqa: BLE001
            mon.append(f"start_blocking_portal() (plain owner) raised {e!r}")
        finally:
            ready.set()

    ta = threading.Thread(target=owner_a, name=f"c15-kinds-ownerA-{label}", daemon=True)
    ta.start()
    if not ready.wait(E2E_WAIT) or st["portal"] is None:
        return mon + ["start_blocking_portal did not come up"], {"label": label}, flags
    portal_a = st["portal"]

    def bounded(fn, what, name):
        t = threading.Thread(target=fn, name=name, daemon=True)
        t.start()
        t.join(E2E_WAIT * 2)
        if t.is_alive():
            mon.append(f"{what} does not terminate")
        return not t.is_alive()

    # plain
    bounded(lambda: use_portal(portal_a, "plain", pa), "a plain caller thread", f"c15-kinds-plain-{label}")

    # worker thread of the portal's own loop
    async def own_worker():
        await to_thread.run_sync(use_portal, portal_a, "own-worker", pa)

    bounded(lambda: portal_a.call(own_worker), "a caller in a worker thread of the portal's own loop",
            f"c15-kinds-own-{label}")

    # worker thread of another loop, portal created by yet another thread
    def outer_other():
        async def main():
            await to_thread.run_sync(use_portal, portal_a, "other-worker", pa, abandon_on_cancel=True)
        anyio.run(main)

    bounded(outer_other, "a caller in a worker thread of ANOTHER event loop (anyio.run)", f"c15-kinds-other-{label}")
    done.set()
    ta.join(E2E_WAIT)
    if ta.is_alive() or not st["a_left"]:
        mon.append("leaving start_blocking_portal() (plain owner) does not terminate after calls from worker threads")

    # worker thread of another loop opens and leaves its own portal
    def outer_own():
        def blocking():
            with start_blocking_portal("asyncio", backend_opts, name=pb) as portal:
                use_portal(portal, "other-worker-own", pb)
            st["b_left"] = True

        async def main():
            await to_thread.run_sync(blocking, abandon_on_cancel=True)
        anyio.run(main)

    if not bounded(outer_own, "a worker thread of another event loop that opens start_blocking_portal() and leaves it",
                   f"c15-kinds-own-portal-{label}") or not st["b_left"]:
        if not any("opens start_blocking_portal" in m for m in mon):
            mon.append("leaving start_blocking_portal() from a worker thread of another event loop does not terminate")

    # every segment of every callable ran in the portal's event-loop thread (looked up by the thread's name while the
    # portal was alive)
    with lock:
        snapshot = list(seen)
    reported = set()
    wrong = []
    for kind, what, ident, expect in snapshot:
        if expect is None:
            wrong.append(f"caller kind {kind}: the portal's event-loop thread could not be identified")
            break
        if ident != expect and kind not in reported:
            reported.add(kind)
            wrong.append(f"call issued from caller kind '{kind}': {what} ran in thread {ident}, not in the portal's "
                         f"event-loop thread {expect} (the callable must run in the portal's event-loop thread)")
    mon = wrong + mon
    desc = {"label": label, "scenario": "caller kinds: plain / worker of the portal's loop / worker of another loop",
            "segments_observed": len(snapshot), "replay_fn": "e2e_caller_kinds"}
    return mon, desc, flags


def e2e_falsy_exceptions(backend_opts: dict, label: str):
    """F47, directed: callables raise an exception whose truth value is False (__len__() == 0 / __bool__() False) through
    every entry point.  call(sync) / call(coroutine) must raise that very exception (not return None); the future of
    start_task_soon must hold it; start_task must raise it when the task fails before started() (not the unrelated
    RuntimeError) and return (future, value) with the future holding it when the task fails after started()."""
    import anyio
    from anyio.from_thread import start_blocking_portal

    mon: list[str] = []
    flags: set[str] = set()
    with start_blocking_portal("asyncio", backend_opts) as portal:
        for code, flavour in ((E_FALSY, "__len__() == 0"), (E_FALSY_BOOL, "__bool__() is False")):
            exc = make_exc(code)

            def sync_fail():
                raise exc

            async def coro_fail():
                await anyio.sleep(0)
                raise exc

            async def start_fail_before(*, task_status):
                await anyio.sleep(0)
                raise exc

            async def start_fail_after(*, task_status):
                task_status.started(11)
                await anyio.sleep(0)
                raise exc

            for what, fn in (("call(sync callable)", sync_fail), ("call(coroutine)", coro_fail)):
                try:
                    r = portal.call(fn)
                    mon.append(f"{what} returned {r!r} although the callable raised {exc!r} (truth value False: {flavour})")
                except BaseException as e:  # noqa: BLE001
                    if e is not exc:
                        mon.append(f"{what}: the callable raised {exc!r} but the caller got {e!r}")
                    else:
                        flags.add("falsy_call")
            f = portal.start_task_soon(coro_fail)
            try:
                e = f.exception(E2E_WAIT)
                if e is not exc:
                    mon.append(f"start_task_soon: the callable raised {exc!r} but future.exception() is {e!r}")
                else:
                    flags.add("falsy_soon")
            except BaseException as e:  # noqa: BLE001
                mon.append(f"start_task_soon: future.exception() raised {e!r}")
            try:
                r = portal.start_task(start_fail_before)
                mon.append(f"start_task returned {r!r} although the task raised {exc!r} before started()")
            except BaseException as e:  # noqa: BLE001
                if e is not exc:
                    mon.append(f"start_task raised {e!r} instead of the task's exception {exc!r} (truth value False: {flavour}; "
                               f"raised before started())")
                else:
                    flags.add("falsy_start_before")
            try:
                f, v = portal.start_task(start_fail_after)
                e = f.exception(E2E_WAIT)
                if v != 11 or e is not exc:
                    mon.append(f"start_task: started(11) then raised {exc!r}, caller got value {v!r} and future.exception() {e!r}")
                else:
                    flags.add("falsy_start_after")
            except BaseException as e:  # noqa: BLE001
                mon.append(f"start_task: started(11) then raised {exc!r}, but start_task raised {e!r}")
        try:
            if portal.call(lambda: 42) != 42:
                mon.append("probe call returned a wrong value")
        except BaseException as e:  # noqa: BLE001
            mon.append(f"after the failing calls the portal no longer answers: {e!r}")
    return mon, {"label": label, "scenario": "F47: exceptions whose truth value is False through call / start_task_soon / "
                                            "start_task (before and after started())", "replay_fn": "e2e_falsy_exceptions"}, flags


def e2e_cancel_in_loop_thread(backend_opts: dict, label: str):
    """A portal future cancelled IN THE EVENT-LOOP THREAD while its task runs, end to end:
      (1) "first result wins": a done-callback of another portal future (it runs in the loop thread, where that future
          is completed) cancels the future of a task that never ends by itself;
      (2) another portal call (a sync callable, which runs in the loop thread) cancels such a future.
    Each time: cancel() returns True, the future reports cancelled(), the task must see CancelledError promptly, a
    bystander task must not, and leaving start_blocking_portal() must not wait for a task the caller cancelled."""
    import anyio
    from anyio.from_thread import start_blocking_portal

    mon: list[str] = []
    flags: set[str] = set()
    grace = 3.0
    st = {"exited": False}

    def make_sleeper(tag, box):
        async def sleeper():
            box["started"].set()
            try:
                while not box["release"].is_set():
                    await anyio.sleep(0.001)
                box["outcome"] = "completed"
                return tag
            except CancelledError:
                box["outcome"] = "cancelled"
                raise
            finally:
                box["t_end"] = time.monotonic()
                box["ended"].set()
        return sleeper

    def new_box():
        return {"started": threading.Event(), "release": threading.Event(), "ended": threading.Event(), "outcome": None}

    boxes = {n: new_box() for n in ("victim1", "victim2", "bystander")}
    done = threading.Event()

    def owner():
        with start_blocking_portal("asyncio", backend_opts) as portal:
            st["portal"] = portal
            st["ready"].set()
            done.wait(E2E_WAIT * 4)
        st["exited"] = True

    st["ready"] = threading.Event()
    towner = threading.Thread(target=owner, name=f"c15-loopcancel-owner-{label}", daemon=True)
    towner.start()
    if not st["ready"].wait(E2E_WAIT):
        return ["start_blocking_portal did not come up"], {"label": label}, flags
    portal = st["portal"]
    loop_thread = portal.call(get_ident)
    futs = {n: portal.start_task_soon(make_sleeper(n, boxes[n])) for n in boxes}
    for n in boxes:
        if not boxes[n]["started"].wait(E2E_WAIT):
            mon.append(f"harness: task {n} did not start")

    # (1) first result wins
    gate = threading.Event()
    seen = {}

    async def winner():
        while not gate.is_set():
            await anyio.sleep(0.001)
        return "won"

    fwin = portal.start_task_soon(winner)

    def on_done(_f):
        seen["thread"] = get_ident()
        seen["ret"] = futs["victim1"].cancel()

    fwin.add_done_callback(on_done)
    gate.set()
    try:
        fwin.result(E2E_WAIT)
    except BaseException as e:  # noqa: BLE001
        mon.append(f"the winning call failed: {e!r}")
    deadline = time.time() + E2E_WAIT
    while "ret" not in seen and time.time() < deadline:
        time.sleep(0.001)
    if seen.get("thread") != loop_thread:
        mon.append("harness: the done-callback did not run in the event-loop thread")
    # (2) cancel from another portal call
    try:
        ret2 = portal.call(futs["victim2"].cancel)
    except BaseException as e:  # noqa: BLE001
        ret2 = None
        mon.append(f"portal.call(future.cancel) failed: {e!r}")
    for n, ret, how in (("victim1", seen.get("ret"), "a done-callback of another portal future"),
                        ("victim2", ret2, "another portal call")):
        box = boxes[n]
        if ret is not True or not futs[n].cancelled():
            mon.append(f"Future.cancel() from {how} returned {ret!r}, cancelled()={futs[n].cancelled()}")
            continue
        if not box["ended"].wait(grace):
            mon.append(f"the future cancelled in the event-loop thread by {how} reports cancelled() but its task was never "
                       f"cancelled: it is still running {grace}s later (leaving the portal would wait for it)")
        elif box["outcome"] != "cancelled":
            mon.append(f"the future cancelled in the event-loop thread by {how} reports cancelled() but its task ran to "
                       f"completion ({box['outcome']})")
        else:
            flags.add("loop_thread_cancel_" + ("done_callback" if n == "victim1" else "other_call"))
    if boxes["bystander"]["ended"].is_set():
        mon.append(f"a bystander task ended ({boxes['bystander']['outcome']}) although only OTHER futures were cancelled")
    boxes["bystander"]["release"].set()
    try:
        if futs["bystander"].result(E2E_WAIT) != "bystander":
            mon.append("bystander future wrong")
    except BaseException as e:  # noqa: BLE001
        mon.append(f"bystander call got {e!r}")
    done.set()
    towner.join(grace)
    if towner.is_alive():
        mon.append("leaving start_blocking_portal() waits for a task whose future was cancelled in the event-loop thread")
    for b in boxes.values():          # clean-up after a failure
        b["release"].set()
    towner.join(E2E_WAIT)
    return mon, {"label": label, "scenario": "Future.cancel() executed in the event-loop thread (done-callback of another "
                                            "future / another portal call) while the task runs",
                 "replay_fn": "e2e_cancel_in_loop_thread"}, flags


def e2e_two_phase_stop(rng: random.Random, backend_opts: dict, label: str):
    """Two-phase shutdown, end to end: calls are running; a task inside the portal executes `await portal.stop()`
    (new calls are refused, running ones go on), later `await portal.stop(cancel_remaining=True)`: every running task
    must be cancelled promptly WITHOUT its gate being released, its caller must get CancelledError, and leaving
    start_blocking_portal() must complete.  Returns (monitor messages, description, flags)."""
    import anyio
    from anyio.from_thread import start_blocking_portal

    mon: list[str] = []
    flags = {"two_phase_stop"}
    n = rng.choice([1, 2, 3, 4])
    calls = [E2ECall(i, rng.choice(["soon", "start", "call"]), True, True, False, None, False, False) for i in range(n)]
    for c in calls:
        if c.api == "start":
            c.started = 2000 + c.idx
    phase1, phase2 = threading.Event(), threading.Event()
    admin_state = {"stopped1": threading.Event(), "stopped2": threading.Event()}
    st = {"portal": None, "t_exited": None, "owner_exc": None}
    portal_ready, exit_signal, exited = threading.Event(), threading.Event(), threading.Event()

    def owner():
        try:
            with start_blocking_portal("asyncio", backend_opts) as portal:
                st["portal"] = portal
                portal_ready.set()
                exit_signal.wait(E2E_WAIT * 3)
        except BaseException as e:  # noqa: BLE001
            st["owner_exc"] = e
        finally:
            st["t_exited"] = time.monotonic()
            exited.set()
            portal_ready.set()

    towner = threading.Thread(target=owner, name=f"c15-owner-{label}", daemon=True)
    towner.start()
    if not portal_ready.wait(E2E_WAIT) or st["portal"] is None:
        return [f"start_blocking_portal did not come up: {st['owner_exc']!r}"], {"label": label}, flags
    portal = st["portal"]

    async def admin():
        while not phase1.is_set():
            await anyio.sleep(0.001)
        await portal.stop()
        admin_state["stopped1"].set()
        try:
            while not phase2.is_set():
                await anyio.sleep(0.001)
        finally:
            await portal.stop(cancel_remaining=True)
            admin_state["stopped2"].set()

    def caller(c: E2ECall):
        fn = e2e_make_fn(c)
        try:
            if c.api == "call":
                c.issued.set()
                c.caller = ("ok", portal.call(fn))
                return
            if c.api == "soon":
                c.fut = portal.start_task_soon(fn)
            else:
                c.fut, c.start_ret = portal.start_task(fn)
            c.issued.set()
            c.caller = ("ok", c.fut.result(timeout=E2E_WAIT * 2))
        except TimeoutError:
            c.caller = ("hang",)
        except BaseException as e:  # noqa: BLE001
            c.caller = ("exc", e)
        finally:
            c.issued.set()

    admin_fut = portal.start_task_soon(admin)
    tcallers = [threading.Thread(target=caller, args=(c,), name=f"c15-2ph-caller-{c.idx}", daemon=True) for c in calls]
    for t in tcallers:
        t.start()
    deadline = time.time() + E2E_WAIT
    while time.time() < deadline and not all(c.execs for c in calls):
        time.sleep(0.001)
    if not all(c.execs for c in calls):
        mon.append("harness: calls did not start")
    phase1.set()
    if not admin_state["stopped1"].wait(E2E_WAIT):
        mon.append("harness: first stop() did not run")
    try:
        portal.start_task_soon(lambda: 0)
        mon.append("a call issued after stop() was not refused")
    except RuntimeError:
        flags.add("refused")
    time.sleep(rng.choice([0, 0.002, 0.01]))
    for c in calls:
        if c.t_finished is not None:
            mon.append(f"call {c.idx} ended ({c.outcome}) after a plain stop() although its gate was never released")
    phase2.set()
    if not admin_state["stopped2"].wait(E2E_WAIT):
        mon.append("harness: second stop() did not run")
    t_stop2 = time.monotonic()
    grace = 3.0
    while time.monotonic() < t_stop2 + grace and not all(c.t_finished is not None for c in calls):
        time.sleep(0.001)
    for c in calls:
        if c.t_finished is None:
            mon.append(f"call {c.idx} ({c.api}) is still running {grace}s after stop(cancel_remaining=True): remaining "
                       f"tasks were not cancelled, the exit waits for them to finish by themselves")
        elif c.outcome != ("cancelled",):
            mon.append(f"call {c.idx} ({c.api}) ended with {c.outcome} instead of being cancelled")
        else:
            flags.add("task_cancelled")
    exit_signal.set()
    left_in_time = exited.wait(grace)
    if not left_in_time:
        mon.append("leaving start_blocking_portal() does not complete after stop(cancel_remaining=True)")
    for c in calls:            # clean-up (only matters after a failure): let everything end
        c.gate.set()
    exited.wait(E2E_WAIT)
    for t in tcallers:
        t.join(E2E_WAIT)
        if t.is_alive():
            mon.append(f"caller thread {t.name} left hanging")
    for c in calls:
        if c.execs != 1:
            mon.append(f"call {c.idx}: callable ran {c.execs} times")
        if c.outcome == ("cancelled",) and not (c.caller and c.caller[0] == "exc" and isinstance(c.caller[1], FutCancelledError)):
            mon.append(f"call {c.idx} ({c.api}) was cancelled but its caller got {c.caller!r}")
        if c.t_finished is not None and st["t_exited"] is not None and c.t_finished > st["t_exited"]:
            mon.append(f"call {c.idx}: leaving the portal's context completed before this task finished")
    try:
        admin_fut.result(timeout=E2E_WAIT)
    except FutCancelledError:
        pass
    except BaseException as e:  # noqa: BLE001
        mon.append(f"the task performing the two-phase shutdown got {e!r}")
    if st["owner_exc"] is not None:
        mon.append(f"start_blocking_portal() raised {st['owner_exc']!r}")
    towner.join(1.0)
    desc = {"label": label, "scenario": "two-phase shutdown: stop() then stop(cancel_remaining=True) with calls running",
            "calls": [c.describe() for c in calls]}
    return mon, desc, flags


def e2e_land_after_loop_end(label: str):
    """F40 end to end on the stock loop, forced deterministically with harness-side wrappers only: a caller thread is held
    between its `_check_running()` and the hand-over (wrapper around the instance's `_check_running`); the owner leaves
    start_blocking_portal(); the caller is released when the portal thread is about to call `loop.close()` (wrapper around
    that loop's `close`), i.e. after the loop's last iteration.  Returns (hangs: bool, other monitor messages, description)."""
    from anyio.from_thread import start_blocking_portal

    mon: list[str] = []
    issued, go = threading.Event(), threading.Event()
    res: dict = {}
    gated: dict = {}
    at_close = {"ready": None}
    with start_blocking_portal() as portal:
        orig = portal._check_running

        def gated_check():
            orig()
            if get_ident() == gated.get("id"):
                issued.set()
                go.wait(E2E_WAIT * 2)

        portal._check_running = gated_check

        def caller():
            gated["id"] = get_ident()
            try:
                res["r"] = portal.call(lambda: 1)
            except BaseException as e:  # noqa: BLE001
                res["e"] = e

        t = threading.Thread(target=caller, name=f"c15-f40-caller-{label}", daemon=True)
        t.start()
        if not issued.wait(E2E_WAIT):
            mon.append("harness: caller did not reach the gate")
        loop = portal._token.native_token
        orig_close = loop.close

        def close():
            go.set()                       # the loop has run its last iteration; now the caller hands its call over
            deadline = time.time() + 2.0
            while time.time() < deadline and not loop._ready and t.is_alive():
                time.sleep(0.001)
            at_close["ready"] = len(loop._ready)
            orig_close()

        loop.close = close
    t.join(1.0)                            # bounded: a hanging caller must not block the check (daemon thread)
    hangs = t.is_alive()
    if not hangs and not isinstance(res.get("e"), RuntimeError):
        mon.append(f"a call handed over after the loop's last iteration ended with {res!r} instead of RuntimeError")
    go.set()
    return hangs, mon, {"label": label, "scenario": "F40: _check_running passed, stop, loop ends, hand-over",
                        "handles_in_ready_queue_at_close": at_close["ready"], "caller_result": repr(res)}


def e2e_cancel_race(rounds: int, budget_s: float, backend_opts: dict, label: str):
    """Probabilistic detector for preemptive interleavings the model does not have: caller threads cancel the
    returned future while the task completes (switch interval 1e-6).  Whatever the interleaving, every future must end
    cancelled or with the callable's value, the callable must have run once per call, and the portal must survive:
    cancelling ONE future must never take down the other tasks.  Returns (monitor messages, stats)."""
    import sys
    from anyio.from_thread import start_blocking_portal

    mon: list[str] = []
    stats = {"label": label, "rounds": 0, "cancel_won": 0, "result_won": 0}
    counter = {"n": 0}
    lock = threading.Lock()
    bystander = {"cancelled": False, "done": False}
    release = threading.Event()
    old = sys.getswitchinterval()
    sys.setswitchinterval(1e-6)
    try:
        import anyio

        async def bystander_fn():
            try:
                while not release.is_set():
                    await anyio.sleep(0.001)
                return 7
            except CancelledError:
                bystander["cancelled"] = True
                raise
            finally:
                bystander["done"] = True

        def fn():
            counter["n"] += 1          # only ever runs in the loop thread
            return 1

        errors: list = []
        deadline = time.time() + budget_s
        try:
            with start_blocking_portal("asyncio", backend_opts) as portal:
                bfut = portal.start_task_soon(bystander_fn)

                def worker():
                    while time.time() < deadline and not errors:
                        with lock:
                            if stats["rounds"] >= rounds:
                                return
                            stats["rounds"] += 1
                        try:
                            f = portal.start_task_soon(fn)
                            c = f.cancel()
                            if c:
                                if not f.cancelled():
                                    errors.append("Future.cancel() returned True but the future is not cancelled")
                                elif f not in cf_wait([f], timeout=E2E_WAIT).done:
                                    errors.append("a future cancelled by its caller is never reported by concurrent.futures.wait()")
                                with lock:
                                    stats["cancel_won"] += 1
                            else:
                                if f.result(E2E_WAIT) != 1:
                                    errors.append("future resolved with a wrong value")
                                with lock:
                                    stats["result_won"] += 1
                        except BaseException as e:  # noqa: BLE001
                            errors.append(f"caller got {e!r} from a running portal")

                ts = [threading.Thread(target=worker, daemon=True) for _ in range(4)]
                for t in ts:
                    t.start()
                for t in ts:
                    t.join(budget_s + E2E_WAIT)
                    if t.is_alive():
                        errors.append("stress caller thread left hanging")
                try:
                    if portal.call(lambda: 42) != 42:
                        errors.append("probe call returned a wrong value")
                except BaseException as e:  # noqa: BLE001
                    errors.append(f"after the cancel/complete races the portal no longer answers: {e!r}")
                if bystander["cancelled"]:
                    errors.append("a bystander task was cancelled although only OTHER calls' futures were cancelled")
                release.set()
                try:
                    if bfut.result(E2E_WAIT) != 7:
                        errors.append("bystander future wrong")
                except BaseException as e:  # noqa: BLE001
                    errors.append(f"bystander call got {e!r}")
        except BaseException as e:  # noqa: BLE001
            errors.append(f"start_blocking_portal raised {e!r}")
        if counter["n"] != stats["rounds"] and not errors:
            errors.append(f"{stats['rounds']} calls issued but the callable ran {counter['n']} times")
        mon += errors[:4]
    finally:
        sys.setswitchinterval(old)
        release.set()
    return mon, stats


# ==================================================================================================================
F40_WHAT = ("a caller thread that passed _check_running() (start_task_soon/start_task/call, or the scope.cancel marshalled by a "
            "foreign Future.cancel()) but reaches loop.call_soon_threadsafe only after the portal was stopped and the loop ran its "
            "last iteration hangs forever: the call is neither run nor refused [F40, predicate landed_after_loop_end]")


def f40_is_known() -> bool:
    """known_findings.json is only ever read: is F40's predicate recorded as a known finding of C15?"""
    import os
    from pathlib import Path

    path = Path(os.environ.get("VERIF_KNOWN_FINDINGS") or (core.VERIF / "known_findings.json"))
    try:
        data = json.loads(path.read_text())
    except Exception:  # noqa: BLE001
        return False
    for f in data.get("findings", []):
        if f.get("property") == "C15" and f.get("status") == "known" \
                and (f.get("match") or {}).get("predicate") == "landed_after_loop_end":
            return True
    return False


def check(tier: str) -> int:
    rep = core.Report("C15", tier)
    rep.assumptions = core.TRUSTED_BASE_COMMON + [
        "model boundary/Portal.v hand-written from from_thread.py (_check_running, stop, _call_func, _spawn_task_from_thread, "
        "start_task_soon, start_task, __aexit__) and _asyncio.py TaskGroup.__aexit__/create_task/_spawn.task_done; "
        "the task group is abstracted to its member set, cancel_called flag and the host's exit phases",
        "oracle contract (environment ops, validated by the harness against real threads): a caller thread is the sequence "
        "ThreadIssue (its _check_running read) ; ThreadLand (its call_soon_threadsafe handle runs) ; FutureCancel ; CancelLand; "
        "the callable is any sequence of segments started()/block/return/raise/propagate-cancellation; cancellation delivery "
        "to a blocked task of a cancelled scope is C03's concern and appears only as the enabledness of WInterrupt",
        "NOT modelled (observed by the harness only): preemptive interleavings inside a segment (a foreign Future.cancel() "
        "between `future.cancelled()` and `future.set_result()`), the loop being closed before a marshalled handle runs, "
        "thread joins of start_blocking_portal, host-task cancellation from an enclosing scope (C01)",
    ]
    phase_s = {}
    t_ph = time.time()

    def lap(name):
        nonlocal t_ph
        phase_s[name] = round(time.time() - t_ph, 1)
        t_ph = time.time()

    proofs_ok = core.proof_stage(rep, "props/C15.v")
    lap("proofs(make+gate+print_assumptions, includes waiting for the shared coq lock)")
    exe = core.build_driver("portal", "Portal")
    lap("extraction+driver")
    rng = random.Random(core.seed())

    runs: list[PortalRun] = []
    corpus_names = []
    for f in sorted((core.VERIF / "corpus" / "C15").glob("*.json")):
        if f.name.startswith("e2e_"):
            continue                               # directed end-to-end scenarios: run by run_e2e
        c = json.loads(f.read_text())
        runs.append(run_script(c["ncalls"], c["ops"]))
        corpus_names.append(f.name)
    n_corpus = len(runs)
    n_random = 450 if tier == "quick" else 15000
    for _ in range(n_random):
        if sum(1 for r in runs if r.mon) >= 5:
            break                                  # enough failing inputs: report them instead of piling up time-outs
        runs.append(random_case(rng, rng.choice([6, 10, 16, 24, 32])))
    if sum(1 for r in runs if r.mon) >= 5:
        ex = []
    elif tier == "quick":
        ex = exhaustive_cases(1, 5, kinds=(KCORO,)) + exhaustive_cases(1, 4, kinds=(KSTART,))
    else:
        ex = exhaustive_cases(1, 7, kinds=(KCORO,), budget=20000) + exhaustive_cases(1, 6, kinds=(KSTART, KSYNC), budget=20000) \
            + exhaustive_cases(2, 5, kinds=(KCORO,), budget=12000)
    runs += ex

    lap("implementation runs (SchedLoop)")
    cases = [case_of(r) for r in runs]
    expected = [r.outs for r in runs]
    model_outs = core.run_driver(exe, cases)
    disagreements = []
    rejected = 0
    for r, e, m in zip(runs, expected, model_outs):
        w = NOBS_GLOBAL + NOBS_CALL * r.ncalls
        rejected += sum(1 for i in range(0, len(m), w) if m[i] == 99)
        if e != m:
            k = next((i for i in range(min(len(e), len(m))) if e[i] != m[i]), min(len(e), len(m)))
            step = k // w
            disagreements.append({"ncalls": r.ncalls, "ops": r.ops[:6 * (step + 1)], "ops_readable": readable(r.ops[:6 * (step + 1)]),
                                  "first_diff_step": step, "impl": e[step * w:(step + 1) * w], "model": m[step * w:(step + 1) * w]})
    impl_rejected = sum(1 for r in runs for i in range(0, len(r.outs), NOBS_GLOBAL + NOBS_CALL * r.ncalls) if r.outs[i] in (98, 99))
    monitor_hits = [(r, msg) for r in runs for msg in r.mon]

    # hangs of histories matching the known finding's predicate (evaluated by the MODEL on the executed op list:
    # the `lost_any` observable of the last step = Portal.landed_after_loop_end): KNOWN-FINDING, not a violation;
    # a hang the predicate does not explain, or F40 not being recorded as known, stays a violation
    known_ok = f40_is_known()
    n_known = 0
    known_example = None
    for r, m in zip(runs, model_outs):
        if not r.known_hits:
            continue
        w = NOBS_GLOBAL + NOBS_CALL * r.ncalls
        predicate = len(m) >= w and m[len(m) - w + 8] == 1
        if known_ok and predicate:
            n_known += 1
            known_example = known_example or r
            rep.known_finding(F40_WHAT)
        else:
            why = "the model's predicate landed_after_loop_end does not hold for this history" if known_ok \
                else "F40 is not recorded as a known finding in known_findings.json"
            monitor_hits += [(r, msg + f" ({why})") for msg in r.known_hits]
            r.mon += r.known_hits

    # A disagreement without a monitor hit: the implementation is NOT abandoned at the point of divergence -- every case
    # above was executed to its end (including the drain) on the implementation alone and the monitors ran over the
    # whole trace.  In addition, search for a monitor-failing input around the divergence: random continuations of the
    # shortest diverging prefixes, executed on the implementation only.
    explored = 0
    if disagreements and not monitor_hits:
        for dcase in sorted(disagreements, key=lambda d: len(d["ops"]))[:4]:
            for _ in range(25 if tier == "quick" else 100):
                r2 = random_case(rng, rng.choice([4, 8, 12]), prefix=dcase["ops"], ncalls=dcase["ncalls"])
                r2.scripted_len = len(r2.ops)
                explored += 1
                if r2.mon:
                    monitor_hits += [(r2, msg) for msg in r2.mon]
            if monitor_hits:
                break

    sample_n = 40 if tier == "quick" else 300
    idx = list(range(len(cases)))
    rng.shuffle(idx)
    idx = sorted(set(list(range(n_corpus)) + idx[:sample_n]))
    vm_ok, vm_log = core.coq_eval_cases("c15", "Portal", [cases[i] for i in idx], [expected[i] for i in idx])

    lap("model runs + vm_compute sample")
    e2e, backends = run_e2e(tier, rng)
    race_rounds, race_budget = (12000, 6.0) if tier == "quick" else (100000, 40.0)
    races = []
    for name in backends:
        rmon, rstats = e2e_cancel_race(race_rounds, race_budget, {"use_uvloop": True} if name == "uvloop" else {}, name)
        races.append((rmon, rstats))
    f40_e2e = []
    for i in range(1 if tier == "quick" else 4):
        hangs, fmon, fdesc = e2e_land_after_loop_end(f"stock-f40-{i}")
        f40_e2e.append({"hangs": hangs, **fdesc})
        if fmon:
            e2e.append((fmon, fdesc, set()))
        if hangs:
            if known_ok:
                rep.known_finding(F40_WHAT)
            else:
                e2e.append((["caller thread left hanging after a hand-over that came after the loop's last iteration "
                             "(F40 is not recorded as a known finding)"], fdesc, set()))
    lap("end-to-end runs")
    e2e_hits = [(mon, desc) for mon, desc, _ in e2e if mon]

    # ---- decide ----
    seen = set()
    for r, msg in monitor_hits:
        key = msg_class(msg)
        if key in seen or len(seen) >= 6:
            continue
        seen.add(key)
        ops = r.ops
        try:
            full = r.ops[:max(r.scripted_len, 6)] if hasattr(r, "scripted_len") else r.ops
            if not any(msg_class(m) == key for m in run_script(r.ncalls, full).mon):
                full = r.ops                        # the hit came from the drain part: shrink the whole history
            ops = shrink(r.ncalls, full, cls=key)
            shrunk_mon = [m for m in run_script(r.ncalls, ops).mon if msg_class(m) == key]
            if shrunk_mon:
                msg = shrunk_mon[0]                 # what the shrunk history itself shows
        except Exception:  # noqa: BLE001
            pass
        rep.violation(msg, {"kind": "monitor", "part": "a (SchedLoop)", "ncalls": r.ncalls, "ops": ops,
                            "ops_readable": readable(ops), "all_messages": r.mon[:6],
                            "replay": "harness/c15.py: run_script(ncalls, ops).mon"})
    for mon, desc in e2e_hits[:4]:
        rep.violation(mon[0], {"kind": "monitor", "part": "b (end-to-end, real threads)", "scenario": desc,
                               "all_messages": mon[:6],
                               "replay": "harness/c15.py: " + desc.get("replay_fn", "e2e_scenario")
                                         + "(random.Random(seed), backend options, label)"})
    for rmon, rstats in races:
        if rmon:
            rep.violation(rmon[0], {"kind": "monitor", "part": "b (end-to-end, cancel-vs-completion stress, probabilistic)",
                                    "stats": rstats, "all_messages": rmon,
                                    "replay": "harness/c15.py: e2e_cancel_race(rounds, budget_s, backend options, label)"})
    tie_broken = []
    if not proofs_ok:
        tie_broken.append("proof obligation: " + str(rep.coverage.get("proof_failure", {}).get("where")))
    if disagreements:
        tie_broken.append("correspondence Portal.run_case vs anyio.from_thread.BlockingPortal")
    if rejected:
        tie_broken.append(f"model rejected {rejected} ops the implementation performed")
    if impl_rejected:
        tie_broken.append(f"the implementation could not perform {impl_rejected} scripted ops")
    if not vm_ok and not disagreements:
        tie_broken.append("vm_compute sample disagrees with extracted model")
    if tie_broken and not monitor_hits and not e2e_hits and not any(m for m, _ in races):
        d = min(disagreements, key=lambda d: len(d["ops"])) if disagreements else None
        rep.violation("; ".join(tie_broken), {"kind": "tie", "broken": tie_broken, "case": d, "vm_log": vm_log[-800:]},
                      no_input=True)

    flags: dict[str, int] = {}
    for r in runs:
        for f in r.flags:
            flags[f] = flags.get(f, 0) + 1
    e2e_flags: dict[str, int] = {}
    for _, _, fl in e2e:
        for f in fl:
            e2e_flags[f] = e2e_flags.get(f, 0) + 1
    interesting = {"future_cancel_in_loop_thread_while_running", "landed_after_loop_end", "cancelled_by_caller_reported", "own_cancel_with_others_in_flight", "two_phase_stop_with_running_calls", "interrupt", "future_cancel_interrupts_task", "land_during_exit_checkpoint", "land_during_exit_wait",
                   "land_refused_group_inactive", "issue_refused_after_stop", "result_dropped_cancelled", "host_rewaits",
                   "future_cancel_after_stop", "started"}
    distinct = len({tuple(c) for c, r in zip(cases, runs) if r.flags & interesting})
    opcount: dict[str, int] = {}
    nsteps = 0
    for r in runs:
        for i in range(0, len(r.ops), 6):
            opcount[OPN[r.ops[i]]] = opcount.get(OPN[r.ops[i]], 0) + 1
            nsteps += 1
    rep.coverage.update({
        "trusted_base": rep.assumptions,
        "model_variant_checked": "init true true true (f4_fixed, fc_fixed, fn_fixed): repairs 08c4569, 2158065 and 56e7f66 are in the tree; "
                                 "the pinned variants exist only for the ..._refuted_pinned witnesses",
        "evaluations": len(runs) + len(e2e),
        "programs": len(runs),
        "steps_compared": nsteps,
        "traces_validated_against_impl": len(runs) - len(disagreements),
        "disagreements_checked": len(disagreements),
        "distinct_nontrivial": distinct,
        "rule": "part (a): random walk over the ops the implementation enables on a SchedLoop-hosted real BlockingPortal "
                "(1-4 calls of kinds sync/coroutine/start_task issued by real helper threads gated at _check_running; "
                "landing, first step, blocking, normal wake, interruption, started(), return/raise incl. BaseException, "
                "reaping, Future.cancel() by a real thread and the landing of its marshalled scope.cancel, stop with/without "
                "cancel_remaining, host exit with/without exception, host resumption), then a deterministic drain; corpus "
                "(F4/F11 witnesses) first; exhaustive enumeration over a reduced alphabet to a fixed depth. "
                "non-trivial = reaches one of " + ", ".join(sorted(interesting)) + ". "
                "part (b): random end-to-end histories on start_blocking_portal() with 2-4 real caller threads, stock loop and uvloop",
        "exhaustive_small_scope_cases": len(ex),
        "corpus_cases": corpus_names,
        "reached": flags,
        "op_distribution": opcount,
        "vm_compute_sample": len(idx),
        "vm_compute_ok": vm_ok,
        "model_rejected_ops": rejected,
        "impl_rejected_ops": impl_rejected,
        "monitor_hits": len(monitor_hits),
        "known_finding_cases": {"F40": n_known},
        "known_finding_example": ({"ncalls": known_example.ncalls, "ops": readable(known_example.ops),
                                   "observed": known_example.known_hits[:2]} if known_example else None),
        "known_finding_e2e": f40_e2e,
        "continuations_explored_around_divergences": explored,
        "phase_seconds": phase_s,
        "e2e": {"scenarios": len(e2e), "backends": backends, "monitor_hits": len(e2e_hits), "reached": e2e_flags,
                "cancel_vs_completion_stress": {
                    "what": "probabilistic detector (preemptive thread interleavings are not in the model): 4 caller threads "
                            "cancel the returned future while the task completes, switch interval 1e-6; a hit is a VIOLATION, "
                            "silence is no proof (hit rate against the tree before 4fd58ee is given in the C15 report)",
                    "runs": [s for _, s in races], "hits": sum(1 for m, _ in races if m)}},
        "samples": [{"ncalls": runs[i].ncalls, "ops": readable(runs[i].ops)[:25], "outs": runs[i].outs[:50]} for i in idx[:2]]
                   + [e2e[0][1]] if e2e else [],
    })
    for need in sorted(interesting | {"answer_falsy_exception", "start_task_falsy_exception_before_started", "loop_end", "cancelled_by_portal_reported", "own_cancel_raise", "own_cancel_awaited_future", "own_cancel_native_task_cancel",
                                      "call_accepted_after_own_cancel", "left", "answer_value", "answer_exception", "answer_cancelled", "stop_cancel_remaining",
                                      "future_cancel_before_first_step", "interrupt_swallowed", "land_after_stop_accepted"}):
        if not flags.get(need):
            rep.notes.append(f"generator self-check: predicate {need} never reached")
    for need in ("loop_thread_cancel_done_callback", "loop_thread_cancel_other_call", "falsy_call", "falsy_soon", "falsy_start_before", "falsy_start_after", "falsy_exception", "kind_plain", "kind_own-worker", "kind_other-worker", "kind_other-worker-own", "cancelled_future_reported", "own_cancel_raise", "own_cancel_await", "own_cancel_native", "probe_before_stop", "two_phase_stop", "refused", "task_cancelled", "future_cancelled", "value", "exception", "started", "cancel_remaining",
                 "finished_after_stop_requested"):
        if not e2e_flags.get(need):
            rep.notes.append(f"e2e generator self-check: predicate {need} never reached")
    return rep.finish()
