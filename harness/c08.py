"""C08 — checkpoint discipline.  Every row of the fast-path table (coq/prims/FastPath.v) is executed for real in a
state in which it can complete without waiting, once in a live scope and once in an already cancelled scope, on the
stock asyncio loop, the eager task factory and uvloop.  Observed: did it raise the cancellation, did the effect
happen, did it yield to the loop before returning.  Compared with the shape model and checked by the property oracle.
The S-machine part (checkpoint / checkpoint_if_cancelled / cancel_shielded_checkpoint inside arbitrary scope trees) is
exercised through the S-machine correspondence with a checkpoint-heavy profile."""

from __future__ import annotations

import asyncio
import random

import core
import scommon
import sgen

DRIVERS = [("fastpath", "FastPath"), ("smachine", "Machine")]

ROWS = {
    1: "sleep(0)", 2: "sleep(-1)", 3: "lowlevel.checkpoint()", 4: "Event.wait() on a set event",
    5: "Lock.acquire() uncontended", 6: "Semaphore.acquire() value>0", 7: "CapacityLimiter.acquire() free token",
    8: "Condition.acquire() uncontended", 9: "Condition.wait() entered in a cancelled scope",
    10: "memory send(), buffer has room", 11: "memory send(), receiver waiting", 12: "memory receive(), buffer has items",
    13: "memory receive(), sender waiting", 14: "to_thread.run_sync()", 15: "TaskHandle.wait() on finished task",
    16: "await TaskHandle of finished task", 17: "Future.wait() on finished future",
    18: "functools.reduce() over a non-empty input with a reducer that never yields", 22: "functools.reduce() with zero callback calls", 19: "await Future (finished)", 20: "await Future (failed)",
    21: "Condition.wait() in a cancelled scope, another task queued on the lock",
    23: "Event created and set outside the loop: wait()", 24: "Lock created outside the loop: acquire()",
    25: "Semaphore created outside the loop: acquire()", 26: "CapacityLimiter created outside the loop: acquire()", 30: "Lock.acquire(fast_acquire=True)", 31: "acquire_nowait()",
}
CHECKED = [1, 2, 3, 4, 5, 6, 7, 8, 10, 11, 12, 13, 14, 15, 16, 17, 18, 19, 20, 22, 23, 24, 25, 26]


async def run_row(row: int, cancelled: bool):
    """Returns (raised, effects, yielded) observed on the real objects."""
    import anyio
    from anyio import (CancelScope, CapacityLimiter, Condition, Event, Lock, Semaphore, create_memory_object_stream,
                       create_task_group, get_cancelled_exc_class, to_thread)
    from anyio.lowlevel import checkpoint

    loop = asyncio.get_running_loop()
    effect = {"n": 0}
    setup_tg = None
    op = None
    check_effect = lambda: 0  # noqa: E731

    lock = sem = lim = cond = ev = None
    if row in (1, 2):
        op = lambda: anyio.sleep(0 if row == 1 else -1)  # noqa: E731
    elif row == 3:
        op = checkpoint
    elif row == 4:
        ev = Event(); ev.set()
        op = ev.wait
    elif row in (5, 30):
        lock = Lock(fast_acquire=(row == 30))
        op = lock.acquire
        check_effect = lambda: int(lock.locked())  # noqa: E731
    elif row == 31:
        lock = Lock()

        async def nowait():
            lock.acquire_nowait()
        op = nowait
        check_effect = lambda: int(lock.locked())  # noqa: E731
    elif row == 23:
        ev = PRE[(row, cancelled)]       # an EventAdapter, set before the loop started, never realised so far
        op = ev.wait
    elif row == 24:
        lock = PRE[(row, cancelled)]
        op = lock.acquire
        check_effect = lambda: int(lock.locked())  # noqa: E731
    elif row == 25:
        sem = PRE[(row, cancelled)]
        op = sem.acquire
        check_effect = lambda: 1 - sem.value  # noqa: E731
    elif row == 26:
        lim = PRE[(row, cancelled)]
        op = lim.acquire
        check_effect = lambda: lim.borrowed_tokens  # noqa: E731
    elif row == 6:
        sem = Semaphore(1)
        op = sem.acquire
        check_effect = lambda: 1 - sem.value  # noqa: E731
    elif row == 7:
        lim = CapacityLimiter(1)
        op = lim.acquire
        check_effect = lambda: lim.borrowed_tokens  # noqa: E731
    elif row == 8:
        cond = Condition()
        op = cond.acquire
        check_effect = lambda: int(cond.locked())  # noqa: E731
    elif row == 9:
        cond = Condition()
        await cond.acquire()
        op = cond.wait
        # effect = the lock was released / a waiter was queued
        check_effect = lambda: int(not cond.locked()) + cond.statistics().tasks_waiting  # noqa: E731
    elif row == 21:
        cond = Condition()
        await cond.acquire()
        setup_tg = create_task_group()
        await setup_tg.__aenter__()
        entered = []

        async def contender():
            await cond.acquire()
            entered.append(1)          # ran inside the critical section
            cond.release()
        setup_tg.start_soon(contender)
        await anyio.wait_all_tasks_blocked()
        op = cond.wait
        # effect = the lock was given up: the queued task got (or was handed) the critical section
        check_effect = lambda: len(entered) + int(cond.statistics().lock_statistics.owner is not None and cond.statistics().lock_statistics.owner.id != id(asyncio.current_task()))  # noqa: E731
    elif row in (10, 12):
        s, r = create_memory_object_stream(2)
        if row == 10:
            op = lambda: s.send(7)  # noqa: E731
            check_effect = lambda: s.statistics().current_buffer_used  # noqa: E731
        else:
            s.send_nowait(7)
            got = []

            async def recv():
                got.append(await r.receive())
            op = recv
            check_effect = lambda: 1 - r.statistics().current_buffer_used  # noqa: E731
    elif row in (11, 13):
        s, r = create_memory_object_stream(0)
        setup_tg = create_task_group()
        await setup_tg.__aenter__()
        box = []
        if row == 11:
            async def peer():
                box.append(await r.receive())
            setup_tg.start_soon(peer)
            await anyio.wait_all_tasks_blocked()
            op = lambda: s.send(7)  # noqa: E731
            check_effect = lambda: 1 - s.statistics().tasks_waiting_receive  # noqa: E731
        else:
            async def peer():
                await s.send(7)
            setup_tg.start_soon(peer)
            await anyio.wait_all_tasks_blocked()

            async def recv():
                box.append(await r.receive())
            op = recv
            check_effect = lambda: 1 - r.statistics().tasks_waiting_send  # noqa: E731
    elif row == 14:
        def fn():
            effect["n"] += 1
            return 5
        op = lambda: to_thread.run_sync(fn)  # noqa: E731
        check_effect = lambda: effect["n"]  # noqa: E731
    elif row in (15, 16):
        setup_tg = create_task_group()
        await setup_tg.__aenter__()

        async def child():
            return 3
        handle = setup_tg.create_task(child())
        await anyio.sleep(0.001)
        if row == 15:
            op = handle.wait
        else:
            async def aw():
                return await handle
            op = aw
    elif row == 17:
        from anyio import Future
        fut = Future()
        fut.return_value = 4
        op = fut.wait
    elif row in (19, 20):
        from anyio import Future
        fut = Future()
        if row == 19:
            fut.return_value = 4
        else:
            fut.exception = ValueError("boom")

        async def aw():
            try:
                return await fut
            except anyio.get_cancelled_exc_class():
                raise
            except BaseException:        # FutureFailed: the future's own outcome, delivered after the checkpoint
                return None
        op = aw
    elif row in (18, 22):
        from anyio.functools import reduce

        async def add(a, b):             # never yields to the event loop
            effect["n"] += 1
            return a + b

        class CountingIter:
            def __init__(self, items):
                self.it = iter(items)

            def __iter__(self):
                return self

            def __next__(self):
                v = next(self.it)        # StopIteration at the end is not a consumption
                effect["n"] += 1
                return v
        src = CountingIter([1, 2, 3] if row == 18 else [])
        op = lambda: reduce(add, src, 5)  # noqa: E731
        check_effect = lambda: int(effect["n"] > 0)  # noqa: E731  (elements consumed or callback calls)

    ran = []
    raised = False
    with CancelScope() as sc:
        if cancelled:
            sc.cancel()
        loop.call_soon(ran.append, 1)
        try:
            await op()
        except get_cancelled_exc_class():
            raised = True
            yielded = bool(ran)
            raise
        yielded = bool(ran)
    if raised:
        yielded = bool(ran)
    eff = check_effect()
    # clean up
    try:
        if row in (5, 24, 30, 31) and lock.locked():
            lock.release()
        if row in (8, 9, 21) and cond.locked():
            cond.release()
    except RuntimeError:
        pass
    if setup_tg is not None:
        setup_tg.cancel_scope.cancel()
        await setup_tg.__aexit__(None, None, None)
    return [int(raised), int(eff), int(yielded)]


PRE: dict = {}


def make_pre(rows):
    """Objects created while NO event loop is running (AnyIO hands out adapter objects then); one per case, as
    realising the adapter is state left behind."""
    import anyio
    PRE.clear()
    for canc in (False, True):
        if 23 in rows:
            ev = anyio.Event(); ev.set()
            PRE[(23, canc)] = ev
        if 24 in rows:
            PRE[(24, canc)] = anyio.Lock()
        if 25 in rows:
            PRE[(25, canc)] = anyio.Semaphore(1)
        if 26 in rows:
            PRE[(26, canc)] = anyio.CapacityLimiter(1)


def run_config(config: str, rows):
    import anyio
    out = {}
    make_pre(rows)

    async def main():
        for row in rows:
            for canc in (False, True):
                if row in (9, 21) and not canc:
                    continue
                try:
                    out[(row, canc)] = await run_row(row, canc)
                except BaseException as e:  # noqa: BLE001
                    out[(row, canc)] = ["error", repr(e)[:200]]

    if config == "asyncio":
        anyio.run(main, backend_options={"use_uvloop": False})
    elif config == "uvloop":
        anyio.run(main, backend_options={"use_uvloop": True})
    else:
        def factory():
            loop = asyncio.new_event_loop()
            loop.set_task_factory(asyncio.eager_task_factory)
            return loop
        anyio.run(main, backend_options={"loop_factory": factory})
    return out


TIE_FILES = ("prims/FastPathGen.v", "prims/FastPathGenEq.v", "prims/LockGen.v", "prims/LockGenEq.v", "prims/SemGen.v",
             "prims/SemGenEq.v", "prims/LimiterGen.v", "prims/LimiterGenEq.v", "prims/CondGen.v", "prims/CondGenEq.v", "prims/MemGen.v", "prims/MemGenEq.v")


def check(tier: str) -> int:
    rep = core.Report("C08", tier)
    rep.assumptions = core.TRUSTED_BASE_COMMON + [
        "the shape table prims/FastPath.v: 13 rows are regenerated from /repo's source on every run by the fail-closed translator tools/translate_fastpath.py; 11 are proved equal to the table, for 2 (row 9 Condition.wait, row 14 to_thread.run_sync) the regenerated entry segment is proved to be a check-first prefix of the table row (FastPathGenEq.v); all rows are additionally validated against the real operations on stock asyncio, eager task factory and uvloop",
        "rows 5-7 (Lock / Semaphore / CapacityLimiter acquire) are ALSO proved on the regenerated code: the entry segments that tools/translate_lock.py / translate_prims.py regenerate on this run, interpreted (LockImp.exec / PrimImp.exec) with the caller's scope effectively cancelled at entry, end at the cancellation check with nothing changed (C08_tie_lock/sem/lim_cancelled_entry_noeffect, C08_tie_cond_wait_cancelled_entry_noeffect for row 9, C08_tie_mem_cancelled_entry_noeffect for rows 10-13 (the first statement of send/receive is a full checkpoint); for the limiter for every state and borrower, the check precedes both RuntimeError tests; since the F53 fix for Lock and Semaphore for every state too: the check is the first statement on both paths, C08_tie_sem_cancelled_entry_check_first / C09_tie_acquire_entry_check_first); these theorems cover the outcome 'the cancellation stays visible until delivered' only, the yield-then-return outcome of the check is modelled in C09 (LockEntry) and C10 (AcqBeginC / CkPass); LockImp / PrimImp / CondImp treat an effect before the check as stuck, MemImp performs it visibly. Trusted there: the translators' mapping and the reading of a fresh checkpoint_if_cancelled() (raises when the scope is effectively cancelled: C08_ckif_suspends_iff_effectively_cancelled, C03_ckif_spin_terminates on the S machine; no-op otherwise)",
        "functools.reduce: rows 18 (non-yielding reducer over a non-empty input) and 22 (zero invocations); before the F22 fix reduce delegated its checkpoint to the awaited callback",
        "states in which the operation must really wait are governed by C03",
    ]
    # tie T: regenerate the shapes (translate_fastpath.py) and the Lock / Semaphore / CapacityLimiter segments
    # (translate_lock.py, translate_prims.py: rows 5-7 are also proved on them, C08_tie_*) from the source under test
    # and rebuild the cone, all under the `tiegen` lock (harness/tiegen.py); a refusal leaves a *Gen.v that does not compile
    import tiegen
    t_rc, t_out, proofs_ok = tiegen.translate_and_prove(
        rep, "props/C08.v", ["translate_fastpath.py", "translate_lock.py", "translate_prims.py", "translate_cond.py", "translate_mem.py"])
    tie_T, tie_T_broken = tiegen.describe(rep, t_rc, t_out, proofs_ok, TIE_FILES)
    tie_T.pop("segments", None)
    rep.coverage["translator"] = "; ".join(tie_T["translator_output"])[-900:]
    rep.coverage["tie_T"] = tie_T
    exe = core.build_driver("fastpath", "FastPath")
    rows = sorted(ROWS)
    cases, expected, meta = [], [], []
    hits = []
    configs = ["asyncio", "eager", "uvloop"]
    per_config = {}
    for cfg in configs:
        obs = run_config(cfg, rows)
        per_config[cfg] = {f"{r}:{int(c)}": v for (r, c), v in obs.items()}
        for (row, canc), v in sorted(obs.items()):
            if v and v[0] == "error":
                hits.append((cfg, row, canc, f"row {row} ({ROWS[row]}) failed to execute on {cfg}: {v[1]}"))
                continue
            cases.append([row, int(canc)])
            expected.append(v)
            meta.append((cfg, row, canc))
            # property oracle (independent of the shape table)
            if row in CHECKED or row in (9, 21):
                if canc:
                    if v[0] != 1:
                        hits.append((cfg, row, canc, f"{ROWS[row]} in an already cancelled scope did not raise the cancellation exception on {cfg}"))
                    if v[1] != 0:
                        hits.append((cfg, row, canc, f"{ROWS[row]} in an already cancelled scope performed its effect ({v[1]}) on {cfg}"))
                elif row in CHECKED:
                    if v[0] != 0:
                        hits.append((cfg, row, canc, f"{ROWS[row]} raised a cancellation in a live scope on {cfg}"))
                    if v[2] != 1:
                        hits.append((cfg, row, canc, f"{ROWS[row]} completed without yielding to the event loop on {cfg}"))
    model = core.run_driver(exe, cases)
    disagreements = [(m, c, e, o) for m, c, e, o in zip(meta, cases, expected, model) if e != o]
    vm_ok, _ = core.coq_eval_cases("c08", "FastPath", cases[:60], [model[i] for i in range(min(60, len(cases)))])

    # S-machine part: checkpoint functions inside arbitrary scope trees
    sexe = core.build_driver(*scommon.DRIVER)
    rng = random.Random(core.seed() * 31 + 8)
    prof = sgen.Profile(yield_=5, ckif=5, shieldck=4, cancel=3.5, newscope=4, shield_prob=0.35, setshield=1.5, sleep=1,
                        gnew=1, spawn=1.5, deadline_prob=0.1)
    runs = []
    import json as _json
    for _f in sorted((core.VERIF / "corpus" / "C08").glob("*.json")):
        _c = _json.loads(_f.read_text())
        if "ops" in _c and not _c.get("real_only"):
            runs.append(sgen.replay(_c["ops"], tolerant=True))       # regression histories of the S part
    n_random = 150 if tier == "quick" else 2500
    for _ in range(n_random):
        try:
            runs.append(sgen.random_run(rng, rng.choice([25, 50, 90]), prof))
        except AssertionError:
            pass
    smodel = core.run_driver(sexe, [w.ops for w in runs], timeout=1500)
    sdis = []
    flags = {}
    shits = []
    for w, m in zip(runs, smodel):
        if m != w.outs:
            si, a, b = sgen.first_diff_step(w, m)
            sdis.append({"ops": w.ops[:(si + 1) * 4], "step": si})
        h = scommon.analyse(w.ops, w.outs)
        for f in h.flags:
            flags[f] = flags.get(f, 0) + 1
        for msg in h.viol.get("C08", []):
            shits.append((w, msg))
            break

    for (cfg, row, canc, msg) in hits[:4]:
        rep.violation(msg, {"kind": "monitor", "config": cfg, "row": row, "row_name": ROWS[row], "cancelled_scope": canc,
                            "observed_raised_effect_yielded": per_config[cfg].get(f"{row}:{int(canc)}")})
    for w, msg in shits[:2]:
        small = scommon.shrink("C08", w.ops)
        rep.violation(msg, {"kind": "monitor", "ops": small, "ops_readable": sgen.readable(small)})
    # itertools clause (props/C08_itertools.v): tee with copy ops against the tee LTS, per-consumer checkpoint monitor,
    # first __anext__ in a cancelled scope, every iterator function on tiny inputs - implemented in harness/c19.py
    import c19
    try:
        it_part = c19.c08_itertools_part(tier)
    except BaseException as e:  # noqa: BLE001  (the implementation misbehaved badly enough to break the scenario runner)
        import traceback
        tb = traceback.format_exc()
        it_part = {"hits": [(f"itertools clause: the scenario runner was aborted by {type(e).__name__}: {e} raised from the code under test",
                             {"kind": "monitor", "what": "exception escaping a cancelled-scope / tee scenario", "traceback_tail": tb[-1500:]})],
                   "coverage": {"aborted": True}, "tie_broken": []}
    for msg, replay in it_part["hits"][:3]:
        rep.violation(msg, replay)
    rep.coverage["itertools_clause"] = it_part["coverage"]

    tie = []
    if not proofs_ok:
        tie.append("proof obligation: " + str(rep.coverage.get("proof_failure", {}).get("where")))
        tie += tie_T_broken
    if disagreements:
        tie.append("shape table FastPath.row_shape vs real operation: " + "; ".join(
            f"{ROWS[m[1]]} ({'cancelled' if m[2] else 'live'}, {m[0]}): observed {e}, shape says {o}" for m, c, e, o in disagreements[:3]))
    if sdis:
        tie.append("correspondence Machine.run_case vs AnyIO on checkpoint-heavy programs")
    tie += it_part["tie_broken"]
    import c08_census
    unplaced, vanished, census_summary = c08_census.census(core.REPO)
    if unplaced:
        tie.append("API census: public awaitables not placed in the C08 table / exemption list: " + ", ".join(unplaced))
    if vanished:
        tie.append("API census: placed operations no longer found in the source: " + ", ".join(vanished))
    if tie and not hits and not shits and not it_part["hits"]:
        rep.violation("; ".join(tie), {"kind": "tie", "broken": tie, "case": (sdis[0] if sdis else None), "tie_T": tie_T}, no_input=True)

    rep.coverage.update({
        "api_census": {"placed": census_summary, "unplaced": unplaced, "vanished": vanished,
                       "rule": "every public async def of " + ", ".join(c08_census.MODULES) + " is a table row, a delegation to one, an exemption named by the property, covered by the itertools clause, or listed as outside the enumerated operations with its reason (harness/c08_census.py)"},
        "trusted_base": rep.assumptions,
        "evaluations": len(cases) + len(runs),
        "programs": len(cases) + len(runs),
        "traces_validated_against_impl": len(cases) - len(disagreements) + len(runs) - len(sdis),
        "disagreements_checked": len(disagreements) + len(sdis),
        "distinct_nontrivial": len({tuple(c) for c in cases}) + len({tuple(w.ops) for w in runs if ("ckif_spin" in scommon.analyse(w.ops, w.outs).flags)}) if tier == "thorough" else len({tuple(c) for c in cases}),
        "exhaustive": True,
        "rule": "table part: every row x {live scope, already cancelled scope} x {asyncio, eager task factory, uvloop}, exhaustively (non-trivial = a row/mode pair); S part: random scope trees with a checkpoint-heavy profile compared step by step with the Coq model",
        "rows": ROWS,
        "observations": per_config,
        "s_machine_runs": len(runs),
        "s_machine_reached": {k: flags.get(k, 0) for k in ("ckif_spin", "ckif_respin", "ckif_spin_released", "ckif_pass", "cancel_delivered")},
        "vm_compute_ok": vm_ok,
        "monitor_hits": len(hits) + len(shits),
        "samples": [{"row": ROWS[r], "cancelled": c, "config": cfg, "raised_effect_yielded": e} for (cfg, r, c), e in list(zip(meta, expected))[:6]],
    })
    return rep.finish()
