"""C09 — Lock: correspondence of prims/Lock.v with anyio.Lock on SchedLoop, plus history monitors.
Tie T: on every run tools/translate_lock.py regenerates coq/prims/LockGen.v from class Lock in the source under
test; LockGenEq.v (in the cone of props/C09.v) proves that interpreting the regenerated segments is Lock.step.  A
refusal of the translator or a failing equality proof is a broken tie: reported with a concrete failing input if the
correspondence run / the monitors find one, otherwise as `no-failing-input-found` naming the theorem and segment."""

from __future__ import annotations

import asyncio
import itertools
import os
import random
import re
import subprocess
import sys
from asyncio import CancelledError

import core
import tiegen

DRIVERS = [("lockentry", "LockEntry")]

OPS = {"AcqBegin": 0, "AcqNowait": 1, "Release": 2, "Resume": 3, "Cancel": 4, "EnterCancelled": 7, "SpinCancel": 8,
       "SpinReturn": 9}
OPN = {v: k for k, v in OPS.items()}


def code_of(outcome) -> int:
    import anyio

    if outcome is None:
        return 5
    kind, val = outcome
    if kind == "ok":
        return 0
    if kind == "blocked":
        return 1
    if isinstance(val, CancelledError):
        return 2
    if isinstance(val, anyio.WouldBlock):
        return 4
    if isinstance(val, RuntimeError):
        return 3
    return 8  # unexpected exception class


class LockRun:
    """Executes a flat op list against a real anyio.Lock; optionally extends it by a random walk."""

    def __init__(self, fast: bool, ntasks: int):
        import anyio
        from puppet import World

        self.anyio = anyio
        self.world = World()
        self.fast = fast
        self.ntasks = ntasks
        self.ops: list[int] = []
        self.outs: list[int] = []
        self.mon: list[str] = []
        # monitor state (history only)
        self.holders: set[int] = set()
        self.waitq: list[int] = []          # tasks blocked in acquire(), in the order they started waiting
        self.cancel_req: set[int] = set()   # waiting tasks for which cancel was requested
        self.flags = set()
        self.ended: set[int] = set()
        self.spinning: set[int] = set()    # tasks inside acquire() entered in an already cancelled scope
        self.spin_native: set[int] = set() # of those: a native Task.cancel() was requested
        self.script: list[int] = []

    def __enter__(self):
        self._sess = self.world.session()
        self._sess.__enter__()
        self.lock = self.anyio.Lock(fast_acquire=self.fast)
        for t in range(1, self.ntasks + 1):
            self.world.spawn(t)
        self.tid_of = {id(p.task): t for t, p in self.world.puppets.items()}
        return self

    def __exit__(self, *a):
        self.world.close()
        self._sess.__exit__(*a)

    # -- state inspection (implementation side, public API only) --
    def observe(self):
        st = self.lock.statistics()
        owner = self.tid_of.get(st.owner.id, 99) if st.owner is not None else 0
        return [1 if self.lock.locked() else 0, owner, st.tasks_waiting]

    def enabled(self):
        en = []
        for t, p in self.world.puppets.items():
            if t in self.ended:
                continue
            if t in self.spinning:
                en.append((8, t))           # the cancellation is delivered: the call raises
                en.append((9, t))           # the check returns after its yield (a shield was raised meanwhile, F46/F53)
                en.append((4, t))           # native Task.cancel() while it sits in the check (`_must_cancel`)
                if self.world.runnable(p):
                    en.append((3, t))       # its own step: raises after a native cancel, spins again otherwise
                continue
            if p.at_decision:
                en += [(0, t), (1, t), (2, t)]
                if len(self.ended) < len(self.world.puppets) - 2:
                    en.append((6, t))
                if not self.spinning:
                    en.append((7, t))       # acquire() inside an already cancelled scope, whatever the lock's state
            else:
                if self.world.runnable(p):
                    en.append((3, t))
                en.append((4, t))
                sc = getattr(p, "sc", None)
                if sc is not None and not sc.cancel_called:
                    en.append((5, t))
        return en

    def do(self, c: int, t: int):
        w = self.world
        lock = self.lock
        self.script += [c, t]          # every operation performed, incl. the harness-only ones (5 = scope cancel of a blocked acquire, mapped to model op 4 or to nothing; 6 = task end, no model op); 7, 8, 9 are the model ops EnterCancelled / SpinCancel / SpinReturn of LockEntry
        before = self.observe()
        if c == 0:
            CancelScope = self.anyio.CancelScope

            async def cmd(p):
                # every acquire() runs in its own cancel scope so that AnyIO cancellation can be aimed at it
                with CancelScope() as sc:
                    p.sc = sc
                    await lock.acquire()
                p.sc = None
                if sc.cancelled_caught:
                    raise CancelledError("absorbed by the call's own scope")
            out = w.act(t, cmd)
        elif c == 1:
            async def cmd(p):
                lock.acquire_nowait()
            out = w.act(t, cmd)
        elif c == 2:
            async def cmd(p):
                lock.release()
            out = w.act(t, cmd)
        elif c == 6:
            # the task's coroutine ends (possibly while holding the lock): nothing about the lock may change, and
            # nobody else may release on its behalf afterwards.  No model op: the model has no notion of task end.
            p = w.puppets[t]
            p.cmdfut.set_result(None)
            w._run_task_handle(p)
            self.ended.add(t)
            self.flags.add("holder_ended" if t in self.holders else "task_ended")
            if self.observe() != before:
                self.mon.append(f"the end of task {t} changed the lock state {before} -> {self.observe()}")
            return
        elif c == 7:
            # model op EnterCancelled: acquire() in an already effectively cancelled scope, whatever the lock's state.
            # Since F53 the call sits in checkpoint_if_cancelled() on BOTH paths until the cancellation is delivered
            # (op 8) or the check returns because the cancelled scope stopped being visible (op 9); meanwhile other
            # tasks act.  Nothing about the lock may change.
            CancelScope = self.anyio.CancelScope

            async def cmd(p):
                with CancelScope() as outer:
                    outer.cancel()
                    with CancelScope() as mid:        # op 9 raises a shield here while the check is yielding
                        p.sc = mid
                        await lock.acquire()
                    p.sc = None
                if outer.cancelled_caught or mid.cancelled_caught:
                    raise CancelledError("absorbed by the call's own scopes")
            out = w.act(t, cmd)
            self.flags.add("acquire_in_cancelled_scope")
            if before != [0, 0, 0]:
                self.flags.add("acquire_in_cancelled_scope_contended")
            if out is not None and out[0] == "blocked":
                self.spinning.add(t)
            if self.observe() != before:
                self.mon.append(f"acquire() by task {t} in an already cancelled scope changed the lock state {before} -> {self.observe()} before raising")
        elif c == 8:
            # model op SpinCancel: deliver the pending cancellation (every non-task callback in the ready queue) and
            # let the task run
            p = w.puppets[t]
            for h in list(w.loop.ready_handles()):
                if not isinstance(getattr(h._callback, "__self__", None), asyncio.Task):
                    w.loop.run_handle(h)
            out = None
            for _ in range(6):
                out = w.resume(t)
                if p.at_decision:
                    break
                for h in list(w.loop.ready_handles()):
                    if not isinstance(getattr(h._callback, "__self__", None), asyncio.Task):
                        w.loop.run_handle(h)
            self.spinning.discard(t)
            if not p.at_decision:
                self.mon.append(f"acquire() by task {t} in an already cancelled scope was not interrupted within 6 cycles")
            elif code_of(out) != 2:
                self.mon.append(f"acquire() by task {t} in an already cancelled scope ended with {out} instead of the cancellation")
            if before[1] != t and (t in self.holders or self.observe()[1] == t):
                self.mon.append(f"acquire() by task {t} in an already cancelled scope left the task holding the lock")
            if self.observe() != before:
                self.mon.append(f"the cancelled acquire() of task {t} changed the lock state {before} -> {self.observe()}")
        elif c == 9:
            # model op SpinReturn: while the check yields, another task shields the scope between the caller and the
            # cancelled one: the cancellation is no longer visible, the delivery finds nobody, the check returns and
            # acquire() goes on as an ordinary call - on the lock as it is NOW
            p = w.puppets[t]
            p.sc.shield = True
            for h in list(w.loop.ready_handles()):
                if not isinstance(getattr(h._callback, "__self__", None), asyncio.Task):
                    w.loop.run_handle(h)
            out = w.resume(t)
            self.spinning.discard(t)
            self.flags.add("check_yielded_and_returned")
            if before[0] == 1 or before[2] > 0:
                self.flags.add("check_returned_to_contended_lock")
        elif c == 3:
            out = w.resume(t)
        elif c == 5:
            # AnyIO cancellation of the scope around the blocked acquire(): by the model's claim it is either the
            # same as Task.cancel() on a pending waiter, or (waiter done / shielded yield) it does nothing now
            p = w.puppets[t]
            fw = getattr(p.task, "_fut_waiter", None)
            pending = fw is not None and not fw.done()
            p.sc.cancel()
            self.flags.add("scope_cancel_pending" if pending else "scope_cancel_deferred")
            if not pending:
                if self.observe() != before:
                    self.mon.append(f"scope cancellation of task {t} whose waiter is not pending changed the lock state")
                return
            c = 4
            out = None
        else:
            w.puppets[t].task.cancel()
            out = None
        k = code_of(out)
        after = self.observe()
        self.ops += [c, t]
        self.outs += [k] + after
        if t in self.spinning and c in (3, 4):
            # done TO a task that sits in the entry check of acquire(): nothing about the lock may move
            native = t in self.spin_native
            if c == 4:
                self.spin_native.add(t)
                self.flags.add("native_cancel_in_entry_check")
            else:
                want = 2 if native else 1
                if k != want:
                    self.mon.append(f"step of task {t} in its entry check ({'native cancel pending' if native else 'cancellation still visible'}): res {k}, expected {want}")
                if k != 1:
                    self.spinning.discard(t)
                    self.spin_native.discard(t)
                self.flags.add("entry_check_raised_native" if native else "entry_check_spins")
            if after != before:
                self.mon.append(f"op {c} on task {t} (acquire() suspended in its cancellation check) changed the lock state {before} -> {after}")
            return
        if c == 9 and t in self.spin_native:
            self.spin_native.discard(t)
            if k != 2:
                self.mon.append(f"task {t}: native cancel pending at the entry check's yield, but acquire() went on (res {k})")
        if c == 8:
            self.spin_native.discard(t)
        self.monitor(c, t, k, before, after)

    # -- property monitors on the observable history (independent of the model) --
    def monitor(self, c, t, k, before, after):
        acquired = (c in (0, 1, 3, 9)) and k == 0
        if c in (0, 9) and k == 1 and (before[0] == 1 or before[2] > 0):
            # really waiting (contended) - as opposed to the uncontended shielded yield
            if before[0] == 1 or before[2] > 0:
                self.waitq.append(t)
                self.flags.add("contended_wait")
        if c == 4 and t in self.waitq:
            self.cancel_req.add(t)
            self.flags.add("cancel_waiter")
            if after[1] == t:
                self.flags.add("cancel_after_handoff")
        if acquired:
            if self.holders:
                self.mon.append(f"mutual exclusion: acquire returned to {t} while {sorted(self.holders)} hold")
            if after[1] != t:
                self.mon.append(f"acquire returned to {t} but owner is {after[1]}")
            if c in (0, 1, 9) and before[2] > 0:
                self.mon.append(f"barging: uncontended-path acquisition by {t} with {before[2]} waiters queued")
            if c in (0, 1, 9) and before[0] == 1:
                self.mon.append(f"acquisition by {t} of a locked lock")
            self.holders.add(t)
        if c in (0, 9) and k == 1 and before[0] == 0 and before[2] == 0:
            self.flags.add("fastpath_yield")
        if c == 3 and t in self.waitq and k in (0, 2, 3):
            self.waitq.remove(t)
            if k == 2 and t not in self.cancel_req:
                self.mon.append(f"waiter {t} got CancelledError without a cancel request")
            if k == 0 and t in self.cancel_req:
                self.flags.add("cancel_lost_race")  # future cancelled? then it cannot return normally
                self.mon.append(f"cancelled waiter {t} ended up holding the lock")
            self.cancel_req.discard(t)
        if c == 2:
            if k == 0:
                if t not in self.holders:
                    self.mon.append(f"release by non-holder {t} accepted")
                self.holders.discard(t)
            elif k == 3 and t in self.holders:
                self.mon.append(f"release by holder {t} refused")
        if c in (0, 1, 9) and k == 3 and t not in self.holders:
            self.mon.append(f"acquire by {t} raised RuntimeError although it does not hold the lock")
        # hand-off order: whenever ownership moves to a queued waiter it must be the first live one
        if after[1] != before[1] and after[1] in self.waitq and after[1] not in self.holders:
            w = after[1]
            idx = self.waitq.index(w)
            earlier = [x for x in self.waitq[:idx] if x not in self.cancel_req]
            if earlier:
                self.mon.append(f"FIFO: lock handed to {w} while earlier live waiters {earlier} queue")
            self.flags.add("handoff")
        if self.holders and after[1] not in self.holders and after[1] != 0:
            self.mon.append(f"two holders: the lock records owner {after[1]} while {sorted(self.holders)} hold it")
        if after[0] == 0 and after[2] > 0:
            self.mon.append(f"free lock with {after[2]} waiting tasks")
        if after[0] == 0 and self.holders:
            self.mon.append(f"lock reports unlocked while {sorted(self.holders)} hold it")

    def quiesce(self):
        """Drive every task to its decision point and release everything: the lock must end up pristine."""
        refused: set[int] = set()
        for _ in range(200):
            progressed = False
            for t, p in self.world.puppets.items():
                if t in self.ended:
                    continue
                if t in self.spinning:
                    self.do(8, t)
                    progressed = True
                elif not p.at_decision:
                    if self.world.runnable(p):
                        self.do(3, t)
                        progressed = True
                else:
                    if t in self.holders and t not in refused:
                        n = len(self.mon)
                        self.do(2, t)
                        progressed = True
                        if t in self.holders:          # the release was refused (already reported by the monitor)
                            refused.add(t)
                            del self.mon[n + 1:]
            if not progressed:
                blocked = [t for t, p in self.world.puppets.items() if not p.at_decision and t not in self.ended]
                if not blocked:
                    break
                self.do(4, blocked[0])
        obs = self.observe()
        if obs != [0, 0, 0] and not (self.holders & self.ended):
            self.mon.append(f"not pristine after everyone released: locked/owner/waiters={obs}")
        if self.world.loop.errors:
            self.mon.append(f"loop errors: {self.world.loop.errors[:2]}")


def run_script(fast: bool, ntasks: int, flat_ops: list[int], quiesce=True):
    with LockRun(fast, ntasks) as r:
        for i in range(0, len(flat_ops), 2):
            if (flat_ops[i], flat_ops[i + 1]) not in r.enabled():
                # a stored script on a tree that behaves differently: stop, the monitors have seen what happened so far
                r.mon.append(f"stored script: step {i // 2} {(flat_ops[i], flat_ops[i + 1])} cannot be performed "
                             "(the task's state differs from the recorded run)")
                break
            r.do(flat_ops[i], flat_ops[i + 1])
        r.enabled_at_end = r.enabled()
        if quiesce:
            r.quiesce()
        return r


def random_case(rng: random.Random, nsteps: int):
    fast = rng.random() < 0.35
    ntasks = rng.choice([2, 3, 3, 4, 5])
    weights = {0: 5, 1: 1.2, 2: 3, 3: 5, 4: rng.choice([0.5, 2, 4]), 5: rng.choice([0.5, 2, 3]), 6: rng.choice([0, 0.15, 0.4]),
               7: rng.choice([0, 0.6, 1.5]), 8: 1.0, 9: rng.choice([0.5, 1.0, 2.0])}
    with LockRun(fast, ntasks) as r:
        for _ in range(nsteps):
            en = r.enabled()
            if not en:
                break
            # bias: release only makes sense mostly for holders; keep some misuse
            ws = []
            for (c, t) in en:
                w = weights[c]
                if c == 2 and t not in r.holders:
                    w *= 0.15
                if c in (0, 1) and t in r.holders:
                    w *= 0.15
                ws.append(w)
            c, t = rng.choices(en, ws)[0]
            r.do(c, t)
        r.quiesce()
        return r


def exhaustive_cases(ntasks: int, depth: int, fast: bool):
    """All op sequences up to `depth` that the implementation enables (DFS by replay)."""
    results = []

    def rec(prefix):
        r = run_script(fast, ntasks, prefix, quiesce=True)
        en = r.enabled_at_end
        if len(prefix) // 2 >= depth:
            results.append(r)
            return
        for (c, t) in en:
            # symmetry reduction: a fresh task id may only be the smallest unused one
            used = set(prefix[1::2])
            if t not in used and t != min(set(range(1, ntasks + 1)) - used, default=t):
                continue
            rec(prefix + [c, t])

    rec([])
    return results


TIE_FILES = ("prims/LockGen.v", "prims/LockGenEq.v")
TIE_HELPERS = {"poploop_handoff": "release_entry / release_loop_body", "exec_release": "release_entry",
               "exec_call_release": "release_entry"}


def check(tier: str) -> int:
    rep = core.Report("C09", tier)
    rep.assumptions = core.TRUSTED_BASE_COMMON + [
        "model prims/Lock.v hand-written from class Lock in _asyncio.py, extended by prims/LockEntry.v with acquire() calls made from an already effectively cancelled scope (ops EnterCancelled / SpinCancel / SpinReturn: the check may yield and return, F46/F53; the run is compared through LockEntry.run_case, codes 0-4 as in Lock.v); cancellation modelled as native Task.cancel() on blocked tasks (superset of what AnyIO scope delivery does to a blocked task)",
        "tie T: tools/translate_lock.py (python ast -> coq/prims/LockGen.v, fail-closed grammar in its docstring) regenerates the segments of Lock.acquire/acquire_nowait/release/locked on every run and prims/LockGenEq.v proves their interpretation (prims/LockImp.v: exec) equal to Lock.step for all states and tasks. Trusted in it: the translator's mapping of Python constructs to LockImp statements, the cutting of acquire() at its awaits into entry/continuation segments, CPython's await/exception semantics at the cut points (which continuation runs, locals persist: LockImp.gstep), and the reading of checkpoint_if_cancelled() at the start of an uncontended acquire as a no-op when the caller's scope is not cancelled (C08 covers the cancelled case). The translator is not the only tie: the same model is co-simulated against the running code below",
        "callers without a current task (outside C09's quantification, recorded only; hunt/round2/E/2): Lock.acquire_nowait() / release() called from a context that has no current task - from_thread.run_sync(lock.acquire_nowait), loop.call_soon callbacks - succeed without locking (two holders, silently); every model op has a task as its actor and every C09 history consists of tasks of one event loop",
    ]
    # tie T: regenerate the segments from the source under test, then rebuild the cone (LockGen, LockGenEq, props/C09);
    # both under the `tiegen` lock so that a concurrent check against another tree cannot swap the generated file
    t_rc, t_out, proofs_ok = tiegen.translate_and_prove(rep, "props/C09.v", "translate_lock.py")
    tie_T, tie_T_broken = tiegen.describe(rep, t_rc, t_out, proofs_ok, TIE_FILES, TIE_HELPERS)
    tie_T["translator"] = "tools/translate_lock.py (python ast -> coq/prims/LockGen.v, fail closed)"
    tie_T["equality_theorems"] = "LockGenEq.v: tie_acquire_entry, tie_acquire_nowait, tie_release, tie_acquire_yield_resumed, tie_acquire_yield_cancelled, tie_acquire_wait_resumed, tie_acquire_wait_cancelled, tie_locked, gstep_eq_step (+ *_spec forms, props C09_tie_*)"
    rep.coverage["tie_T"] = tie_T
    exe = core.build_driver("lockentry", "LockEntry")

    rng = random.Random(core.seed())
    runs = []
    # corpus first
    import json
    corpus_dir = core.VERIF / "corpus" / "C09"
    for f in sorted(corpus_dir.glob("*.json")):
        c = json.loads(f.read_text())
        runs.append(run_script(bool(c["fast"]), c["ntasks"], c["ops"]))
    n_corpus = len(runs)
    n_random = 400 if tier == "quick" else 6000
    for i in range(n_random):
        runs.append(random_case(rng, rng.choice([6, 10, 16, 24, 40])))
    exhaustive = None
    if tier == "thorough":
        ex = exhaustive_cases(3, 6, False) + exhaustive_cases(3, 5, True)
        exhaustive = len(ex)
        runs += ex
    else:
        ex = exhaustive_cases(2, 5, False)
        exhaustive = len(ex)
        runs += ex

    cases = [[1 if r.fast else 0] + r.ops for r in runs]
    expected = [r.outs for r in runs]
    model_outs = core.run_driver(exe, cases)
    disagreements = []
    for r, c, e, m in zip(runs, cases, expected, model_outs):
        if e != m:
            # first differing step
            k = next((i for i in range(min(len(e), len(m))) if e[i] != m[i]), min(len(e), len(m)))
            disagreements.append({"fast": r.fast, "ntasks": r.ntasks, "ops": r.ops, "impl": e, "model": m,
                                  "first_diff_step": k // 4})
    rejected = sum(1 for m in model_outs for i in range(0, len(m), 4) if m[i] == 9)
    monitor_hits = [(r, msg) for r in runs for msg in r.mon]

    # kernel-checked sample
    sample_n = 60 if tier == "quick" else 400
    idx = list(range(len(cases)))
    rng.shuffle(idx)
    idx = idx[:sample_n]
    vm_ok, vm_log = core.coq_eval_cases("c09", "LockEntry", [cases[i] for i in idx], [expected[i] for i in idx])

    # ---- decide ----
    # one report per failing run (its first message is the headline), shortest scripts first, distinct headlines first
    bad_runs = sorted((r for r in runs if r.mon), key=lambda r: len(r.script))
    seen_heads, picked = set(), []
    for r in bad_runs:
        head = "".join(ch for ch in r.mon[0] if not ch.isdigit())
        if head not in seen_heads:
            seen_heads.add(head)
            picked.append(r)
    for r in picked[:5]:
        rep.violation(r.mon[0], {"kind": "monitor", "fast": r.fast, "ntasks": r.ntasks, "ops": r.ops, "script": r.script,
                                 "monitor_messages": r.mon[:8],
                                 "ops_readable": [(OPN[r.ops[i]], r.ops[i + 1]) for i in range(0, len(r.ops), 2)]})
    tie_broken = []
    if not proofs_ok:
        tie_broken.append("proof obligation: " + str(rep.coverage.get("proof_failure", {}).get("where")))
        tie_broken += tie_T_broken
    if disagreements:
        tie_broken.append("correspondence LockEntry.run_case vs anyio.Lock")
    if rejected:
        tie_broken.append(f"model rejected {rejected} ops the implementation performed")
    if not vm_ok and not disagreements:
        tie_broken.append("vm_compute sample disagrees with extracted model")
    if tie_broken and not monitor_hits:
        d = min(disagreements, key=lambda d: len(d["ops"])) if disagreements else None
        rep.violation("; ".join(tie_broken), {"kind": "tie", "broken": tie_broken, "case": d, "tie_T": tie_T}, no_input=True)

    flags = {}
    for r in runs:
        for f in r.flags:
            flags[f] = flags.get(f, 0) + 1
    distinct = len({tuple(c) for c, r in zip(cases, runs) if r.flags & {"contended_wait", "cancel_waiter", "handoff"}})
    opcount = {}
    for r in runs:
        for i in range(0, len(r.ops), 2):
            opcount[OPN[r.ops[i]]] = opcount.get(OPN[r.ops[i]], 0) + 1
    rep.coverage.update({
        "trusted_base": rep.assumptions,
        "evaluations": len(runs),
        "programs": len(runs),
        "traces_validated_against_impl": len(runs) - len(disagreements),
        "disagreements_checked": len(disagreements),
        "distinct_nontrivial": distinct,
        "rule": "random walk over the ops the implementation enables (idle task: acquire/acquire_nowait/release, task end, acquire inside an already cancelled scope - at most one such spinning call at a time; blocked task: resume if its wake-up is queued, native cancel, scope cancel; spinning call: cancellation delivered or check returns after a shield was raised), 2-5 tasks, fast_acquire on/off, then quiescence; plus exhaustive enumeration of all enabled op sequences to a fixed depth; non-trivial = reaches a contended wait, a cancelled waiter or a hand-off",
        "exhaustive_small_scope_cases": exhaustive,
        "corpus_cases": n_corpus,
        "reached": flags,
        "op_distribution": opcount,
        "vm_compute_sample": len(idx),
        "vm_compute_ok": vm_ok,
        "model_rejected_ops": rejected,
        "monitor_hits": len(monitor_hits),
        "samples": [{"fast": runs[i].fast, "ops": [(OPN[runs[i].ops[j]], runs[i].ops[j + 1]) for j in range(0, len(runs[i].ops), 2)][:30],
                     "outs": runs[i].outs[:40]} for i in idx[:2]],
    })
    for need in ("contended_wait", "cancel_waiter", "handoff", "cancel_after_handoff", "fastpath_yield", "scope_cancel_pending", "scope_cancel_deferred",
                 "acquire_in_cancelled_scope", "acquire_in_cancelled_scope_contended", "check_yielded_and_returned",
                 "check_returned_to_contended_lock"):
        if not flags.get(need):
            rep.notes.append(f"generator self-check: predicate {need} never reached")
    return rep.finish()


def replay(path: str) -> int:
    import json
    d = json.load(open(path))
    if d.get("kind") == "tie" and not d.get("case"):
        # a broken tie without a failing input: re-run the translator and the proof cone, report what fails now
        with core.locked("tiegen"):
            p = subprocess.run([sys.executable, str(core.VERIF / "tools" / "translate_lock.py")],
                               env=dict(os.environ, VERIF_REPO=str(core.REPO)), stdout=subprocess.PIPE,
                               stderr=subprocess.STDOUT, text=True, timeout=120)
            ok, log = core.coq_make(["props/C09.vo"])
        t_rc, t_out = p.returncode, p.stdout.strip()
        print("\n".join(t_out.splitlines()[:1]))
        print("BROKEN (recorded):", "; ".join(d.get("broken", [])))
        print("proof cone now:", "ok" if ok else "FAILS " + " ".join(re.findall(r'File "\./([^"]+)", line (\d+)', log)[:1] and
                                                                   ["%s:%s" % re.findall(r'File "\./([^"]+)", line (\d+)', log)[0]]))
        return 0 if (ok and t_rc == 0) else 1
    c = d.get("case") or d
    r = run_script(bool(c.get("fast")), c.get("ntasks", 5), c.get("script") or c["ops"], quiesce=not c.get("script"))
    # the same op list through the extracted model LockEntry.run_case, step by step next to the implementation
    exe = core.build_driver("lockentry", "LockEntry")
    m = core.run_driver(exe, [[1 if r.fast else 0] + r.ops])[0]
    differ = False
    for i in range(0, len(r.ops), 2):
        impl, mod = r.outs[i * 2:i * 2 + 4], m[i * 2:i * 2 + 4]
        differ = differ or impl != mod
        print(OPN[r.ops[i]], r.ops[i + 1], "impl", impl, "model", mod, "" if impl == mod else "   <-- differ")
    for msg in r.mon:
        print("MONITOR:", msg)
    print("model agrees with the implementation on this case" if not differ else "MODEL AND IMPLEMENTATION DIFFER")
    return 1 if (r.mon or differ) else 0
