"""C11 — Event and Condition: correspondence of prims/EventCond.v with anyio.Event / anyio.Condition on SchedLoop,
plus model-independent monitors (a queue automaton driven by the observed history).

Case format (shared with EventCond.run_case):  [machine, fast, variant] + (code, task, a, b)*
  machine 0 = Event      codes: 0 wait, 1 set, 3 resume, 4 native cancel, 8 scope cancel
  machine 1 = Conditions on one shared Lock (a = condition index)
                         codes: 0 cond.acquire, 1 cond.acquire_nowait, 2 cond.release, 3 resume, 4 native cancel,
                                5 cond.notify(b), 6 cond.notify_all, 7 cond.wait, 8 scope cancel,
                                9 lock.acquire, 10 lock.acquire_nowait, 11 lock.release (directly on the shared lock)
Observation per step:  Event [kind, is_set, tasks_waiting]
                       Condition [kind, tasks_waiting of cond 0,1,2, locked, owner, lock waiters, late_handover]
                       (late_handover: 1 iff this step hands a notification to a waiter younger than it - the
                        model's predicate vs. the queue automaton's verdict on the observed history)

Known finding F18 (`late_handover`): a cancelled-and-notified waiter hands its notification to the head of the
queue when it resumes, which may be a task that began to wait after the notify call.  The queue automaton stamps
every wait() with a ticket and every notification with the number of waits started before its notify call; a
wait() that returns on a notification older than its own ticket is reported as KNOWN-FINDING, never as VIOLATION.
"""

from __future__ import annotations

import json
import os
import random
import time
from asyncio import CancelledError, current_task

import core
import tiegen

DRIVERS = [("eventcond", "EventCond")]

EOPN = {0: "EvWait", 1: "EvSet", 3: "EvResume", 4: "EvCancel", 8: "EvScopeCancel"}
COPN = {0: "Acquire", 1: "AcqNowait", 2: "Release", 3: "Resume", 4: "Cancel", 5: "Notify", 6: "NotifyAll",
        7: "Wait", 8: "ScopeCancel", 9: "LockAcquire", 10: "LockAcqNowait", 11: "LockRelease"}
NCONDS = 3
KNOWN_FINDINGS_PATH = os.environ.get("VERIF_KNOWN_FINDINGS", str(core.VERIF / "known_findings.json"))


def load_known_findings() -> dict:
    """predicate -> (id, what) for the entries of known_findings.json (read only, single source) with
    status == "known" and property == "C11".  A predicate that is not listed there is NOT a known finding: its
    monitor hits are ordinary violations."""
    try:
        data = json.loads(open(KNOWN_FINDINGS_PATH).read())
    except Exception:  # noqa: BLE001
        return {}
    out = {}
    for f in data.get("findings", []):
        if f.get("status") == "known" and f.get("property") == "C11":
            pred = (f.get("match") or {}).get("predicate")
            if pred:
                out[pred] = (f.get("id", "?"), f.get("what", ""))
    return out


KNOWN = load_known_findings()

# description used in the evidence only; the KNOWN-FINDING line is printed from known_findings.json
F18_WHAT = ("Condition.wait(): a cancelled-and-notified waiter passes its notification to the head of the queue when "
            "it resumes, which can be a task that started waiting after the notify call - that task's wait() returns "
            "although no notification issued at or after its start selected it (F18, late_handover)")

SCOPE_CANCELLED = "scope-cancelled"


class Invalid(Exception):
    """The op cannot be performed in the current implementation state (used while shrinking)."""


def code_of(outcome) -> int:
    import anyio

    if outcome is None:
        return 5
    kind, val = outcome
    if kind == "ok":
        return 2 if val is SCOPE_CANCELLED else 0
    if kind == "blocked":
        return 1
    if isinstance(val, CancelledError):
        return 2
    if isinstance(val, anyio.WouldBlock):
        return 4
    if isinstance(val, RuntimeError):
        return 3
    return 8  # unexpected exception class


def scoped(fn):
    """Run the blocking call `fn` inside a fresh AnyIO CancelScope owned by the puppet, so that the harness can
    cancel it the AnyIO way (op 8) as well as natively (op 4)."""
    import anyio

    async def cmd(p):
        with anyio.CancelScope() as sc:
            p.scope = sc
            try:
                await fn()
            finally:
                p.scope = None
        if sc.cancelled_caught:
            t = current_task()
            while t.cancelling():
                t.uncancel()
            return SCOPE_CANCELLED
        return None

    return cmd


def readable_ops(machine, ops):
    names = EOPN if machine == 0 else COPN
    out = []
    for i in range(0, len(ops), 4):
        c, t, a, b = ops[i:i + 4]
        if machine == 0 or c in (3, 4, 8, 9, 10, 11):
            out.append((names.get(c, "?"), t))
        elif c == 5:
            out.append((names[c], t, f"cond{a}", b))
        else:
            out.append((names.get(c, "?"), t, f"cond{a}"))
    return out


class BaseRun:
    machine = -1
    width = 0

    def __init__(self, ntasks: int):
        import anyio
        from puppet import World

        self.anyio = anyio
        self.world = World()
        self.ntasks = ntasks
        self.ops: list[int] = []
        self.outs: list[int] = []
        self.mon: list[str] = []
        self.hits: list[tuple[str, str]] = []      # (kind, message); kind 'late_handover' = known finding F18
        self.flags: set[str] = set()
        self.exempt = False          # a native cancel landed inside Condition.wait()'s shielded re-acquire
        self.enabled_at_end = []

    outside = False      # create the primitive while NO event loop is running: anyio returns EventAdapter / LockAdapter

    def __enter__(self):
        if self.outside:
            self.create()            # no running loop here
            self.pre_loop()
        self._sess = self.world.session()
        self._sess.__enter__()
        if not self.outside:
            self.create()
        self.setup()
        for t in range(1, self.ntasks + 1):
            p = self.world.spawn(t)
            p.scope = None
        self.tid_of = {id(p.task): t for t, p in self.world.puppets.items()}
        self.ptasks = {p.task for p in self.world.puppets.values()}
        return self

    def __exit__(self, *a):
        self.world.close()
        self._sess.__exit__(*a)
        # the finished run keeps only its recorded history (ops, outs, monitor messages, flags)
        self.world = self._sess = self.ptasks = self.tid_of = None
        self.conds = self.lock = self.ev = None

    def pre_loop(self):
        pass

    def run_env_handles(self):
        """Run, once, every ready handle that is not a puppet's step/wake-up (cancel-scope delivery retries)."""
        loop = self.world.loop
        for h in list(loop.ready_handles()):
            if getattr(h._callback, "__self__", None) not in self.ptasks and h in loop._ready:
                loop.run_handle(h)

    def runnable(self, t) -> bool:
        return self.world.runnable(self.world.puppets[t])

    def case(self):
        return [self.machine, 1 if getattr(self, "fast", False) else 0, 0] + self.ops

    def readable(self):
        return readable_ops(self.machine, self.ops)

    def hit(self, kind, msg):
        m = f"step {len(self.ops) // 4}: {msg}"
        self.mon.append(m)
        self.hits.append((kind, m))

    def note(self, msg):
        self.hit("other", msg)

    def unexplained(self):
        """Monitor messages that are not instances of a known finding."""
        return [m for (k, m) in self.hits if k not in KNOWN]

    def known_classes(self):
        return {KNOWN[k][0] for (k, _) in self.hits if k in KNOWN}


# =====================================================================================================
#  Event
# =====================================================================================================
class EventRun(BaseRun):
    machine = 0
    width = 3

    def __init__(self, ntasks: int, outside: bool = False, preset: bool = False):
        super().__init__(ntasks)
        self.outside = outside
        self.preset = preset and outside     # set() called before the loop starts
        self.set_called = False
        self.was_set = False
        self.st = {}          # t -> dict(kind='yield'|'waiting', cancel=bool, released=bool)

    def create(self):
        self.ev = self.anyio.Event()
        if self.outside:
            self.flags.add("event_created_outside_loop")
            if type(self.ev).__name__ != "EventAdapter":
                self.note(f"Event() without a running loop returned {type(self.ev).__name__}, not the adapter")

    def pre_loop(self):
        if self.preset:
            self.do(1, 0)        # task 0 = the program outside the loop
            self.flags.add("set_before_loop")

    def setup(self):
        pass

    def observe(self):
        return [1 if self.ev.is_set() else 0, self.ev.statistics().tasks_waiting]

    def enabled(self):
        en = []
        for t, p in self.world.puppets.items():
            if p.at_decision:
                en += [(0, t, 0, 0), (1, t, 0, 0)]
            else:
                if self.world.runnable(p):
                    en.append((3, t, 0, 0))
                en.append((4, t, 0, 0))
                if p.scope is not None:
                    en.append((8, t, 0, 0))
        return en

    def do(self, c, t, a=0, b=0):
        w = self.world
        ev = self.ev
        if t == 0:
            # set() from outside any task (before the loop starts, or from a callback of the harness)
            if c != 1:
                raise Invalid
            before = self.observe()
            try:
                ev.set()
                out = ("ok", None)
            except BaseException as e:  # noqa: BLE001
                out = ("exc", e)
            if w.loop._ready:
                self.run_env_handles()
            k = code_of(out)
            after = self.observe()
            self.ops += [c, t, 0, 0]
            self.outs += [k] + after
            self.monitor(c, t, k, before, after)
            return
        p = w.puppets.get(t)
        if p is None:
            raise Invalid
        before = self.observe()
        if c in (0, 1):
            if not p.at_decision:
                raise Invalid
            if c == 0:
                out = w.act(t, scoped(lambda: ev.wait()))
            else:
                async def cmd(p):
                    ev.set()
                out = w.act(t, cmd)
        elif c == 3:
            if p.at_decision or not w.runnable(p):
                raise Invalid
            out = w.resume(t)
        elif c == 4:
            if p.at_decision:
                raise Invalid
            p.task.cancel()
            out = None
        elif c == 8:
            if p.at_decision or p.scope is None:
                raise Invalid
            p.scope.cancel()
            out = None
        else:
            raise Invalid
        self.run_env_handles()
        k = code_of(out)
        after = self.observe()
        self.ops += [c, t, 0, 0]
        self.outs += [k] + after
        self.monitor(c, t, k, before, after)

    # ---- monitors: written against the observable history only ----
    def monitor(self, c, t, k, before, after):
        if c == 1:
            if k != 0:
                self.note(f"set() by {t} ended with kind {k}")
            if self.outside:
                self.flags.add("adapter_set_after_first_wait" if getattr(self, "waited", False)
                               else "adapter_set_before_first_wait")
                if getattr(self, "waited", False) and not self.st:
                    self.flags.add("adapter_set_after_abandoned_wait")
            self.set_called = True
            for x, e in self.st.items():
                if e["kind"] == "waiting":
                    e["released"] = True
                    self.flags.add("set_with_waiters")
                    if e["cancel"]:
                        self.flags.add("set_after_cancel_same_cycle")
        if c == 0:
            self.waited = True
            if k == 0 and not self.set_called:
                self.note(f"early wake-up: wait() returned to {t} although set() was never called")
            if k == 1:
                if before[0]:
                    self.st[t] = {"kind": "yield", "cancel": False, "released": True}
                    self.flags.add("wait_on_set_event")
                else:
                    self.st[t] = {"kind": "waiting", "cancel": False, "released": False}
                    self.flags.add("wait_on_unset_event")
            elif k not in (0,):
                self.note(f"wait() by {t} ended at once with kind {k}")
        if c == 4 and t in self.st:
            self.st[t]["cancel"] = True
            self.flags.add("cancel_after_set" if self.st[t]["released"] else "cancel_before_set")
        if c == 8 and t in self.st:
            e = self.st[t]
            if e["kind"] == "yield" or not e["released"]:
                if not e["cancel"]:
                    self.flags.add("scope_cancel_effective")
                e["cancel"] = True
            else:
                self.flags.add("scope_cancel_after_release")
        if c == 3 and t in self.st:
            e = self.st.pop(t)
            if k == 0:
                if not self.set_called:
                    self.note(f"early wake-up: wait() returned to {t} although set() was never called")
                if not e["released"]:
                    self.note(f"spurious wake-up: wait() returned to {t} which was not released by set()")
                if e["cancel"]:
                    self.note(f"cancelled waiter {t} returned normally")
                self.flags.add("wait_returned")
            elif k == 2:
                if not e["cancel"]:
                    self.note(f"waiter {t} got CancelledError without a cancel request")
                self.flags.add("wait_cancelled")
            else:
                self.note(f"wait() of {t} ended with kind {k}")
        # global checks after every step
        if self.was_set and not after[0]:
            self.note("a set event became unset")
        if after[0]:
            self.was_set = True
        if bool(after[0]) != self.set_called:
            self.note(f"is_set()={after[0]} but set() {'was' if self.set_called else 'was not'} called")
        nwait = sum(1 for e in self.st.values() if e["kind"] == "waiting")
        if after[1] != nwait:
            self.note(f"statistics().tasks_waiting={after[1]} but {nwait} tasks are suspended in wait() on the unset event")
        for x, e in self.st.items():
            should = e["released"] or e["cancel"]
            if self.runnable(x) != should:
                if should:
                    self.note(f"lost wake-up: task {x} should have been released (released={e['released']}, cancel={e['cancel']}) but is not runnable")
                else:
                    self.note(f"spurious wake-up: task {x} is runnable although set() was not called and it was not cancelled")

    def quiesce(self):
        for _ in range(200):
            progressed = False
            for t, p in self.world.puppets.items():
                if not p.at_decision and self.world.runnable(p):
                    self.do(3, t)
                    progressed = True
            if progressed:
                continue
            blocked = [t for t, p in self.world.puppets.items() if not p.at_decision]
            if not blocked:
                break
            idle = [t for t, p in self.world.puppets.items() if p.at_decision]
            if self.set_called:
                self.note(f"lost wake-up: tasks {blocked} still blocked on a set event and not runnable")
                for t in blocked:
                    self.do(4, t)
            elif idle:
                self.do(1, idle[0])
            else:
                self.do(4, blocked[0])
        if self.observe()[1] != 0:
            self.note(f"waiter futures left behind: tasks_waiting={self.observe()[1]} with every task idle")
        if self.world.loop.errors:
            self.note(f"loop errors: {self.world.loop.errors[:2]}")


# =====================================================================================================
#  Conditions on a shared Lock
# =====================================================================================================
ACQ_OPS = (0, 1, 9, 10)
REL_OPS = (2, 11)


class CondRun(BaseRun):
    machine = 1
    width = 8

    def __init__(self, ntasks: int, fast: bool, nconds: int = 2, outside: bool = False, own_lock: bool = False):
        super().__init__(ntasks)
        self.outside = outside
        self.own_lock = own_lock and nconds == 1     # `Condition()` with its default lock: no direct lock ops
        self.fast = fast and not self.own_lock
        self.nconds = max(1, min(NCONDS, nconds))

    def create(self):
        if self.own_lock:
            self.lock = None
            self.conds = [self.anyio.Condition()]
        else:
            self.lock = self.anyio.Lock(fast_acquire=self.fast)
            self.conds = [self.anyio.Condition(self.lock) for _ in range(self.nconds)]
        if self.outside:
            self.flags.add("condition_created_outside_loop")
            if self.lock is not None and type(self.lock).__name__ != "LockAdapter":
                self.note(f"Lock() without a running loop returned {type(self.lock).__name__}, not the adapter")

    def setup(self):
        self.holders: set[int] = set()
        self.st: dict[int, dict] = {}      # blocked tasks: kind 'acq' | 'evwait' | 'reacq'
        self.q: list[dict] = []            # the queue automaton: entries of tasks in 'evwait', arrival order
        self.tickets = 0                   # number of wait() calls started so far (all conditions)
        self.n_issued = 0                  # notifications issued (entries selected by notify / notify_all)
        self.n_consumed = 0
        self.n_nobody = 0                  # passed on with nobody left to take it
        self.n_native_lost = 0             # exempt class
        self.quiesce_turn = 0
        self.how_acquired: dict[int, tuple] = {}   # by which route the current holder got the lock

    def observe(self):
        tw = [c.statistics().tasks_waiting for c in self.conds] + [0] * (NCONDS - self.nconds)
        if self.lock is not None:
            ls = self.lock.statistics()
            locked = self.lock.locked()
        else:
            ls = self.conds[0].statistics().lock_statistics
            locked = self.conds[0].locked()
        if bool(ls.locked) != bool(locked):
            self.note(f"statistics().locked={ls.locked} but locked()={locked}")
        owner = self.tid_of.get(ls.owner.id, 99) if ls.owner is not None else 0
        return tw + [1 if locked else 0, owner, ls.tasks_waiting]

    def enabled(self):
        en = []
        for t, p in self.world.puppets.items():
            if p.at_decision:
                for a in range(self.nconds):
                    en += [(0, t, a, 0), (1, t, a, 0), (2, t, a, 0), (5, t, a, None), (6, t, a, 0), (7, t, a, 0)]
                if self.lock is not None:
                    en += [(9, t, 0, 0), (10, t, 0, 0), (11, t, 0, 0)]
            else:
                if self.world.runnable(p):
                    en.append((3, t, 0, 0))
                en.append((4, t, 0, 0))
                if p.scope is not None:
                    en.append((8, t, 0, 0))
        return en

    def do(self, c, t, a=0, b=0):
        w = self.world
        p = w.puppets.get(t)
        if p is None or not (0 <= a < self.nconds) or (self.lock is None and c in (9, 10, 11)):
            raise Invalid
        cond = self.conds[a]
        lock = self.lock
        before = self.observe()
        run_before = {x: self.runnable(x) for x in self.st}
        self.late_step = 0
        if c in (0, 1, 2, 5, 6, 7, 9, 10, 11):
            if not p.at_decision:
                raise Invalid
            if c == 0:
                out = w.act(t, scoped(lambda: cond.acquire()))
            elif c == 9:
                out = w.act(t, scoped(lambda: lock.acquire()))
            elif c == 7:
                out = w.act(t, scoped(lambda: cond.wait()))
            else:
                async def cmd(p):
                    if c == 1:
                        cond.acquire_nowait()
                    elif c == 10:
                        lock.acquire_nowait()
                    elif c == 2:
                        cond.release()
                    elif c == 11:
                        lock.release()
                    elif c == 5:
                        cond.notify(b)
                    else:
                        cond.notify_all()
                out = w.act(t, cmd)
        elif c == 3:
            if p.at_decision or not w.runnable(p):
                raise Invalid
            out = w.resume(t)
        elif c == 4:
            if p.at_decision:
                raise Invalid
            p.task.cancel()
            out = None
        elif c == 8:
            if p.at_decision or p.scope is None:
                raise Invalid
            p.scope.cancel()
            out = None
        else:
            raise Invalid
        self.run_env_handles()
        k = code_of(out)
        after = self.observe()
        self.ops += [c, t, a, b]
        self.monitor(c, t, a, b, k, before, after, run_before)
        self.outs += [k] + after + [self.late_step]

    def already_cancelled(self, t):
        e = self.st.get(t)
        if not e:
            return False
        if e["kind"] == "evwait":
            return next(x for x in self.q if x["t"] == t)["cancel"]
        return bool(e.get("cancel") or e.get("native"))

    # ---- the queue automaton and the clause monitors ----
    def unnotified(self, a=None):
        return [e for e in self.q if not e["notified"] and (a is None or e["c"] == a)]

    def gets_lock(self, t, after, how):
        others = self.holders - {t}
        if others:
            self.note(f"{how} returned to {t} while {sorted(others)} hold the lock")
        if after[4] != t or not after[3]:
            self.note(f"{how} returned to {t} but the lock owner is {after[4]} (locked={after[3]})")
        self.holders.add(t)

    def pass_on(self, ent):
        rest = self.unnotified(ent["c"])
        if rest:
            nxt = rest[0]
            nxt["notified"] = True
            nxt["via_pass_on"] = True
            nxt["hz"] = ent["hz"]
            self.flags.add("pass_on")
            if nxt["cancel"]:
                self.flags.add("pass_on_to_cancelled_waiter")
            if nxt["ticket"] >= ent["hz"]:
                # F18: the receiver began to wait after the notify call that issued this notification
                nxt["late"] = True
                self.late_step = 1
                self.flags.add("late_handover")
        else:
            self.n_nobody += 1
            self.flags.add("pass_on_to_nobody")

    def monitor(self, c, t, a, n, k, before, after, run_before):
        holder = t in self.holders
        if a > 0 and c in (0, 1, 2, 5, 6, 7):
            self.flags.add("second_condition")
        if c in (9, 10, 11):
            self.flags.add("direct_lock_op")
        if c in (5, 6, 7):
            if not holder:
                self.flags.add("misuse_by_non_holder")
                if k != 3:
                    self.note(f"{COPN[c]} by {t}, which does not hold the lock, was not refused (kind {k})")
                if after != before:
                    self.note(f"refused {COPN[c]} by non-holder {t} changed the state: {before} -> {after}")
                for x, r in run_before.items():
                    if self.runnable(x) != r:
                        self.note(f"refused {COPN[c]} by non-holder {t} changed the runnability of task {x}")
            else:
                how = self.how_acquired.get(t)
                if how is not None and how != ("cond", a):
                    self.flags.add("holder_via_other_route")
                if k == 3:
                    self.note(f"{COPN[c]} on cond{a} by the lock holder {t} was refused with RuntimeError")
        if c in (5, 6) and holder and k == 0:
            un = self.unnotified(a)
            want = len(un) if c == 6 else max(min(n, len(un)), 0)
            for ent in un[:want]:
                ent["notified"] = True
                ent["hz"] = self.tickets
                self.n_issued += 1
                if ent["cancel"]:
                    self.flags.add("notify_after_cancel_same_cycle")
            self.flags.add("notify_some" if want else "notify_none")
            if c == 5 and n > len(un):
                self.flags.add("notify_more_than_waiting")
            if c == 5 and n <= 0:
                self.flags.add("notify_zero")
            if c == 5 and 0 < want < len(un):
                self.flags.add("notify_strict_subset")
            if want and any(e["c"] != a for e in self.unnotified()):
                self.flags.add("notify_with_waiters_on_sibling")
        if c == 7 and holder:
            if k == 1:
                self.holders.discard(t)
                self.st[t] = {"kind": "evwait"}
                self.q.append({"t": t, "c": a, "ticket": self.tickets, "notified": False, "cancel": False,
                               "via_pass_on": False, "hz": None, "late": False})
                self.tickets += 1
                self.flags.add("wait")
                if len(self.q) >= 3:
                    self.flags.add("three_waiters")
            else:
                self.note(f"wait() by holder {t} ended at once with kind {k}")
        if c in ACQ_OPS:
            if holder:
                if k != 3:
                    self.note(f"re-acquire by holder {t} ended with kind {k}")
            elif k == 0:
                self.gets_lock(t, after, "acquire")
                self.note_route(t, c, a)
            elif k == 1 and c in (0, 9):
                self.st[t] = {"kind": "acq", "cancel": False, "route": (c, a)}
            elif k == 4 and c in (1, 10):
                pass
            else:
                self.note(f"{COPN[c]} by non-holder {t} ended with kind {k}")
        if c in REL_OPS:
            if holder:
                if k != 0:
                    self.note(f"release by holder {t} refused (kind {k})")
                how = self.how_acquired.get(t)
                if how is not None and how != (("cond", a) if c == 2 else ("lock", 0)):
                    self.flags.add("released_via_other_route")
                self.holders.discard(t)
            else:
                if k != 3:
                    self.note(f"release by non-holder {t} not refused (kind {k})")
                if after != before:
                    self.note(f"refused release by {t} changed the state")
        if c in (4, 8) and t in self.st:
            e = self.st[t]
            if e["kind"] == "acq":
                e["cancel"] = True
            elif e["kind"] == "evwait":
                ent = next(x for x in self.q if x["t"] == t)
                if c == 4:
                    self.flags.add("cancel_after_notify_same_cycle" if ent["notified"] else "cancel_before_notify")
                    ent["cancel"] = True
                else:
                    if not ent["notified"] and not ent["cancel"]:
                        ent["cancel"] = True
                        self.flags.add("scope_cancel_before_notify")
                    else:
                        self.flags.add("scope_cancel_after_notify")   # must have no effect
            elif e["kind"] == "reacq":
                if c == 4:
                    e["native"] = True
                    self.exempt = True
                    self.flags.add("native_cancel_in_reacquire")
                else:
                    self.flags.add("scope_cancel_in_reacquire")       # shielded: must have no effect
        if c == 3 and t in self.st:
            e = self.st[t]
            if e["kind"] == "acq":
                del self.st[t]
                if k == 0:
                    self.gets_lock(t, after, "acquire")
                    self.note_route(t, *e["route"])
                elif k == 2:
                    if not e["cancel"]:
                        self.note(f"acquire of {t} got CancelledError without a cancel request")
                else:
                    self.note(f"acquire of {t} ended with kind {k}")
            elif e["kind"] == "evwait":
                ent = next(x for x in self.q if x["t"] == t)
                self.q.remove(ent)
                interrupted = ent["cancel"]
                if not ent["notified"] and not interrupted:
                    self.note(f"spurious wake-up: waiter {t} resumed without notification or cancellation")
                if interrupted and ent["notified"]:
                    self.pass_on(ent)
                if interrupted and not ent["notified"]:
                    self.flags.add("cancelled_waiter_removed")
                e.update(kind="reacq", exc=interrupted, notified=ent["notified"], native=False, late=ent["late"],
                         c=ent["c"])
                if k == 1:
                    self.flags.add("reacquire_blocks")
                else:
                    self.finish_wait(t, e, k, after)
            elif e["kind"] == "reacq":
                self.finish_wait(t, e, k, after)
        # ---- global consistency after every step ----
        for x in range(self.nconds):
            un = self.unnotified(x)
            if after[x] != len(un):
                self.note(f"cond{x}.statistics().tasks_waiting={after[x]} but the queue automaton has {len(un)} un-notified waiters")
        for ent in self.q:
            should = ent["notified"] or ent["cancel"]
            if self.runnable(ent["t"]) != should:
                if should:
                    self.note(f"lost wake-up: waiter {ent['t']} (notified={ent['notified']}, cancelled={ent['cancel']}) is not runnable")
                else:
                    self.note(f"early/spurious wake-up: waiter {ent['t']} is runnable without notification or cancellation")
        if len(self.holders) > 1:
            self.note(f"two holders {sorted(self.holders)}")
        if self.holders and (not after[3] or after[4] not in self.holders):
            self.note(f"{sorted(self.holders)} hold the lock by history but locked={after[3]} owner={after[4]}")

    def note_route(self, t, c, a):
        self.how_acquired[t] = ("cond", a) if c in (0, 1) else ("lock", 0)

    def finish_wait(self, t, e, k, after):
        del self.st[t]
        if k == 0:
            if e["exc"]:
                self.note(f"cancelled waiter {t} returned normally from wait()")
            if not e["notified"]:
                self.note(f"wait() returned to {t} which was never notified")
            if e.get("native"):
                self.note(f"wait() returned normally to {t} although it was cancelled during the re-acquire")
            if e.get("late"):
                self.hit("late_handover",
                         f"wait() returned to {t} on a notification issued before its wait() began "
                         f"(handed over by a cancelled waiter; no notify at or after its start selected it)")
            self.n_consumed += 1
            self.flags.add("wait_returned")
            self.gets_lock(t, after, "wait")
            self.note_route(t, 0, e["c"])
        elif k == 2:
            if e.get("native"):
                # exempt class (documented scope): native Task.cancel() inside the shielded re-acquire
                if not e["exc"] and e["notified"]:
                    self.n_native_lost += 1
                if after[4] == t:
                    self.note(f"exempt class, unexpected: {t} owns the lock after a native cancel in the re-acquire")
                return
            if not e["exc"]:
                self.note(f"wait() of {t} raised CancelledError although the waiter was not cancelled")
            self.flags.add("wait_cancelled")
            self.gets_lock(t, after, "wait (raising)")
            self.note_route(t, 0, e["c"])
        else:
            self.note(f"wait() of {t} ended with kind {k}")

    def conservation(self):
        inflight = sum(1 for ent in self.q if ent["notified"]) + sum(
            1 for e in self.st.values() if e["kind"] == "reacq" and e["notified"] and not e["exc"])
        if self.n_issued != self.n_consumed + inflight + self.n_nobody + self.n_native_lost:
            self.note(f"notifications not conserved: issued={self.n_issued} consumed={self.n_consumed} "
                      f"in flight={inflight} passed on to nobody={self.n_nobody} native={self.n_native_lost}")

    def quiesce(self):
        """Drive everything to rest: every notified or cancelled waiter finishes, holders release, sleepers are
        notified by a helper; anything that stays blocked without a reason is a lost wake-up / deadlock."""
        self.conservation()
        for _ in range(400):
            progressed = False
            for t, p in self.world.puppets.items():
                if not p.at_decision and self.world.runnable(p):
                    self.do(3, t)
                    progressed = True
            if progressed:
                continue
            if self.holders:
                h = sorted(self.holders)[0]
                for a in range(self.nconds):
                    if self.unnotified(a):
                        self.do(6, h, a, 0)
                self.quiesce_turn += 1
                if self.quiesce_turn % 2 and self.lock is not None:
                    self.do(11, h)
                else:
                    self.do(2, h, self.quiesce_turn % self.nconds, 0)
                continue
            blocked = [t for t, p in self.world.puppets.items() if not p.at_decision]
            if not blocked:
                break
            stuck = [t for t in blocked if self.st.get(t, {}).get("kind") != "evwait"]
            if stuck:
                self.note(f"deadlock: tasks {stuck} blocked in acquire/re-acquire, nobody holds the lock, nothing runnable")
                for t in stuck:
                    self.do(4, t)
                continue
            idle = [t for t, p in self.world.puppets.items() if p.at_decision]
            if idle:
                self.quiesce_turn += 1
                if self.quiesce_turn % 2 and self.lock is not None:
                    self.do(9, idle[0])
                else:
                    self.do(0, idle[0], self.quiesce_turn % self.nconds, 0)
            else:
                self.do(4, blocked[0])
        self.conservation()
        obs = self.observe()
        if obs != [0] * 6:
            self.note(f"not pristine after quiescence: tasks_waiting x3/locked/owner/lock waiters={obs}")
        if self.world.loop.errors:
            self.note(f"loop errors: {self.world.loop.errors[:2]}")


# =====================================================================================================
#  running, generating, shrinking
# =====================================================================================================
def make_run(machine: int, ntasks: int, fast: bool, nconds: int = 2, outside=False, preset=False, own_lock=False):
    if machine == 0:
        return EventRun(ntasks, outside, preset)
    return CondRun(ntasks, fast, nconds, outside, own_lock)


def run_like(run, flat_ops, **kw):
    """Replay `flat_ops` in the configuration of `run`."""
    return run_script(run.machine, run.ntasks, getattr(run, "fast", False), flat_ops,
                      nconds=getattr(run, "nconds", 1), outside=run.outside,
                      preset=getattr(run, "preset", False), own_lock=getattr(run, "own_lock", False), **kw)


def run_script(machine, ntasks, fast, flat_ops, quiesce=True, tolerate_invalid=False, alphabet=None,
               skip_invalid=False, nconds=2, outside=False, preset=False, own_lock=False):
    """Replay a flat op list on the real implementation.  skip_invalid: ops that are not possible in the current
    state are dropped (used by the shrinker); r.script holds the ops that were really executed."""
    if preset and flat_ops[:4] == [1, 0, 0, 0]:
        flat_ops = flat_ops[4:]          # the pre-loop set() is performed by the run itself
    with make_run(machine, ntasks, fast, nconds, outside, preset, own_lock) as r:
        r.invalid = False
        try:
            for i in range(0, len(flat_ops), 4):
                try:
                    r.do(*flat_ops[i:i + 4])
                except Invalid:
                    if not skip_invalid:
                        raise
        except Invalid:
            if not tolerate_invalid:
                raise
            r.invalid = True
            return r
        r.script = list(r.ops)
        r.enabled_at_end = alphabet(r) if alphabet else r.enabled()
        if quiesce:
            r.quiesce()
        return r


NOTIFY_NS = [0, 1, 1, 1, 2, 2, 3, 5, -1]


def walk(r: "CondRun", rng: random.Random, nsteps: int, wcancel, wscope, misuse, wdirect, wsib):
    for _ in range(nsteps):
        en = r.enabled()
        ws = []
        for (c, t, a, b) in en:
            hold = t in r.holders
            sib = wsib if a > 0 else 1.0
            if c == 0:
                w = (0.1 if hold else 5) * sib
            elif c == 9:
                w = (0.05 if hold else 5) * wdirect
            elif c == 1:
                w = (0.05 if hold else 1.0) * sib
            elif c == 10:
                w = (0.03 if hold else 1.0) * wdirect
            elif c == 2:
                w = (1.5 if hold else misuse) * sib
            elif c == 11:
                w = (1.5 if hold else misuse) * wdirect
            elif c == 5:
                w = (3 if hold else misuse) * sib
            elif c == 6:
                w = (1 if hold else misuse) * sib
            elif c == 7:
                w = (5 if hold else misuse) * sib
            elif c == 3:
                w = 5
            elif c == 4:
                kind = r.st.get(t, {}).get("kind")
                w = wcancel * (0.12 if kind == "reacq" else 1.0)
                if r.already_cancelled(t):
                    w *= 0.08
            else:
                w = wscope * (0.15 if r.already_cancelled(t) else 1.0)
            ws.append(w)
        c, t, a, b = rng.choices(en, ws)[0]
        if b is None:
            b = rng.choice(NOTIFY_NS)
        r.do(c, t, a, b)


def random_cond_case(rng: random.Random, nsteps: int):
    fast = rng.random() < 0.3
    ntasks = rng.choice([2, 3, 3, 4, 4, 5, 6])
    nconds = rng.choice([1, 2, 2, 2, 3])
    outside = rng.random() < 0.3           # Lock() / Condition() created with no loop running: LockAdapter
    own_lock = outside and nconds == 1 and rng.random() < 0.5
    with CondRun(ntasks, fast, nconds, outside, own_lock) as r:
        walk(r, rng, nsteps, wcancel=rng.choice([0.3, 1.5, 4]), wscope=rng.choice([0.0, 0.5, 2.5]),
             misuse=rng.choice([0.03, 0.15]), wdirect=rng.choice([0.0, 0.3, 1.0]), wsib=rng.choice([0.3, 1.0]))
        r.script = list(r.ops)
        r.quiesce()
        return r


def f18_case(rng: random.Random):
    """Directed schedule for the hand-over clause: some waiters, one of them cancelled in the same cycle as the
    notification that selects it (before or after), the notifier releases, a LATE task starts waiting before the
    cancelled waiter resumes.  Whether the hand-over reaches an older waiter (legitimate) or only LATE (finding
    F18) depends on the drawn notify argument."""
    fast = rng.random() < 0.4
    nconds = rng.choice([1, 2])
    a = rng.randrange(nconds)
    nw = rng.choice([1, 2, 2, 3])
    with CondRun(nw + 3, fast, nconds) as r:
        def acquire(t):
            route = rng.choice([0, 0, 9])
            r.do(route, t, a if route == 0 else 0, 0)
            if t not in r.holders:
                r.do(3, t)

        def script():
            for t in range(1, nw + 1):
                acquire(t)
                r.do(7, t, a, 0)
            n = nw + 1
            acquire(n)
            victim = rng.randrange(1, nw + 1)
            how = rng.choice(["scope_before", "native_before", "native_after"])
            if how == "scope_before":
                r.do(8, victim)
            elif how == "native_before":
                r.do(4, victim)
            if rng.random() < 0.5:
                r.do(6, n, a, 0)
            else:
                r.do(5, n, a, rng.choice([victim, victim, nw, nw + 1]))
            ent = next((x for x in r.q if x["t"] == victim), None)
            if how == "native_after" and ent is not None and ent["notified"]:
                r.do(4, victim)
            if rng.random() < 0.5:
                r.do(2, n, a, 0)
            else:
                r.do(11, n)
            late = nw + 2
            acquire(late)
            r.do(7, late, a, 0)
            if r.runnable(victim):
                r.do(3, victim)

        try:
            script()
        except Invalid:
            pass        # the implementation under test left the scripted path (only happens on a changed tree)
        walk(r, rng, rng.choice([0, 2, 6]), wcancel=0.5, wscope=0.3, misuse=0.05, wdirect=0.3, wsib=0.5)
        r.script = list(r.ops)
        r.quiesce()
        return r


def random_event_case(rng: random.Random, nsteps: int, outside=False, preset=False):
    ntasks = rng.choice([2, 3, 4, 5])
    wset = rng.choice([0.3, 1.0])
    wcancel = rng.choice([0.3, 1.5, 3])
    wscope = rng.choice([0.0, 0.5, 2.0])
    with EventRun(ntasks, outside, preset) as r:
        for _ in range(nsteps):
            en = r.enabled() + [(1, 0, 0, 0)]
            ws = [({0: 4, 1: wset, 3: 4, 4: wcancel, 8: wscope}[c] if t else 0.25 * wset)
                  * (0.1 if c in (4, 8) and r.st.get(t, {}).get("cancel") else 1.0) for (c, t, a, b) in en]
            c, t, a, b = rng.choices(en, ws)[0]
            r.do(c, t, a, b)
        r.script = list(r.ops)
        r.quiesce()
        return r


def adapter_twins(r: "EventRun"):
    """The same script on an Event created BEFORE the loop runs (EventAdapter), and once more with set() called
    before the loop starts: the adapter must be observationally identical to the backend event."""
    out = []
    script = list(getattr(r, "script", r.ops))
    for preset in (False, True):
        try:
            out.append(run_script(0, r.ntasks, False, script, skip_invalid=True, outside=True, preset=preset))
        except Exception as e:  # noqa: BLE001
            bad = EventRun(r.ntasks, True, preset)
            bad.ops, bad.outs, bad.script = [], [], []
            bad.note(f"replaying an Event script on an Event created outside the loop crashed: {e!r}")
            out.append(bad)
    return out


def exhaustive(machine, ntasks, depth, fast, alphabet, nconds=1, outside=False):
    """All op sequences up to `depth` over `alphabet(run)` (a subset of the ops the implementation enables);
    DFS by replay on the real implementation."""
    results = []

    def rec(prefix):
        leaf = len(prefix) // 4 >= depth
        r = run_script(machine, ntasks, fast, prefix, quiesce=leaf, alphabet=alphabet, nconds=nconds,
                       outside=outside)
        en = r.enabled_at_end
        if leaf:
            results.append(r)
            return
        used = set(prefix[1::4])
        fresh = min(set(range(1, ntasks + 1)) - used, default=None)
        any_child = False
        for (c, t, a, b) in en:
            if t and t not in used and t != fresh:
                continue          # symmetry: a fresh task id may only be the smallest unused one
            any_child = True
            rec(prefix + [c, t, a, b])
        if not any_child:
            results.append(run_script(machine, ntasks, fast, prefix, quiesce=True, nconds=nconds, outside=outside))

    rec([])
    return results


def cond_alphabet(r: CondRun):
    """One condition: disciplined use plus one misuse op per non-holder."""
    out = []
    for (c, t, a, b) in r.enabled():
        if a != 0:
            continue
        hold = t in r.holders
        if c == 0 and not hold:
            out.append((0, t, 0, 0))
        elif c == 2 and hold:
            out.append((2, t, 0, 0))
        elif c == 5:
            if hold:
                out += [(5, t, 0, 1), (5, t, 0, 2)]
            elif r.q:
                out.append((5, t, 0, 1))
        elif c == 7 and hold:
            out.append((7, t, 0, 0))
        elif c in (3, 4):
            out.append((c, t, 0, 0))
    return out


def shared_alphabet(r: CondRun):
    """Two conditions on one lock and direct lock use: acquire through cond0 or the lock, release through cond1 or
    the lock, wait / notify(1) on either condition, by holders and (notify) by non-holders."""
    out = []
    for (c, t, a, b) in r.enabled():
        hold = t in r.holders
        if c == 0 and a == 0 and not hold:
            out.append((0, t, 0, 0))
        elif c == 9 and not hold:
            out.append((9, t, 0, 0))
        elif c == 2 and a == 1 and hold:
            out.append((2, t, 1, 0))
        elif c == 11 and hold:
            out.append((11, t, 0, 0))
        elif c == 5 and a in (0, 1):
            if hold or r.q:
                out.append((5, t, a, 1))
        elif c == 7 and a in (0, 1):
            if hold or (a == 0 and r.q):
                out.append((7, t, a, 0))
        elif c in (3, 4):
            out.append((c, t, 0, 0))
    return out


def event_alphabet(r: EventRun):
    return [x for x in r.enabled() if x[0] != 8]


def event_alphabet_outside(r: EventRun):
    return [x for x in r.enabled() if x[0] != 8] + [(1, 0, 0, 0)]


def shrink(run, still_bad, budget=600):
    """Drop ops (and whatever becomes impossible as a consequence) while `still_bad(run')` holds."""
    best = run
    ops = list(getattr(run, "script", run.ops))
    improved = True
    while improved and budget > 0:
        improved = False
        i = len(ops) - 4
        while i >= 0 and budget > 0:
            cand = ops[:i] + ops[i + 4:]
            budget -= 1
            try:
                r2 = run_like(run, cand, quiesce=True, skip_invalid=True)
            except Exception:  # noqa: BLE001
                r2 = None
            if r2 is not None and len(r2.script) < len(ops) and still_bad(r2):
                ops = list(r2.script)
                best = r2
                improved = True
                i = min(i, len(ops)) - 4
            else:
                i -= 4
    return best, ops


def _nodigits(m: str) -> str:
    return "".join("#" if ch.isdigit() else ch for ch in m)


def replay_dict(run, ops=None, **extra):
    ops = list(run.ops if ops is None else ops)
    d = {"machine": run.machine, "machine_name": "Event" if run.machine == 0 else "Condition",
         "ntasks": run.ntasks, "nconds": getattr(run, "nconds", 1),
         "fast": bool(getattr(run, "fast", False)), "ops": ops,
         "created_outside_loop": bool(run.outside), "set_before_loop": bool(getattr(run, "preset", False)),
         "own_lock": bool(getattr(run, "own_lock", False)),
         "ops_readable": readable_ops(run.machine, ops),
         "how_to_replay": "bin/replay <this file>   or   PYTHONPATH=/repo/src:/verif/harness python -c \"import c11; r=c11.run_script(machine, ntasks, fast, ops, nconds=nconds); print(r.mon)\"  (after the listed ops the harness drives the tasks to quiescence)"}
    d.update(extra)
    return d


def load_corpus():
    runs = []
    d = core.VERIF / "corpus" / "C11"
    if d.is_dir():
        for f in sorted(d.glob("*.json")):
            c = json.loads(f.read_text())
            r = run_script(c["machine"], c["ntasks"], bool(c.get("fast", False)), c["ops"], tolerate_invalid=True,
                           nconds=c.get("nconds", 2), outside=c.get("created_outside_loop", False),
                   preset=c.get("set_before_loop", False), own_lock=c.get("own_lock", False))
            r.corpus_name = f.name
            runs.append(r)
    return runs


ADAPTERS = {
    # class -> (attribute holding the backend object once it exists, the property that creates it, method -> target)
    "EventAdapter": ("_internal_event", "_event",
                     {"set": "set", "is_set": "is_set", "wait": "wait", "statistics": "statistics"}),
    "LockAdapter": ("_internal_lock", "_lock",
                    {"acquire": "acquire", "acquire_nowait": "acquire_nowait", "release": "release",
                     "locked": "locked", "statistics": "statistics", "__aenter__": "acquire",
                     "__aexit__": "release"}),
}


def adapter_delegation_check(src_root=None) -> list[str]:
    """Syntactic tie component for the objects anyio hands out when no event loop is running: once the backend
    object exists (`_internal_x is not None`) every public method of the adapter must consist of exactly one call
    of the corresponding method on the backend object (through `_internal_x` or the creating property) - no
    adapter-side state may be read or written on that path.  Fail closed: any other shape is reported."""
    import ast

    path = (core.REPO if src_root is None else src_root) / "src" / "anyio" / "_core" / "_synchronization.py"
    try:
        tree = ast.parse(path.read_text())
    except Exception as e:  # noqa: BLE001
        return [f"cannot parse {path}: {e!r}"]
    problems = []
    classes = {n.name: n for n in tree.body if isinstance(n, ast.ClassDef)}

    def is_self_attr(node, names):
        return (isinstance(node, ast.Attribute) and isinstance(node.value, ast.Name) and node.value.id == "self"
                and node.attr in names)

    for cname, (internal, prop, methods) in ADAPTERS.items():
        cls = classes.get(cname)
        if cls is None:
            problems.append(f"class {cname} not found")
            continue
        funcs = {n.name: n for n in cls.body if isinstance(n, (ast.FunctionDef, ast.AsyncFunctionDef))}
        public = {n for n in funcs if n not in ("__new__", "__init__", prop)}
        for extra in sorted(public - set(methods)):
            problems.append(f"{cname}.{extra}: method not covered by the delegation table")
        for m, target in methods.items():
            fn = funcs.get(m)
            if fn is None:
                problems.append(f"{cname}.{m}: missing")
                continue

            def live_path(stmts):
                """statements executed when the backend object exists; None = shape not understood"""
                out = []
                for st in stmts:
                    if isinstance(st, ast.Expr) and isinstance(st.value, ast.Constant):
                        continue                                  # docstring
                    if isinstance(st, ast.If):
                        t = st.test
                        if (isinstance(t, ast.Compare) and len(t.ops) == 1 and is_self_attr(t.left, {internal})
                                and isinstance(t.comparators[0], ast.Constant) and t.comparators[0].value is None):
                            branch = st.orelse if isinstance(t.ops[0], ast.Is) else (
                                st.body if isinstance(t.ops[0], ast.IsNot) else None)
                            if branch is None:
                                return None
                            sub = live_path(branch)
                            if sub is None:
                                return None
                            out += sub
                            if sub and isinstance(branch[-1], ast.Return):
                                return out
                            continue
                        return None
                    out.append(st)
                    if isinstance(st, ast.Return):
                        return out
                return out

            path_stmts = live_path(fn.body)
            ok = False
            if path_stmts is not None and len(path_stmts) == 1 and isinstance(path_stmts[0], (ast.Expr, ast.Return)):
                v = path_stmts[0].value
                if isinstance(v, ast.Await):
                    v = v.value
                ok = (isinstance(v, ast.Call) and isinstance(v.func, ast.Attribute) and v.func.attr == target
                      and is_self_attr(v.func.value, {internal, prop}))
            if not ok:
                problems.append(f"{cname}.{m}: once {internal} exists the method is not a single call of "
                                f"self.{prop}.{target}(...) (line {fn.lineno})")
    return problems


def replay(path) -> int:
    """bin/replay C11 <file>: re-execute a stored case on the current tree and on the model."""
    d = json.loads(open(path).read())
    if d.get("kind") == "tie" and not d.get("case"):
        print("BROKEN TIE (no failing input was found):", "; ".join(d.get("broken", [])))
        print("tie_T:", {k: v for k, v in (d.get("tie_T") or {}).items() if k != "segments"})
        return 1
    c = d.get("case") if d.get("kind") == "tie" and d.get("case") else d
    r = run_script(c["machine"], c["ntasks"], bool(c.get("fast", False)), c["ops"], tolerate_invalid=True,
                   nconds=c.get("nconds", 2), outside=c.get("created_outside_loop", False),
                   preset=c.get("set_before_loop", False), own_lock=c.get("own_lock", False))
    exe = core.build_driver("eventcond", "EventCond")
    m = core.run_driver(exe, [r.case()])[0]
    w = r.width
    rd = r.readable()
    for i, op in enumerate(rd):
        print(i, op, "impl", r.outs[i * w:(i + 1) * w], "model", m[i * w:(i + 1) * w],
              "" if r.outs[i * w:(i + 1) * w] == m[i * w:(i + 1) * w] else "   <-- differ")
    print("monitor messages:", *(r.mon or ["none"]), sep="\n  ")
    print("known-finding classes:", sorted(r.known_classes()))
    return 1 if (r.unexplained() or r.outs != m) else 0


TIE_FILES = ("prims/LockGen.v", "prims/LockGenEq.v", "prims/CondGen.v", "prims/CondGenEq.v")
TIE_HELPERS = {"notify_loop_sim": "cond_notify_entry (the for-range loop)", "notify_all_sim": "cond_notify_all_entry",
               "exec_call_check": "cond_check_acquired_entry", "finish_wait_runs": "the finally block of cond_wait",
               "wait_interrupted_sim": "the except branch of cond_wait", "cstep_runs_generated": "dispatch (whole machine)"}


def check(tier: str) -> int:
    rep = core.Report("C11", tier)
    rep.assumptions = core.TRUSTED_BASE_COMMON + [
        "objects created while NO event loop is running (EventAdapter; Condition over a LockAdapter): every Event script is replayed on an adapter (also with set() before the loop starts), 30% of the Condition cases use a Lock()/Condition() created outside the loop; the adapters must be observationally identical to the backend objects (same model, is_set()/statistics()/locked() compared at every step) + a syntactic delegation check of the two adapter classes",
        "model prims/EventCond.v hand-written from _asyncio.py:1853-1875 (Event), CPython 3.12.1 asyncio/locks.py:155-215, _core/_synchronization.py class Condition (HEAD: holder test asks the lock) and embedding prims/Lock.v; any number of Conditions on ONE shared Lock plus direct lock.acquire/acquire_nowait/release by any task",
        "tie T: tools/translate_cond.py (python ast -> coq/prims/CondGen.v; fail-closed tables in the script) regenerates the segments of Event.set/is_set/wait and Condition._check_acquired/acquire/acquire_nowait/release/locked/notify/notify_all/wait (cut at its awaits, the finally block copied into both continuations) on every run; CondGenEq.v proves that interpreting them (prims/CondImp.v) is estep (exactly) and cstep at variant 0 on everything the code reads and writes (the shared Lock machine, the condition's own queue, flags and futures of the one-shot events; pointwise on function-valued fields), with the whole-machine theorems cstep_runs_generated / grun_iff_creach. Trusted in it: the translator's tables and its expansion of try/except/finally, CPython await/exception semantics at the cut points (CondImp.dispatch: which continuation runs; the exception raised at event.wait() is CancelledError; locals persist), asyncio.Event and the one-shot anyio Event as modelled, the Lock reached through Lock.step (its code is tied by C09's tie T), deque.remove on an absent element not modelled (an unset waiting event is always queued: CInv), checkpoint_if_cancelled() at the start of wait() read as a no-op in a live scope. The ghost fields of cst are not tied (history variables never read by the code). Not the only tie: the same model is co-simulated against the running code below",
        "cancellation: native Task.cancel() on blocked tasks (both while the awaited future is pending and after it was resolved) and AnyIO CancelScope.cancel() of a scope wrapped around the blocking call",
        "documented scope: a NATIVE Task.cancel() landing inside Condition.wait()'s shielded re-acquire makes wait() raise without the lock and drops the notification; the C11 theorems carry the hypothesis `clean_run` (no such op) and the monitors exempt exactly these histories (AnyIO cancellation cannot do this: shield)",
        "known finding F18 (late_handover): the strong clause C11_notified_only_full is proved under the hypothesis no_late_handover and refuted without it (cond_late_handover_refuted); the monitor reports such histories as KNOWN-FINDING",
    ]
    t_start = time.time()
    phases = {}
    # tie T: regenerate LockGen.v (the shared lock) and CondGen.v (Event, Condition) from the source under test, then
    # rebuild the cone of props/C11.v, under the `tiegen` lock (harness/tiegen.py)
    t_rc, t_out, proofs_ok = tiegen.translate_and_prove(rep, "props/C11.v", ["translate_lock.py", "translate_cond.py"])
    tie_T, tie_T_broken = tiegen.describe(rep, t_rc, t_out, proofs_ok, TIE_FILES, TIE_HELPERS)
    tie_T["translator"] = "tools/translate_cond.py (python ast -> coq/prims/CondGen.v, fail closed) + tools/translate_lock.py"
    tie_T["equality_theorems"] = ("CondGenEq.v: tie_event_{set,wait_entry,wait_checkpoint,wait_inner,is_set}, egstep_eq_estep; "
                                  "tie_cond_{acquire_entry,acquire_resume,acquire_nowait,release,notify,notify_all,wait_entry,"
                                  "wait_event_resumed,wait_event_cancelled,wait_reacq_resume,locked}, cstep_runs_generated, "
                                  "grun_iff_creach (props C11_tie_*)")
    rep.coverage["tie_T"] = tie_T
    phases["proof_stage"] = round(time.time() - t_start, 1)
    exe = core.build_driver("eventcond", "EventCond")
    phases["build_driver"] = round(time.time() - t_start, 1)

    rng = random.Random(core.seed())
    runs = load_corpus()
    n_corpus = len(runs)
    for r in runs:
        if getattr(r, "invalid", False):
            rep.notes.append(f"corpus case {r.corpus_name} is no longer executable as recorded")
    quick = tier == "quick"
    n_cond = 800 if quick else 24000
    n_f18 = 150 if quick else 4000
    n_event = 220 if quick else 5000
    for _ in range(n_cond):
        runs.append(random_cond_case(rng, rng.choice([8, 12, 18, 26, 40, 60])))
    for _ in range(n_f18):
        runs.append(f18_case(rng))
    for _ in range(n_event):
        ev = random_event_case(rng, rng.choice([5, 8, 12, 20, 30]))
        runs.append(ev)
        runs += adapter_twins(ev)
    if quick:
        ex = (exhaustive(1, 2, 6, False, cond_alphabet) + exhaustive(1, 2, 5, False, shared_alphabet, nconds=2)
              + exhaustive(0, 2, 5, False, event_alphabet)
              + exhaustive(0, 2, 4, False, event_alphabet_outside, outside=True)
              + exhaustive(1, 2, 5, False, cond_alphabet, outside=True))
    else:
        ex = (exhaustive(1, 3, 8, False, cond_alphabet) + exhaustive(1, 2, 8, True, cond_alphabet)
              + exhaustive(1, 3, 6, False, shared_alphabet, nconds=2)
              + exhaustive(1, 2, 7, True, shared_alphabet, nconds=2)
              + exhaustive(0, 3, 6, False, event_alphabet)
              + exhaustive(0, 3, 5, False, event_alphabet_outside, outside=True)
              + exhaustive(1, 2, 7, False, cond_alphabet, outside=True)
              + exhaustive(1, 2, 6, False, shared_alphabet, nconds=2, outside=True))
    n_ex = len(ex)
    runs += ex

    phases["generate_and_run_impl"] = round(time.time() - t_start, 1)
    cases = [r.case() for r in runs]
    expected = [r.outs for r in runs]
    model_outs = core.run_driver(exe, cases)
    disagreements = []
    rejected = 0
    for r, c, e, m in zip(runs, cases, expected, model_outs):
        w = r.width
        rejected += sum(1 for i in range(0, len(m), w) if m[i] == 9)
        if e != m:
            k = next((i for i in range(min(len(e), len(m))) if e[i] != m[i]), min(len(e), len(m)))
            disagreements.append((r, {"impl": e[(k // w) * w:(k // w) * w + w], "model": m[(k // w) * w:(k // w) * w + w],
                                      "first_diff_step": k // w}))
    # monitor hits: instances of the known finding F18 are separated from everything else
    monitor_hits = [(r, msg) for r in runs for msg in r.unexplained()]
    # known findings: only what known_findings.json lists (status known, property C11) - anything else is a violation
    n_known_by_id = {}
    for pred, (fid, what) in KNOWN.items():
        n = sum(1 for r in runs if any(k == pred for (k, _) in r.hits))
        if n:
            n_known_by_id[fid] = n
            rep.known_finding(f"{what} ({fid}, predicate {pred})")
    n_known = sum(n_known_by_id.values())

    # kernel-checked sample (always includes the corpus)
    sample_n = 40 if quick else 400
    idx = [i for i in range(n_corpus, len(cases)) if quick is False or len(cases[i]) <= 3 + 4 * 30]
    rng.shuffle(idx)
    idx = list(range(n_corpus)) + idx[:sample_n]
    phases["model_driver"] = round(time.time() - t_start, 1)
    vm_ok, vm_log = core.coq_eval_cases("c11", "EventCond", [cases[i] for i in idx], [expected[i] for i in idx])
    phases["vm_compute_sample"] = round(time.time() - t_start, 1)

    # ---- decide ----
    reported = set()
    for r, msg in monitor_hits:
        key = _nodigits(msg.split(": ", 1)[-1])[:40]
        if key in reported or len(reported) >= 6:
            continue
        reported.add(key)
        want = key[:28]
        best, ops = shrink(r, lambda x: any(want in _nodigits(m) for m in x.unexplained()))
        rep.violation(next((m for m in best.unexplained() if want in _nodigits(m)), msg),
                      replay_dict(best, ops, kind="monitor", all_monitor_messages=best.unexplained()[:6]))
    tie_broken = []
    if not proofs_ok:
        tie_broken.append("proof obligation: " + str(rep.coverage.get("proof_failure", {}).get("where")))
        tie_broken += tie_T_broken
    if disagreements:
        tie_broken.append("correspondence EventCond.run_case vs anyio.Event/anyio.Condition")
    if rejected:
        tie_broken.append(f"model rejected {rejected} ops the implementation performed")
    adapter_problems = adapter_delegation_check()
    rep.coverage["adapter_delegation_check"] = {
        "what": "syntactic (python ast, fail closed): once the backend object exists every method of EventAdapter / LockAdapter is a single call of the same method on it",
        "problems": adapter_problems}
    if adapter_problems:
        tie_broken.append("adapter delegation: " + "; ".join(adapter_problems))
    if not vm_ok and not disagreements:
        tie_broken.append("vm_compute sample disagrees with extracted model")
    if tie_broken and not monitor_hits:
        d = None
        if disagreements:
            r, info = min(disagreements, key=lambda x: len(x[0].ops))

            def differs(x):
                m = core.run_driver(exe, [x.case()])[0]
                return m != x.outs

            try:
                best, ops = shrink(r, differs, budget=120)
                m = core.run_driver(exe, [best.case()])[0]
                w = best.width
                k = next((i for i in range(min(len(m), len(best.outs))) if m[i] != best.outs[i]), 0) // w
                info = {"impl": best.outs[k * w:(k + 1) * w], "model": m[k * w:(k + 1) * w], "first_diff_step": k,
                        "ops_including_quiescence": best.readable()}
                d = replay_dict(best, ops, **info)
            except Exception:  # noqa: BLE001
                upto = (info["first_diff_step"] + 1) * 4
                d = replay_dict(r, r.ops[:upto], **info)
        rep.violation("; ".join(tie_broken), {"kind": "tie", "broken": tie_broken, "case": d, "tie_T": tie_T,
                                              "vm_log": vm_log[-800:] if not vm_ok else ""}, no_input=True)

    flags = {}
    for r in runs:
        for f in r.flags:
            flags[f] = flags.get(f, 0) + 1
    interesting = {"pass_on", "pass_on_to_nobody", "notify_after_cancel_same_cycle", "cancel_after_notify_same_cycle",
                   "cancel_before_notify", "reacquire_blocks", "notify_strict_subset", "set_with_waiters",
                   "cancel_before_set", "cancel_after_set", "scope_cancel_in_reacquire", "misuse_by_non_holder",
                   "holder_via_other_route", "released_via_other_route", "late_handover",
                   "notify_with_waiters_on_sibling"}
    distinct = len({tuple(c) for c, r in zip(cases, runs) if r.flags & interesting})
    opcount = {}
    for r in runs:
        names = EOPN if r.machine == 0 else COPN
        for i in range(0, len(r.ops), 4):
            opcount[names[r.ops[i]]] = opcount.get(names[r.ops[i]], 0) + 1
    sizes = sorted(len(r.ops) // 4 for r in runs)
    n_exempt = sum(1 for r in runs if r.exempt)
    known_example = next((r for r in sorted(runs, key=lambda x: len(x.ops)) if r.known_classes()), None)
    rep.coverage.update({
        "trusted_base": rep.assumptions,
        "evaluations": len(runs),
        "programs": len(runs),
        "traces_validated_against_impl": len(runs) - len(disagreements),
        "disagreements_checked": len(disagreements),
        "distinct_nontrivial": distinct,
        "rule": "random walk over the ops the implementation enables (idle task: acquire/acquire_nowait/release/notify(n in -1..5)/notify_all/wait on any of 1-3 Conditions sharing one Lock, lock.acquire/acquire_nowait/release directly, resp. Event wait/set, with a low-weight stream of non-holder misuse; blocked task: resume if its wake-up is queued, native Task.cancel(), cancel of the AnyIO scope around the call), 2-6 tasks, Lock fast_acquire on/off, then driven to quiescence; a directed family for the hand-over clause (waiter cancelled in the same cycle as its notification, notifier releases, a late task starts waiting before the cancelled waiter resumes); plus exhaustive enumeration (DFS by replay) of disciplined-use sequences with one misuse op, on one condition and on two conditions + direct lock use; non-trivial = reaches one of " + ", ".join(sorted(interesting)),
        "exhaustive_small_scope_cases": n_ex,
        "corpus_cases": n_corpus,
        "reached": flags,
        "op_distribution": opcount,
        "size_distribution": {"min": sizes[0], "median": sizes[len(sizes) // 2], "max": sizes[-1]},
        "condition_cases": sum(1 for r in runs if r.machine == 1),
        "event_cases": sum(1 for r in runs if r.machine == 0),
        "exempt_native_cancel_in_reacquire_cases": n_exempt,
        "exempt_note": "cases in which a native Task.cancel() landed inside Condition.wait()'s shielded re-acquire: correspondence still checked, monitors adjusted (wait() raising without the lock / dropped notification not reported)",
        "known_finding_cases": n_known_by_id,
        "known_findings_source": {"file": KNOWN_FINDINGS_PATH, "read_only": True,
                                  "entries_for_C11": {p_: i_ for p_, (i_, _) in KNOWN.items()},
                                  "rule": "a monitor hit tagged with a predicate is reported as KNOWN-FINDING only if the file lists that predicate (status known, property C11); otherwise it is a VIOLATION"},
        "known_finding_example": (replay_dict(known_example, known_example.script,
                                              messages=[m for (k, m) in known_example.hits if k in KNOWN])
                                  if known_example else None),
        "observations": [
            "cross-loop reuse (outside C11's quantification, recorded only): an anyio.Event whose wait() was started in one event loop (and abandoned) cannot be waited on in a second anyio.run - the backend asyncio.Event is bound to the first loop (RuntimeError); every C11 history lives in one event loop",
        ],
        "vm_compute_sample": len(idx),
        "vm_compute_ok": vm_ok,
        "model_rejected_ops": rejected,
        "monitor_hits": len(monitor_hits),
        "samples": [{"machine": runs[i].machine, "ops": runs[i].readable()[:30], "outs": runs[i].outs[:50]}
                    for i in idx[n_corpus:n_corpus + 2]],
        "phase_wall_s_cumulative": phases,
    })
    need = ["wait", "notify_some", "notify_none", "notify_zero", "notify_more_than_waiting", "notify_strict_subset",
            "three_waiters", "cancel_before_notify", "cancel_after_notify_same_cycle",
            "notify_after_cancel_same_cycle", "pass_on", "pass_on_to_nobody", "pass_on_to_cancelled_waiter",
            "cancelled_waiter_removed", "reacquire_blocks", "wait_returned", "wait_cancelled",
            "misuse_by_non_holder", "scope_cancel_before_notify", "scope_cancel_after_notify",
            "scope_cancel_in_reacquire", "native_cancel_in_reacquire",
            "second_condition", "direct_lock_op", "holder_via_other_route", "released_via_other_route",
            "notify_with_waiters_on_sibling", "late_handover",
            "event_created_outside_loop", "set_before_loop", "adapter_set_before_first_wait",
            "adapter_set_after_first_wait", "adapter_set_after_abandoned_wait", "condition_created_outside_loop",
            "set_with_waiters", "wait_on_set_event", "wait_on_unset_event", "cancel_before_set", "cancel_after_set",
            "set_after_cancel_same_cycle", "scope_cancel_effective", "scope_cancel_after_release"]
    for n in need:
        if not flags.get(n):
            rep.notes.append(f"generator self-check: predicate {n} never reached")
    return rep.finish()
