"""Real-loop mode of the S machine harness: the same puppet programs run on a REAL event loop (stock asyncio, eager
task factory, uvloop).  A coordinator task hands the program ops to the puppets in the order of a stored case and lets
the loop run to quiescence after each one, so deliveries, wake-ups and done-callbacks happen in the loop's own (FIFO)
order.  The resulting history has the same encoding as the stepped mode (program ops + synthetic resume steps, queue
fields empty) and is judged by the schedule-independent monitors of scommon (History(real=True))."""

from __future__ import annotations

import asyncio
import math

import smachine as S


class RealWorld(S.SWorld):
    real = True

    def __init__(self, loop):
        super().__init__(loop)
        self.t0 = loop.time()

    def enabled_env(self):
        return []

    def observe(self):
        self.adopt_expected()
        full = S.SWorld.observe_base(self)
        return full


def _observe_base(self) -> list[int]:
    ab = self.ab
    out = [0, len(self.puppets)]
    for t in sorted(self.puppets):
        p = self.puppets[t]
        task = p.task or getattr(p, "pre_task", None)
        ts = ab._task_states.get(task) if task is not None else None
        cur = self.sid(ts.cancel_scope) if ts is not None else 0
        out += [self.task_state(p), task.cancelling() if task is not None else 0,
                1 if (task is not None and getattr(task, "_must_cancel", False)) else 0, cur, self.handle_status(p)] + self.handle_outcome(p)
    out.append(len(self.scopes))
    for sc in self.scopes:
        flags = (int(sc._active) + 2 * int(sc._cancel_called) + 4 * int(sc._cancelled_caught)
                 + 8 * int(sc._shield) + 16 * int(sc._cancel_handle is not None)
                 + 32 * int(sc._timeout_handle is not None))
        dl = -1 if sc._deadline == math.inf else (0 if sc._deadline == -math.inf else int(sc._deadline))
        out += [flags, sc._pending_uncancellations or 0, dl, self.tid_of_task(sc._host_task),
                self.sid(sc._parent_scope), len(sc._tasks), len(sc._child_scopes)]
    out.append(len(self.groups))
    for tg in self.groups:
        out += [len(tg._tasks), len(getattr(tg, "_exceptions", [])), int(tg._on_completed_fut is not None),
                sum(self.exn_sum(e) for e in getattr(tg, "_exceptions", []))]
    out += [0, 0]        # no ready queue / timer view on a real loop
    return out


S.SWorld.observe_base = _observe_base


def real_status(w, p, done_before):
    tk = p.task or getattr(p, "pre_task", None)
    if p.finished or (tk is not None and tk.done()):
        return ("none", None)
    if p.cmd_done > done_before and not p.inbox:
        out = p.cmd_outcome
        if out and out[0] == "ok" and isinstance(out[1], tuple) and out[1][0] == "time":
            return out[1]
        return out
    return ("blocked", None)


async def settle(n: int = 8):
    for _ in range(n):
        await asyncio.sleep(0)


async def coordinator(ops, out: dict, chooser=None, nsteps: int = 0):
    loop = asyncio.get_running_loop()
    w = RealWorld(loop)
    w.pending_start = set()
    out["world"] = w
    pending: set[int] = set()
    skipped = 0
    try:
        def record(c, a, b, d, outcome):
            enc = w.enc_outcome(outcome)
            obs = w.observe()
            w.ops += [c, a, b, d]
            w.outs += enc + obs
            w.step_lens.append(len(enc) + len(obs))

        seen_idle: dict[int, int] = {}
        done_before: dict[int, int] = {}

        done_seen: set[int] = set()

        async def completions():
            # the end of a task (its done-callback has run by now: the loop ran >= 8 cycles) - recorded BEFORE the
            # wake-ups it caused, as the virtual schedule does; without it a failing child's error is never expected
            # from its group (the monitor "raised although neither body nor children failed" fired on the simplest
            # failing-child program, and member errors were never checked on real loops)
            for t, p in sorted(w.puppets.items()):
                tk = p.task or getattr(p, "pre_task", None)
                if t not in done_seen and p.spawned and tk is not None and tk.done():
                    done_seen.add(t)
                    record(S.RUNTASKDONE, t, 0, 0, ("none", None))
            for t in sorted(pending):
                p = w.puppets[t]
                st = real_status(w, p, done_before.get(t, 0))
                if st is None or st[0] != "blocked":
                    pending.discard(t)
                    w.pending_start.discard(t)
                    record(S.RUNWAKE, t, 0, 0, st)
            # cancellations delivered to programs sitting between two operations
            for t, p in list(w.puppets.items()):
                if p.idle_hits != seen_idle.get(t, 0) and t not in pending:
                    seen_idle[t] = p.idle_hits
                    if p.outcome is not None and p.outcome[0] == "exc" and not p.busy:
                        record(S.RUNWAKE, t, 0, 0, p.outcome)

        def op_stream():
            if chooser is None:
                for i in range(0, len(ops), 4):
                    yield tuple(ops[i:i + 4])
            else:
                for _ in range(nsteps):
                    o = chooser(w)
                    if o is None:
                        return
                    yield o

        for (c, a, b, d) in op_stream():
            if c < 30:
                p = w.puppets.get(a)
                if p is None or p.busy or p.finished or a in pending or not p.started:
                    skipped += 1
                    continue
                # object references must exist in this run
                if c in (S.ENTER, S.EXIT, S.CANCEL, S.SETSHIELD, S.SETDEADLINE) and not (1 <= b <= len(w.scopes)):
                    skipped += 1; continue
                if c in (S.GENTER, S.GEXIT, S.SPAWN, S.START) and not (1 <= b <= len(w.groups)):
                    skipped += 1; continue
                if c in (S.HCANCEL, S.HWAIT) and b not in w.spawned_tids:
                    skipped += 1; continue
                if c in (S.NEWSCOPE, S.FAILAT, S.SETDEADLINE, S.SLEEP):
                    # no wall-clock deadlines in real mode: C06 is judged on the virtual clock only
                    if c == S.SLEEP and b >= 0:
                        b = 0 if False else b
                    if c in (S.NEWSCOPE, S.FAILAT):
                        b = -1
                    if c == S.SETDEADLINE:
                        d = -1
                p.outcome = None
                if c == S.FINISH:
                    cmd = ("finish", b)
                elif c == S.SLEEP and b >= 0:
                    async def short_sleep(pp, _b=b):
                        await w.anyio.sleep(0.002 * _b)
                    cmd = short_sleep
                else:
                    cmd = w.command(c, b, d)
                seen_idle[a] = p.idle_hits
                done_before[a] = p.cmd_done
                p.inbox.append(cmd)
                if p.cmdfut is not None and not p.cmdfut.done():
                    p.cmdfut.set_result("inbox")
                for _ in range(6):
                    await asyncio.sleep(0)
                    if not p.inbox and (p.busy or p.at_decision or p.finished):
                        break
                await asyncio.sleep(0)
                st = real_status(w, p, done_before[a])
                idle_before = {t: q.idle_hits for t, q in w.puppets.items()}
                await settle()
                record(c, a, b, d, st)
                if st is not None and st[0] == "blocked":
                    pending.add(a)
                    if c == S.START:
                        w.pending_start.add(a)
                await completions()
            elif c == S.NEWROOT:
                t = w.next_tid()
                p = S.SPuppet(w, t, False)
                w.puppets[t] = p
                p.task = loop.create_task(p.main(), name=f"root{t}")
                await settle(3)
                record(c, 0, 0, 0, ("ok", t))
            elif c == S.NATIVECANCEL:
                p = w.puppets.get(a)
                tk = (p.task or getattr(p, "pre_task", None)) if p else None
                if tk is None or tk.done():
                    skipped += 1; continue
                tk.cancel()
                record(c, a, 0, 0, ("none", None))
                await settle(); await completions()
            elif c == S.EXTCANCEL:
                if not (1 <= a <= len(w.scopes)):
                    skipped += 1; continue
                w.scopes[a - 1].cancel()
                record(c, a, 0, 0, ("none", None))
                await settle(); await completions()
            elif c == S.TICK:
                await asyncio.sleep(0.002 * max(a, 1))
                await settle(); await completions()
            # RUN* ops: the real loop schedules by itself
        # let everything that can finish, finish
        for _ in range(5):
            await asyncio.sleep(0.004)
            await settle(); await completions()
        out["skipped"] = skipped
        out["still_pending"] = sorted(pending)
    finally:
        w.shutdown = True
        for p in w.puppets.values():
            tk = p.task or getattr(p, "pre_task", None)
            if tk is not None and not tk.done():
                tk.cancel()
        for _ in range(6):
            await settle(4)
            for p in w.puppets.values():
                tk = p.task or getattr(p, "pre_task", None)
                if tk is not None and not tk.done():
                    tk.cancel()
        w._unpatch()


def real_run(ops, config: str, timeout: float = 20.0, chooser=None, nsteps: int = 0):
    """Runs a program on a real loop; returns the RealWorld (ops/outs/step_lens filled).  Either replays the
    program ops of a stored case, or (chooser given) generates the program online from the real state."""
    import anyio
    out: dict = {}

    async def main():
        try:
            await asyncio.wait_for(coordinator(ops, out, chooser, nsteps), timeout)
        except asyncio.TimeoutError:
            out["timeout"] = True

    loop_exc = []
    try:
        if config == "asyncio":
            anyio.run(main, backend_options={"use_uvloop": False})
        elif config == "uvloop":
            anyio.run(main, backend_options={"use_uvloop": True})
        else:
            def factory():
                lp = asyncio.new_event_loop()
                lp.set_task_factory(asyncio.eager_task_factory)
                return lp
            anyio.run(main, backend_options={"loop_factory": factory})
    except BaseException as e:  # noqa: BLE001
        loop_exc.append(type(e).__name__)
    w = out.get("world")
    if w is not None:
        w.info = {k: v for k, v in out.items() if k != "world"}
        w.info["loop_exc"] = loop_exc
    return w


def real_random_run(rng, nsteps: int, prof, config: str):
    """Online random program on a real loop (the loop schedules wake-ups, deliveries and callbacks by itself)."""
    import sgen

    class NoEnv:
        pass

    def chooser(w):
        cands = [(wt, op) for (wt, op) in sgen.propose(w, rng, prof)
                 if op[0] < 30 or op[0] in (S.NEWROOT, S.NATIVECANCEL, S.EXTCANCEL)]
        cands = [(wt, op) for (wt, op) in cands if op[0] not in (S.FAILAT, S.SETDEADLINE)
                 and not (op[0] == S.NATIVECANCEL and op[1] in w.pending_start)]
        if not cands:
            return None
        return rng.choices([c[1] for c in cands], [c[0] for c in cands])[0]

    return real_run([S.NEWROOT, 0, 0, 0], config, timeout=30.0, chooser=chooser, nsteps=nsteps)
