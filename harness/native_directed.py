"""Directed scenarios with native asyncio constructs between a cancel scope and the place where its cancellation is
delivered (findings F49, F50; found by the round-2 bug hunt).  asyncio.gather() and the await of a native Task are not
part of the S machine (the machine knows AnyIO waits and one native Task.cancel() by a third party), so these are judged
by the property texts directly:

  C04: "When the exception reaches a scope's exit it is absorbed if and only if that scope was itself cancelled and no
        cancelled enclosing scope is visible to it; cancelled_caught is true exactly for the scopes that absorbed one";
        "A task receives an AnyIO cancellation exception only while its current scope is effectively cancelled"
  C02: "If nothing failed the block raises nothing, except that a cancellation coming from an enclosing scope passes
        through unchanged."

Every hit carries the predicate tag of the finding it is an instance of; anything else a scenario observes is untagged
and therefore an ordinary violation."""
from __future__ import annotations

import asyncio
import json
import os
import subprocess
import sys

from core import REPO

F49 = "own_cancel_recreated_bare"
F50 = "forwarded_cancel_absorbed_in_native_task"


async def _graceful(stopped: list, name: str) -> str:
    try:
        await asyncio.sleep(3600)
    except asyncio.CancelledError:
        stopped.append(name)          # shuts down gracefully: gather() then re-creates the CancelledError
    return name


async def _hangs() -> None:
    await asyncio.sleep(3600)


async def scope_around_gather() -> list[str]:
    """C04: a scope cancelled by its own deadline, nothing else cancelled: it must absorb and set cancelled_caught."""
    import anyio
    task = asyncio.current_task()
    stopped: list = []
    try:
        with anyio.move_on_after(0.05) as scope:
            await asyncio.gather(_graceful(stopped, "a"), _graceful(stopped, "b"))
    except asyncio.CancelledError as exc:
        own = not exc.args and task.cancelling() == 0
        return [f"move_on_after() around asyncio.gather() of two gracefully stopping coroutines let its own cancellation "
                f"escape as {exc!r} (cancel_called={scope.cancel_called}, cancelled_caught={scope.cancelled_caught}, "
                f"no enclosing scope, task.cancelling()={task.cancelling()})" + (f" [kf:{F49}]" if own else "")]
    except BaseException as exc:  # noqa: BLE001
        return [f"move_on_after() around asyncio.gather() raised {exc!r}"]
    if not scope.cancelled_caught:
        return ["move_on_after() around asyncio.gather() returned normally after its deadline but cancelled_caught is False"]
    return []


async def scope_around_gather_return_exceptions() -> list[str]:
    import anyio
    task = asyncio.current_task()
    stopped: list = []
    try:
        with anyio.move_on_after(0.05) as scope:
            await asyncio.gather(_hangs(), _graceful(stopped, "g"), return_exceptions=True)
    except asyncio.CancelledError as exc:
        own = not exc.args and task.cancelling() == 0
        return [f"move_on_after() around asyncio.gather(..., return_exceptions=True) let its own cancellation escape as "
                f"{exc!r} (cancelled_caught={scope.cancelled_caught}, task.cancelling()={task.cancelling()})"
                + (f" [kf:{F49}]" if own else "")]
    except BaseException as exc:  # noqa: BLE001
        return [f"move_on_after() around asyncio.gather(return_exceptions=True) raised {exc!r}"]
    if not scope.cancelled_caught:
        return ["move_on_after() around gather(return_exceptions=True): cancelled_caught is False after the deadline"]
    return []


async def group_host_in_gather() -> list[str]:
    """C02: the group's own scope is cancelled by a child, nothing failed: the block raises nothing."""
    import anyio
    task = asyncio.current_task()
    stopped: list = []

    async def canceller(tg):
        await anyio.sleep(0.05)
        tg.cancel_scope.cancel()

    try:
        async with anyio.create_task_group() as tg:
            tg.start_soon(canceller, tg)
            await asyncio.gather(_graceful(stopped, "a"), _graceful(stopped, "b"))
    except asyncio.CancelledError as exc:
        own = not exc.args and task.cancelling() == 0
        return [f"task group block whose own scope was cancelled by a child (no task failed, no enclosing scope is "
                f"cancelled, task.cancelling()={task.cancelling()}) raised {exc!r} while its host waited in "
                f"asyncio.gather()" + (f" [kf:{F49}]" if own else "")]
    except BaseException as exc:  # noqa: BLE001
        return [f"task group block whose own scope was cancelled raised {exc!r}"]
    return []


async def anyio_only_reference() -> list[str]:
    """The same shapes with AnyIO waits only: must be clean on every tree (guards the scenarios themselves)."""
    import anyio
    out = []
    with anyio.move_on_after(0.05) as scope:
        async with anyio.create_task_group() as tg:
            tg.start_soon(anyio.sleep, 3600)
            await anyio.sleep(3600)
    if not scope.cancelled_caught:
        out.append("reference: move_on_after() around an AnyIO task group did not absorb its own cancellation")
    return out


async def forwarded_to_native_task() -> list[str]:
    """C04: asyncio forwards the scope's Task.cancel(msg) to a native task the host awaits; in that task no AnyIO scope
    is cancelled, so nothing there may absorb the cancellation or report cancelled_caught."""
    import anyio
    out: list[str] = []
    log: list = []
    child_finished = False

    async def worker():
        nonlocal child_finished
        await anyio.sleep(0.5)
        child_finished = True

    async def native_body():
        async with anyio.create_task_group() as tg:
            tg.start_soon(worker)
        log.append((child_finished, tg.cancel_scope.cancel_called, tg.cancel_scope.cancelled_caught))
        return "value"

    try:
        with anyio.move_on_after(0.1) as scope:
            await asyncio.create_task(native_body())
    except BaseException as exc:  # noqa: BLE001
        out.append(f"move_on_after() around the await of a native task raised {exc!r}")
        t = asyncio.current_task()
        while t.cancelling():
            t.uncancel()
    for fin, called, caught in log:
        if not fin:
            out.append(f"a native asyncio task awaited inside move_on_after() received the scope's cancellation (forwarded "
                       f"by asyncio with AnyIO's message); the task group in it - in no cancelled scope - absorbed it: the "
                       f"code after the group ran although the group's child was cancelled, cancelled_caught={caught} "
                       f"on a scope nobody but the group itself cancelled (cancel_called={called}) [kf:{F50}]")
    return out


SCENARIOS = {
    "C04": [("native/scope_around_gather", scope_around_gather),
            ("native/scope_around_gather_return_exceptions", scope_around_gather_return_exceptions),
            ("native/forwarded_to_native_task", forwarded_to_native_task),
            ("native/anyio_only_reference", anyio_only_reference)],
    "C02": [("native/group_host_in_gather", group_host_in_gather),
            ("native/anyio_only_reference", anyio_only_reference)],
}


def run_all(pid: str) -> list[tuple[str, str]]:
    """All scenarios of a property in one fresh interpreter with a hard time limit."""
    env = dict(os.environ, PYTHONPATH=f"{REPO / 'src'}:{os.path.dirname(os.path.abspath(__file__))}", VERIF_REPO=str(REPO))
    try:
        p = subprocess.run([sys.executable, os.path.abspath(__file__), "--one", pid], env=env, stdout=subprocess.PIPE,
                           stderr=subprocess.DEVNULL, text=True, timeout=60)
        last = [l for l in p.stdout.splitlines() if l.startswith("RESULT ")]
        if not last:
            return [(f"native/{pid}", f"scenario process ended with status {p.returncode} and no result")]
        return [tuple(x) for x in json.loads(last[-1][7:])]
    except subprocess.TimeoutExpired:
        return [(f"native/{pid}", "the scenarios did not finish within 60 s")]


def _one(pid: str) -> None:
    out: list = []

    async def guarded(fn):
        # every scenario in a task of its own: a leaked cancellation must not take the others down
        r = await asyncio.gather(asyncio.create_task(fn()), return_exceptions=True)
        return r[0] if isinstance(r[0], list) else [f"scenario ended with {r[0]!r}"]

    async def main():
        for name, fn in SCENARIOS[pid]:
            try:
                msgs = await asyncio.wait_for(guarded(fn), 15)
            except asyncio.TimeoutError:
                msgs = ["the scenario never finished (15 s)"]
            out.extend([name, m] for m in msgs)
    try:
        asyncio.run(main())
    except BaseException as e:  # noqa: BLE001
        out.append([f"native/{pid}", f"scenario runner ended with {type(e).__name__}: {str(e)[:120]}"])
    print("RESULT " + json.dumps(out), flush=True)
    os._exit(0)


if __name__ == "__main__":
    if len(sys.argv) >= 3 and sys.argv[1] == "--one":
        src = str(REPO / "src")
        if src not in sys.path:
            sys.path.insert(0, src)
        _one(sys.argv[2])
    for pid in SCENARIOS:
        print(pid, run_all(pid) or "ok")
