"""C17 part (b): the REAL ssl module.  Real TLSStream pairs (client + server) over an in-memory transport pair
that re-fragments, coalesces and truncates the byte stream; history monitors for the clauses of C17 and checks of
the record-layer contract H_ssl that boundary/TlsPump.v assumes of the SSL object (where it is observable).

Nothing here uses wall-clock time, sockets or threads: the only nondeterminism is OpenSSL's own randomness
(nonces, signatures), which changes ciphertext bytes and (by a few bytes) lengths, never the structure."""

from __future__ import annotations

import random
import ssl
from dataclasses import dataclass, field

CHUNKINGS = ("one", "seven", "record", "coalesce", "random")


class Livelock(Exception):
    """The same reader was told 'end of stream' over and over: the pump loop above it is spinning."""


# ------------------------------------------------------------------------------------------------
# in-memory transport pair
# ------------------------------------------------------------------------------------------------

class Direction:
    """One direction of the connection: bytes written by `writer`, handed to the reader in re-chunked form."""

    def __init__(self, conn, name: str, chunking: str, rng: random.Random):
        self.conn = conn
        self.name = name
        self.chunking = chunking
        self.rng = rng
        self.wire = bytearray()          # every byte accepted from the writer
        self.send_sizes: list[int] = []  # sizes of the writer's send() calls
        self.delivered = 0               # bytes handed to the reader so far
        self.closed_by_writer = False    # writer called aclose()/send_eof()
        self.dead = False                # connection died: nothing more is accepted
        self.cut_at: int | None = None   # absolute offset after which nothing is delivered
        self.cut_rule = None             # ('abs', off) | ('rec', k, mode) - resolved to cut_at when determinable
        self.cut_triggered = False
        self.dropped = 0
        self.rec_bounds: list[tuple[int, int, int]] = []   # (start, type, total length incl. header)
        self._parsed = 0
        self.waiter = None               # anyio.Event of the blocked reader
        self.reader_closed = False

    # -- TLS record framing of what was written (5-byte plaintext header even in TLS 1.3) --
    def _parse(self):
        w = self.wire
        while self._parsed + 5 <= len(w):
            typ = w[self._parsed]
            ln = (w[self._parsed + 3] << 8) | w[self._parsed + 4]
            self.rec_bounds.append((self._parsed, typ, ln + 5))
            self._parsed += ln + 5
        self._resolve_cut()

    def _resolve_cut(self):
        if self.cut_at is not None or self.cut_rule is None:
            return
        if self.cut_rule[0] == "abs":
            self.cut_at = self.cut_rule[1]
        else:
            _, k, mode = self.cut_rule
            if k < len(self.rec_bounds):
                start, _typ, total = self.rec_bounds[k]
                off = {"start": 0, "hdr": 3, "body0": 5, "mid": 5 + (total - 5) // 2, "last": total - 1}[mode]
                self.cut_at = start + min(off, total - 1)

    def limit(self) -> int:
        """Number of bytes of `wire` that may be shown to the reader."""
        if self.cut_at is not None:
            return min(len(self.wire), self.cut_at)
        if self.cut_rule is not None and self.cut_rule[0] == "rec":
            # do not run ahead of a cut that is not located yet: hold back the (incomplete) tail record
            k = self.cut_rule[1]
            if k < len(self.rec_bounds):
                return min(len(self.wire), self.rec_bounds[k][0])
            return min(len(self.wire), self._parsed)
        return len(self.wire)

    def write(self, data: bytes):
        if self.dead:
            self.dropped += len(data)
            return
        self.wire += data
        self.send_sizes.append(len(data))
        self._parse()
        if self.cut_at is not None and len(self.wire) >= self.cut_at and not self.cut_triggered:
            self.cut_triggered = True
            self.dropped += len(self.wire) - self.cut_at
            self.conn.kill()
        self.wake()

    def wake(self):
        if self.waiter is not None:
            self.waiter.set()

    def at_eof(self) -> bool:
        return self.delivered >= self.limit() and (self.dead or self.closed_by_writer)

    def take(self, max_bytes: int) -> bytes:
        avail = self.limit() - self.delivered
        assert avail > 0
        if self.chunking == "one":
            n = 1
        elif self.chunking == "seven":
            n = 7
        elif self.chunking == "record":
            # the next record of the stream (or what is left of it)
            n = avail
            for (start, _t, total) in self.rec_bounds:
                if start <= self.delivered < start + total:
                    n = start + total - self.delivered
                    break
        elif self.chunking == "coalesce":
            n = avail
        else:
            n = self.rng.choice([1, 2, 3, 5, 17, 100, 1000, 5000, 16384, 20000, 70000])
        n = max(1, min(n, avail, max_bytes))
        out = bytes(self.wire[self.delivered:self.delivered + n])
        self.delivered += n
        return out


class Connection:
    def __init__(self, chunk_cs: str, chunk_sc: str, rng: random.Random):
        self.cs = Direction(self, "c2s", chunk_cs, rng)
        self.sc = Direction(self, "s2c", chunk_sc, rng)
        self.activity = 0
        self.killed = False
        self.aborted = False             # set by the watchdog: every further transport call fails at once

    def kill(self):
        """The connection dies: nothing more is accepted in either direction; buffered bytes (up to a cut) are
        still delivered, then the readers see the end of the stream."""
        self.killed = True
        for d in (self.cs, self.sc):
            d.dead = True
            d.wake()


def make_endpoint_class():
    import anyio
    from anyio.abc import ByteStream

    class MemEndpoint(ByteStream):
        """AnyByteStream endpoint of a Connection."""

        def __init__(self, conn: Connection, out: Direction, inp: Direction, label: str):
            self.conn, self.out, self.inp, self.label = conn, out, inp, label
            self.closed = False
            self.owner = None            # the TLSStream on top (set after wrap) - observation only
            self.in_send = 0
            self.flags: set[str] = set()
            self.mon: list[str] = []
            self.n_receive = 0
            self.n_send = 0
            self.eof_reports = 0
            self.forced_close = False

        async def send(self, item: bytes) -> None:
            if self.conn.aborted:
                raise Livelock
            if self.closed:
                raise anyio.ClosedResourceError
            self.conn.activity += 1
            self.n_send += 1
            if self.in_send:
                self.flags.add("concurrent_transport_send")
            self.in_send += 1
            try:
                # a transport takes a large item in pieces (a socket's send buffer): the bytes of ONE send() call reach
                # the wire over several scheduling steps, so two overlapping send() calls interleave on the wire - the
                # layer above must never have two in flight (SocketStream refuses the second with BusyResourceError)
                item = bytes(item)
                if len(item) > 32768:
                    self.flags.add("transport_send_in_pieces")
                    for off in range(0, len(item), 16384):
                        self.out.write(item[off:off + 16384])
                        await anyio.lowlevel.checkpoint()
                else:
                    self.out.write(item)
                    await anyio.lowlevel.checkpoint()
            finally:
                self.in_send -= 1

        async def receive(self, max_bytes: int = 65536) -> bytes:
            if self.conn.aborted:
                raise Livelock
            if self.closed:
                raise anyio.ClosedResourceError
            self.n_receive += 1
            if self.owner is not None and self.owner._write_bio.pending:
                self.mon.append(f"{self.label}: transport.receive() awaited while {self.owner._write_bio.pending} "
                                f"bytes of produced ciphertext were still unsent")
            d = self.inp
            if d.chunking == "coalesce":
                for _ in range(3):
                    await anyio.lowlevel.checkpoint()
            while True:
                if self.closed:
                    raise anyio.ClosedResourceError
                if d.limit() - d.delivered > 0:
                    self.conn.activity += 1
                    await anyio.lowlevel.checkpoint()
                    return d.take(max_bytes)
                if d.at_eof():
                    self.conn.activity += 1
                    self.eof_reports += 1
                    if self.eof_reports > 25:
                        self.mon.append(f"{self.label}: livelock: the pump loop kept calling transport.receive() after "
                                        f"{self.eof_reports - 1} EndOfStream reports")
                        raise Livelock
                    await anyio.lowlevel.checkpoint()
                    raise anyio.EndOfStream
                d.waiter = anyio.Event()
                try:
                    await d.waiter.wait()
                finally:
                    d.waiter = None

        async def send_eof(self) -> None:
            self.out.closed_by_writer = True
            self.out.wake()

        async def aclose(self) -> None:
            if anyio.current_effective_deadline() == float("-inf"):
                self.forced_close = True
            self.closed = True
            self.out.closed_by_writer = True
            self.inp.reader_closed = True
            self.conn.activity += 1
            self.out.wake()
            self.inp.wake()

    return MemEndpoint


# ------------------------------------------------------------------------------------------------
# scenarios
# ------------------------------------------------------------------------------------------------

@dataclass
class Scenario:
    version: str                      # "1.2" | "1.3"
    std_c: bool
    std_s: bool
    chunk_cs: str
    chunk_sc: str
    payload_c: list[int]              # sizes of the items the client sends
    payload_s: list[int]
    recv_c: list[int]                 # max_bytes values used (cyclically) by the client's receive loop
    recv_s: list[int]
    cut: tuple | None = None          # ("c2s"|"s2c", rule) with rule = ("abs", off) | ("rec", k, mode)
    initiator: str = "client"         # which side closes first
    seed: int = 0
    mode: str = "normal"              # "normal" | "half_close": client sends its items, then transport.send_eof()
                                      #   WITHOUT close_notify and waits; the server reads to the end and THEN replies
                                      # | "duplex_reply": the client's reader task is already parked in receive() when
                                      #   its writer task sends and then idles; the server replies only after it has
                                      #   received the complete request
    cancel_probe: int = 0             # k > 0: every k-th receive() is called inside an already cancelled scope

    def to_json(self):
        return {k: getattr(self, k) for k in self.__dataclass_fields__}

    @staticmethod
    def from_json(j):
        j = dict(j)
        if j.get("cut") is not None:
            d, rule = j["cut"]
            j["cut"] = (d, tuple(rule))
        return Scenario(**j)


@dataclass
class SideResult:
    role: str
    std: bool
    hs_exc: BaseException | None = None
    got: bytearray = field(default_factory=bytearray)
    recv_calls: int = 0
    recv_exc: BaseException | None = None      # what ended the receive loop (None: all expected bytes arrived)
    send_exc: BaseException | None = None
    sent_items: int = 0
    final_exc: BaseException | None = None     # responder's extra receive()
    final_done: bool = False
    final_data: bytes = b""
    close_started: bool = False
    close_exc: BaseException | None = None
    close_done: bool = False
    ssl_read_outcomes: list = field(default_factory=list)
    mon: list[str] = field(default_factory=list)
    cancelled_receives: int = 0
    half_closed: bool = False


class SSLProxy:
    """Wraps the real ssl.SSLObject of a TLSStream after the handshake: logs what read() answered (for the H_ssl
    checks) and forwards everything."""

    def __init__(self, obj, res: SideResult):
        self._obj = obj
        self._res = res

    def read(self, n=1024, *a):
        try:
            data = self._obj.read(n, *a)
        except ssl.SSLError as e:
            kind = type(e).__name__
            if not isinstance(e, (ssl.SSLWantReadError, ssl.SSLWantWriteError)):
                self._res.ssl_read_outcomes.append((kind, getattr(e, "reason", None), str(e.strerror)))
            raise
        if len(data) > n:
            self._res.mon.append(f"H_ssl: SSLObject.read({n}) returned {len(data)} bytes")
        if not data:
            self._res.ssl_read_outcomes.append(("empty", None, None))
        return data

    def __getattr__(self, name):
        return getattr(self._obj, name)


def payload_bytes(seed: int, role: str, sizes: list[int]) -> list[bytes]:
    r = random.Random(f"{seed}/{role}")
    out = []
    for n in sizes:
        if n <= 64:
            out.append(bytes(r.getrandbits(8) for _ in range(n)))
        else:
            base = bytes(r.getrandbits(8) for _ in range(61))
            out.append((base * (n // 61 + 1))[:n])
    return out


class Certs:
    def __init__(self):
        import trustme

        self.ca = trustme.CA()
        self.cert = self.ca.issue_cert("localhost")

    def contexts(self, version: str):
        v = ssl.TLSVersion.TLSv1_2 if version == "1.2" else ssl.TLSVersion.TLSv1_3
        sctx = ssl.create_default_context(ssl.Purpose.CLIENT_AUTH)
        cctx = ssl.create_default_context(ssl.Purpose.SERVER_AUTH)
        for c in (sctx, cctx):
            if hasattr(ssl, "OP_IGNORE_UNEXPECTED_EOF"):
                c.options &= ~ssl.OP_IGNORE_UNEXPECTED_EOF
            c.minimum_version = v
            c.maximum_version = v
        self.cert.configure_cert(sctx)
        self.ca.configure_trust(cctx)
        return cctx, sctx


async def run_scenario(sc: Scenario, certs: Certs, idle_limit: int = 400):
    """Runs one scenario on the current event loop.  Returns (client SideResult, server SideResult, Connection,
    endpoints, deadlocked)."""
    import anyio
    from anyio.streams.tls import TLSStream

    MemEndpoint = make_endpoint_class()
    rng = random.Random(f"{sc.seed}/chunks")
    conn = Connection(sc.chunk_cs, sc.chunk_sc, rng)
    if sc.cut is not None:
        d = conn.cs if sc.cut[0] == "c2s" else conn.sc
        d.cut_rule = tuple(sc.cut[1])
        d._resolve_cut()
        if d.cut_at == 0:
            d.cut_triggered = True
            conn.kill()
    ep_c = MemEndpoint(conn, conn.cs, conn.sc, "client")
    ep_s = MemEndpoint(conn, conn.sc, conn.cs, "server")
    cctx, sctx = certs.contexts(sc.version)
    items_c = payload_bytes(sc.seed, "client", sc.payload_c)
    items_s = payload_bytes(sc.seed, "server", sc.payload_s)
    res_c = SideResult("client", sc.std_c)
    res_s = SideResult("server", sc.std_s)
    state = {"done": 0}

    async def side(role: str):
        res = res_c if role == "client" else res_s
        ep = ep_c if role == "client" else ep_s
        items = items_c if role == "client" else items_s
        expected = sum(sc.payload_s if role == "client" else sc.payload_c)
        sizes = sc.recv_c if role == "client" else sc.recv_s
        stream = None
        try:
            try:
                if role == "client":
                    stream = await TLSStream.wrap(ep, hostname="localhost", ssl_context=cctx,
                                                  standard_compatible=res.std)
                else:
                    stream = await TLSStream.wrap(ep, server_side=True, ssl_context=sctx,
                                                  standard_compatible=res.std)
            except Exception as e:  # noqa: BLE001
                res.hs_exc = e
                return
            ep.owner = stream
            stream._ssl_object = SSLProxy(stream._ssl_object, res)

            async def sender():
                for it in items:
                    conn.activity += 1
                    try:
                        await stream.send(it)
                    except Exception as e:  # noqa: BLE001
                        res.send_exc = e
                        return
                    res.sent_items += 1
                    if stream._write_bio.pending and not conn.killed and res.recv_exc is None:
                        res.mon.append(f"{role}: send() of {len(it)} bytes returned normally with "
                                       f"{stream._write_bio.pending} bytes of ciphertext still unsent in the outgoing BIO")

            async def receiver():
                i = 0
                while len(res.got) < expected:
                    n = sizes[i % len(sizes)]
                    i += 1
                    conn.activity += 1
                    probe = sc.cancel_probe and i % sc.cancel_probe == 0
                    try:
                        if probe:
                            # a receive() that is cancelled must not have consumed anything
                            data = None
                            with anyio.CancelScope() as scope:
                                scope.cancel()
                                data = await stream.receive(n)
                            if data is None:
                                res.cancelled_receives += 1
                                continue
                        else:
                            data = await stream.receive(n)
                    except Exception as e:  # noqa: BLE001
                        res.recv_exc = e
                        return
                    res.recv_calls += 1
                    if stream._write_bio.pending and not conn.killed and res.send_exc is None:
                        res.mon.append(f"{role}: receive() returned normally with {stream._write_bio.pending} bytes of "
                                       f"ciphertext still unsent in the outgoing BIO")
                    if not (1 <= len(data) <= n):
                        res.mon.append(f"{role}: receive({n}) returned {len(data)} bytes")
                    res.got += data

            if sc.mode == "half_close":
                if role == "client":
                    await sender()
                    await ep.send_eof()            # ragged end of the client->server direction, no close_notify
                    res.half_closed = True
                    await receiver()               # ... and wait for the answer
                else:
                    await receiver()               # the request
                    if res.recv_exc is None:
                        try:
                            res.final_data = await stream.receive(100)
                            res.final_done = True
                        except Exception as e:  # noqa: BLE001
                            res.final_exc = e
                    await sender()                 # the answer, AFTER the end of the request was seen
                return

            if sc.mode == "duplex_reply" and role == "server":
                await receiver()                   # the complete request first ...
                await sender()                     # ... then the reply
            elif sc.mode == "duplex_reply":
                async def late_sender():
                    for _ in range(20):            # the reader task is parked in receive() by now
                        await anyio.lowlevel.checkpoint()
                    await sender()                 # ... and then this task idles: nothing else flushes

                async with anyio.create_task_group() as tg:
                    tg.start_soon(receiver)
                    tg.start_soon(late_sender)
            else:
                async with anyio.create_task_group() as tg:
                    tg.start_soon(sender)
                    tg.start_soon(receiver)

            if res.recv_exc is None and res.send_exc is None:
                if role != sc.initiator:
                    # responder: the peer closes first; the next receive() reports how the stream ended
                    try:
                        res.final_data = await stream.receive(100)
                        res.final_done = True
                    except Exception as e:  # noqa: BLE001
                        res.final_exc = e
                res.close_started = True
                try:
                    await stream.aclose()
                    res.close_done = True
                except Exception as e:  # noqa: BLE001
                    res.close_exc = e
        finally:
            state["done"] += 1
            if not ep.closed:
                await anyio.aclose_forcefully(ep)

    deadlocked = False

    async def watchdog(scope):
        nonlocal deadlocked
        last, idle, cycles = -1, 0, 0
        while state["done"] < 2:
            await anyio.lowlevel.checkpoint()
            cycles += 1
            if conn.activity == last:
                idle += 1
            else:
                last, idle = conn.activity, 0
            if idle > idle_limit or cycles > 3_000_000:
                # nothing moves any more (or the scenario spins without end): abort it deterministically
                deadlocked = True
                conn.aborted = True
                for d in (conn.cs, conn.sc):
                    d.wake()
                scope.cancel()
                return

    async with anyio.create_task_group() as tg:
        tg.start_soon(side, "client")
        tg.start_soon(side, "server")
        tg.start_soon(watchdog, tg.cancel_scope)
    return res_c, res_s, conn, (ep_c, ep_s), deadlocked


# ------------------------------------------------------------------------------------------------
# monitors (model-independent) on the history of one scenario
# ------------------------------------------------------------------------------------------------

def exc_name(e) -> str:
    return "none" if e is None else type(e).__name__


def is_unexpected_eof_kind(outcome) -> bool:
    kind, reason, strerror = outcome
    return kind in ("SSLEOFError", "SSLSyscallError") or (strerror and "UNEXPECTED_EOF" in strerror) or \
        (reason and "UNEXPECTED_EOF" in str(reason))


def monitors(sc: Scenario, res_c: SideResult, res_s: SideResult, conn: Connection, eps, deadlocked: bool):
    """Returns (violations: list[str], flags: set[str])."""
    import anyio

    if sc.mode == "half_close":
        return monitors_half_close(sc, res_c, res_s, conn, eps, deadlocked)
    v: list[str] = []
    flags: set[str] = set()
    if res_c.cancelled_receives or res_s.cancelled_receives:
        flags.add("cancelled_receive")
    items = {"client": payload_bytes(sc.seed, "client", sc.payload_c),
             "server": payload_bytes(sc.seed, "server", sc.payload_s)}
    for ep in eps:
        v += ep.mon
        flags |= ep.flags
    for res, peer, d_in in ((res_c, res_s, conn.sc), (res_s, res_c, conn.cs)):
        role = res.role
        v += res.mon
        sent_plain = b"".join(items[peer.role])
        got = bytes(res.got)
        # 1. faithful, in order
        if got != sent_plain[:len(got)]:
            k = next(i for i in range(len(got)) if got[i] != sent_plain[i])
            v.append(f"{role}: received plaintext differs from what the peer sent at byte {k} "
                     f"(got {len(got)} bytes, peer sent {len(sent_plain)})")
        # was this side's incoming stream ended without the peer's closing handshake?
        truncated = d_in.cut_triggered or (conn.killed and not d_in.closed_by_writer) or \
            (d_in.closed_by_writer and not (peer.close_started and peer.std)) or d_in.dropped > 0
        clean = peer.close_started and peer.std and not d_in.cut_triggered and d_in.dropped == 0
        if truncated:
            flags.add("truncated_" + ("std" if res.std else "nonstd"))
        # 2. how the end was reported
        ends = []
        if res.hs_exc is not None:
            ends.append(("handshake", res.hs_exc))
        if res.recv_exc is not None:
            ends.append(("receive", res.recv_exc))
        if res.final_exc is not None:
            ends.append(("receive-after-data", res.final_exc))
        if res.final_done:
            v.append(f"{role}: receive() after the peer's end returned {len(res.final_data)} bytes instead of raising")
        for where, e in ends:
            name = exc_name(e)
            flags.add(f"{where}:{name}:{'std' if res.std else 'nonstd'}")
            if isinstance(e, anyio.EndOfStream):
                if res.std and not clean:
                    v.append(f"{role} (standard_compatible): stream that ended without the closing handshake "
                             f"reported as a clean EndOfStream by {where}")
                if len(got) < len(sent_plain) and clean and where != "handshake":
                    v.append(f"{role}: EndOfStream after {len(got)} of {len(sent_plain)} bytes of a completely "
                             f"delivered, cleanly closed stream")
            elif isinstance(e, anyio.BrokenResourceError):
                if not truncated and not deadlocked and not peer_failed(peer):
                    v.append(f"{role}: BrokenResourceError from {where} although the peer closed cleanly")
                if truncated and not res.std and where != "handshake" and not peer_failed(peer):
                    v.append(f"{role} (not standard_compatible): truncation reported as BrokenResourceError "
                             f"instead of EndOfStream by {where}")
            elif isinstance(e, ssl.SSLError) and where == "handshake" and truncated:
                pass   # the handshake failed: acceptable report of a connection cut during the handshake
            else:
                v.append(f"{role}: unexpected {name} from {where}: {e!r}")
        if truncated and res.std and res.hs_exc is None and not ends and len(got) == len(sent_plain) and \
                role != sc.initiator and not deadlocked:
            v.append(f"{role} (standard_compatible): truncated stream ended without any error")
        # 3. complete delivery when nothing was cut
        if not conn.killed and not deadlocked:
            if res.hs_exc is not None or res.recv_exc is not None or res.send_exc is not None:
                v.append(f"{role}: failure on an intact connection: hs={exc_name(res.hs_exc)} "
                         f"recv={exc_name(res.recv_exc)} send={exc_name(res.send_exc)}")
            elif got != sent_plain:
                v.append(f"{role}: only {len(got)} of {len(sent_plain)} bytes arrived on an intact connection")
            if role != sc.initiator and peer.std and res.hs_exc is None and res.recv_exc is None:
                if not isinstance(res.final_exc, anyio.EndOfStream):
                    v.append(f"{role}: peer's closing handshake not reported as EndOfStream but {exc_name(res.final_exc)}")
                else:
                    flags.add("clean_eos_" + ("std" if res.std else "nonstd"))
            if res.std and peer.std and res.close_started and not res.close_done:
                v.append(f"{role}: aclose() raised {exc_name(res.close_exc)} on an intact connection")
        # 4. H_ssl as observed on the real SSLObject
        for oc in res.ssl_read_outcomes:
            if oc[0] == "empty":
                if not clean:
                    v.append(f"{role}: H_ssl: SSLObject.read() returned b'' although no close_notify was delivered")
                flags.add("hssl_empty_read_after_close_notify")
            elif oc[0] == "SSLZeroReturnError":
                flags.add("hssl_zero_return")
            elif is_unexpected_eof_kind(oc):
                if not truncated:
                    v.append(f"{role}: H_ssl: SSL object reported {oc} on a stream that was not truncated")
                flags.add("hssl_unexpected_eof_on_cut")
            else:
                if truncated and not peer_failed(peer):
                    v.append(f"{role}: H_ssl: truncated stream reported by the SSL object as {oc}")
    if deadlocked:
        v.append("deadlock: every task is blocked and no byte moves (handshake or data never completes)")
    return v, flags


def monitors_half_close(sc: Scenario, res_c: SideResult, res_s: SideResult, conn: Connection, eps, deadlocked: bool):
    """Client: request, transport.send_eof() (no close_notify), wait for the reply.  Server: read the request, read on
    to the end, THEN reply.  standard_compatible=False on the server: the end is EndOfStream and the reply must be
    sent and arrive byte for byte; standard_compatible=True: the end is BrokenResourceError (truncation)."""
    import anyio

    v: list[str] = []
    flags: set[str] = {"half_close_" + ("std" if res_s.std else "nonstd")}
    if deadlocked:
        v.append("deadlock: every task is blocked and no byte moves")
    for ep in eps:
        v += ep.mon
        flags |= ep.flags
    v += res_c.mon + res_s.mon
    request = b"".join(payload_bytes(sc.seed, "client", sc.payload_c))
    reply = b"".join(payload_bytes(sc.seed, "server", sc.payload_s))
    for res in (res_c, res_s):
        if res.hs_exc is not None:
            v.append(f"{res.role}: handshake failed on an intact connection: {exc_name(res.hs_exc)}")
            return v, flags
    if res_c.send_exc is not None:
        v.append(f"client: send() of the request raised {exc_name(res_c.send_exc)}")
    if bytes(res_s.got) != request:
        v.append(f"server: received {len(res_s.got)} of {len(request)} request bytes ({exc_name(res_s.recv_exc)})")
    if res_s.final_done:
        v.append(f"server: receive() after the ragged end returned {len(res_s.final_data)} bytes instead of raising")
    if res_s.recv_exc is None:
        if res_s.std:
            if not isinstance(res_s.final_exc, anyio.BrokenResourceError):
                v.append(f"server (standard_compatible): stream that ended without the closing handshake reported as "
                         f"{exc_name(res_s.final_exc)} instead of BrokenResourceError")
            flags.add("half_close_broken_std")
        else:
            if not isinstance(res_s.final_exc, anyio.EndOfStream):
                v.append(f"server (not standard_compatible): ragged end reported as {exc_name(res_s.final_exc)} "
                         f"instead of EndOfStream")
            # the other direction is still open: the reply must go out and arrive
            if res_s.send_exc is not None or res_s.sent_items != len(sc.payload_s):
                v.append(f"server (not standard_compatible): after receive() had reported the peer's ragged end as "
                         f"EndOfStream, send() raised {exc_name(res_s.send_exc)} "
                         f"({res_s.sent_items} of {len(sc.payload_s)} items sent): the still open direction is dead")
            if bytes(res_c.got) != reply:
                v.append(f"client: only {len(res_c.got)} of {len(reply)} reply bytes arrived after the half-close "
                         f"({exc_name(res_c.recv_exc)}): data written in the still open direction is not transported")
            elif reply:
                flags.add("reply_after_ragged_eof_delivered")
    got = bytes(res_c.got)
    if got != reply[:len(got)]:
        v.append("client: reply bytes differ from what the server sent")
    return v, flags


def peer_failed(peer: SideResult) -> bool:
    return peer.hs_exc is not None or peer.recv_exc is not None or peer.send_exc is not None


# ------------------------------------------------------------------------------------------------
# H_ssl checked directly on a pair of ssl.SSLObject (no anyio at all)
# ------------------------------------------------------------------------------------------------

def hssl_direct(certs: Certs, version: str, rng: random.Random, n_payload: int, cut: bool) -> list[str]:
    """ciphertext delivered completely and in order (in arbitrary fragments) decrypts to the plaintext in order;
    read(n) <= n; cut before close_notify -> unexpected-EOF error; after close_notify -> b''."""
    bad = []
    cctx, sctx = certs.contexts(version)
    ci, co, si, so = ssl.MemoryBIO(), ssl.MemoryBIO(), ssl.MemoryBIO(), ssl.MemoryBIO()
    c = cctx.wrap_bio(ci, co, server_side=False, server_hostname="localhost")
    s = sctx.wrap_bio(si, so, server_side=True)
    done = [False, False]
    for _ in range(20):
        for i, (o, outb, peer_in) in enumerate(((c, co, si), (s, so, ci))):
            if not done[i]:
                try:
                    o.do_handshake()
                    done[i] = True
                except ssl.SSLWantReadError:
                    pass
            data = outb.read()
            if data:
                peer_in.write(data)
        if all(done):
            break
    if not all(done):
        return [f"H_ssl direct: handshake did not complete ({version})"]
    plain = bytes(rng.getrandbits(8) for _ in range(min(n_payload, 4096))) * (n_payload // 4096 + 1)
    plain = plain[:n_payload]
    pos = 0
    while pos < len(plain):
        pos += c.write(plain[pos:pos + rng.choice([1, 100, 16384, 40000])])
    wire = co.read()
    if not cut:
        try:
            c.unwrap()
        except ssl.SSLWantReadError:
            pass
        wire += co.read()
    else:
        wire = wire[:rng.randrange(0, len(wire))] if wire else wire
    got = bytearray()
    i = 0
    end = None
    while end is None:
        n = rng.choice([1, 10, 1000, 70000])
        try:
            d = s.read(n)
            if len(d) > n:
                bad.append(f"H_ssl direct: read({n}) returned {len(d)} bytes")
            if not d:
                end = "empty"
            got += d
        except ssl.SSLWantReadError:
            if i >= len(wire):
                si.write_eof()
                try:
                    d = s.read(n)
                    end = "empty" if not d else None
                    got += d
                except ssl.SSLWantReadError:
                    end = "wantread-at-eof"
                except ssl.SSLError as e:
                    end = (type(e).__name__, getattr(e, "reason", None), str(e.strerror))
            else:
                k = rng.choice([1, 3, 7, 500, 20000])
                si.write(wire[i:i + k])
                i += k
        except ssl.SSLError as e:
            end = (type(e).__name__, getattr(e, "reason", None), str(e.strerror))
    if bytes(got) != plain[:len(got)]:
        bad.append(f"H_ssl direct: decrypted stream is not a prefix of the plaintext ({version})")
    if not cut:
        if bytes(got) != plain:
            bad.append(f"H_ssl direct: {len(got)} of {len(plain)} bytes decrypted from the complete ciphertext ({version})")
        if end != "empty":
            bad.append(f"H_ssl direct: end after close_notify reported as {end} ({version})")
    else:
        if end == "empty" or (isinstance(end, tuple) and not is_unexpected_eof_kind(end)) or end == "wantread-at-eof":
            bad.append(f"H_ssl direct: truncated ciphertext reported as {end} ({version})")
    return bad
