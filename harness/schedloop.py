"""SchedLoop: a schedule-controlled, virtual-time asyncio event loop.

Nothing runs unless the harness asks for it:
  * ``run_handle(h)``  removes ready entry ``h`` from the ready queue and runs it
  * ``advance(dt)``    moves the virtual clock and transfers due timers to the ready queue
  * ``call_soon(cb)``  (from outside) injects an outside event

Real C-accelerated ``asyncio.Task``/``Future`` objects run on top of it, so AnyIO's
asyncio backend is exercised unmodified.  The loop is "running" (``asyncio.get_running_loop()``
works) for the duration of a ``with loop.session():`` block.
"""

from __future__ import annotations

import asyncio
import heapq
from asyncio import events
from contextlib import contextmanager


class SchedLoop(asyncio.BaseEventLoop):
    def __init__(self) -> None:
        super().__init__()
        self._vtime = 0.0
        self._seq = 0
        self._vtimers: list = []  # heap of (when, seq, handle)
        self._clock_resolution = 0.0
        self.errors: list = []
        self.set_exception_handler(self._on_error)

    # -- BaseEventLoop plumbing -------------------------------------------------
    def _on_error(self, loop, context):  # pragma: no cover - diagnostics
        self.errors.append(context)

    def time(self) -> float:
        return self._vtime

    def _process_events(self, event_list):  # never used: we do not call _run_once
        pass

    def _write_to_self(self):  # call_soon_threadsafe wake-up: nothing to wake
        pass

    def call_at(self, when, callback, *args, context=None):
        self._check_closed()
        h = events.TimerHandle(when, callback, args, self, context)
        self._seq += 1
        heapq.heappush(self._vtimers, (when, self._seq, h))
        h._scheduled = True
        return h

    def call_later(self, delay, callback, *args, context=None):
        return self.call_at(self._vtime + delay, callback, *args, context=context)

    def _timer_handle_cancelled(self, handle):
        pass

    # -- harness API ------------------------------------------------------------
    @contextmanager
    def session(self):
        old = events._get_running_loop()
        events._set_running_loop(self)
        try:
            yield self
        finally:
            events._set_running_loop(old)

    def ready_handles(self):
        """Live (non-cancelled) ready entries, in queue order."""
        return [h for h in self._ready if not h._cancelled]

    def purge_cancelled(self):
        live = [h for h in self._ready if not h._cancelled]
        self._ready.clear()
        self._ready.extend(live)

    def run_handle(self, h) -> None:
        self._ready.remove(h)
        if not h._cancelled:
            h._run()

    def run_head(self) -> bool:
        while self._ready:
            h = self._ready.popleft()
            if h._cancelled:
                continue
            h._run()
            return True
        return False

    def live_timers(self):
        return sorted(
            ((w, s, h) for (w, s, h) in self._vtimers if not h._cancelled),
            key=lambda x: (x[0], x[1]),
        )

    def advance(self, dt: float) -> int:
        """Move the clock by dt and move due timers to the ready queue in (when, seq) order."""
        self._vtime += dt
        n = 0
        while self._vtimers and self._vtimers[0][0] <= self._vtime + self._clock_resolution:
            _, _, h = heapq.heappop(self._vtimers)
            h._scheduled = False
            if h._cancelled:
                continue
            self._ready.append(h)
            n += 1
        return n

    def next_timer(self):
        lt = self.live_timers()
        return lt[0][0] if lt else None

    def run_cycle(self) -> int:
        """One FIFO cycle: run every handle that is in the ready queue now."""
        n = len(self._ready)
        k = 0
        for _ in range(n):
            if not self._ready:
                break
            h = self._ready.popleft()
            if h._cancelled:
                continue
            h._run()
            k += 1
        return k

    def run_until_idle(self, max_cycles: int = 10000, advance_time: bool = True) -> int:
        cycles = 0
        while cycles < max_cycles:
            if self._ready:
                self.run_cycle()
                cycles += 1
                continue
            nt = self.next_timer() if advance_time else None
            if nt is None:
                break
            self.advance(max(nt - self._vtime, 0.0))
        return cycles


def handle_owner(h):
    """Classify a ready handle: ('task', task) for task steps / wake-ups,
    ('deliver', scope), ('timeout', scope), ('other', callback)."""
    cb = h._callback
    owner = getattr(cb, "__self__", None)
    name = type(cb).__name__
    if isinstance(owner, asyncio.Task):
        return ("task", owner)
    if name == "TaskStepMethWrapper":
        # C wrapper has no __self__; the task is reachable through repr only, so we
        # resolve it by the harness' registry instead (see Puppets.find_task_for_handle)
        return ("taskstep", cb)
    fname = getattr(cb, "__name__", "")
    if fname == "_deliver_cancellation":
        return ("deliver", owner)
    if fname == "_timeout":
        return ("timeout", owner)
    return ("other", cb)
