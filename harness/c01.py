"""C01 — see DESIGN.md §6; S-machine check (model scopes/Machine.v, monitors in scommon.py)."""
import scommon

DRIVERS = [("smachine", "Machine")]


def check(tier: str) -> int:
    return scommon.scheck("C01", tier)


def replay(path: str) -> int:
    return scommon.sreplay("C01", path)
