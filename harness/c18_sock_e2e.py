"""C18 end-to-end monitors on REAL sockets (no model involved): anyio.connect_tcp / create_tcp_listener on 127.0.0.1,
connect_unix / create_unix_listener in a temp dir under /verif/build/tmp, and SocketStream.from_socket over a
socketpair (wrap_stream_socket), on the stock asyncio loop or on uvloop.

    python c18_sock_e2e.py <tcp|unix|wrap> <asyncio|uvloop> <quick|thorough> <seed> [only-scenario]

prints one JSON object: {"config":…, "violations":[{"what":…, "scenario":…, "params":…}], "facts":{…}}.
Only order-insensitive facts are compared (bytes intact / in order / not duplicated, chunk bounds, exception
classes, bounded buffering), so the run is deterministic under the seed as far as the OS allows."""

from __future__ import annotations

import json
import os
import random
import shutil
import socket
import sys
import time
from pathlib import Path

PAT_LEN = (1 << 20) + 13
PAT = random.Random(20260923).randbytes(PAT_LEN) * 2
MiB = 1 << 20


def pattern(off: int, n: int) -> bytes:
    """The n bytes of the reference stream starting at offset off."""
    out = bytearray()
    while n > 0:
        o = off % PAT_LEN
        k = min(n, PAT_LEN)
        out += PAT[o:o + k]
        off += k
        n -= k
    return bytes(out)


class Ctx:
    def __init__(self, family, loopname, tier, seed):
        self.family, self.loopname, self.tier, self.seed = family, loopname, tier, seed
        self.violations: list[dict] = []
        self.known: list[dict] = []       # hits of predicates that may be recorded in known_findings.json (decided by c18.check)
        self.facts: dict = {}
        self.tmp = Path(__file__).resolve().parent.parent / "build" / "tmp" / f"c18-e2e-{os.getpid()}"
        self.nsock = 0

    def viol(self, scenario, what, params):
        self.violations.append({"scenario": scenario, "what": what, "params": params})

    def fact(self, key, val):
        self.facts.setdefault(key, []).append(val)


async def make_pair(ctx: Ctx):
    """(connecting side, accepting side, cleanup)"""
    import anyio
    from anyio.abc import SocketStream

    if ctx.family == "tcp":
        ml = await anyio.create_tcp_listener(local_host="127.0.0.1")
        port = ml.extra(anyio.abc.SocketAttribute.local_port)
        a = await anyio.connect_tcp("127.0.0.1", port)
        b = await ml.listeners[0].accept()
        return a, b, ml
    if ctx.family == "unix":
        ctx.tmp.mkdir(parents=True, exist_ok=True)
        ctx.nsock += 1
        path = str(ctx.tmp / f"s{ctx.nsock}")
        listener = await anyio.create_unix_listener(path)
        a = await anyio.connect_unix(path)
        b = await listener.accept()
        return a, b, listener
    s1, s2 = socket.socketpair()
    s1.setblocking(False)
    s2.setblocking(False)
    a = await SocketStream.from_socket(s1)
    b = await SocketStream.from_socket(s2)
    return a, b, None


def rq_bytes(stream) -> int:
    p = getattr(stream, "_protocol", None)
    return sum(len(c) for c in p.read_queue) if p is not None else 0


def wbuf(stream) -> int:
    t = getattr(stream, "_transport", None)
    try:
        return t.get_write_buffer_size() if t is not None else 0
    except Exception:  # noqa: BLE001
        return 0


def check_fresh(ctx, name, stream, side):
    """HEAD: every constructor leaves the transport paused (no reading before the first receive())."""
    t = getattr(stream, "_transport", None)
    if t is not None and hasattr(t, "is_reading") and t.is_reading():
        ctx.viol(name, f"transport of a freshly created stream ({side}) is reading although no receive() is waiting", {})


class Receiver:
    """Consumes a stream with the given max_bytes cycle, checking every chunk against the reference stream."""

    def __init__(self, ctx, name, stream, maxes, params):
        self.ctx, self.name, self.stream, self.maxes, self.params = ctx, name, stream, maxes, params
        self.off = 0
        self.n = 0
        self.peak_rq = 0
        self.ok = True
        self.ended = None

    async def one(self):
        mx = self.maxes[self.n % len(self.maxes)]
        self.n += 1
        c = await self.stream.receive(mx)
        if not (1 <= len(c) <= mx):
            self.ok = False
            self.ctx.viol(self.name, f"receive({mx}) returned {len(c)} bytes", self.params)
        if self.ok and c != pattern(self.off, len(c)):
            self.ok = False
            self.ctx.viol(self.name, f"bytes at offset {self.off} differ from what was sent (lost, duplicated or reordered)", self.params)
        self.off += len(c)
        q = rq_bytes(self.stream)
        if q > self.peak_rq:
            self.peak_rq = q
        return c

    async def drain(self, nap_every=0, nap=0.0, limit=None):
        import anyio
        while limit is None or self.off < limit:
            try:
                await self.one()
            except anyio.EndOfStream:
                self.ended = "eof"
                return
            if nap_every and self.n % nap_every == 0:
                await anyio.sleep(nap)


async def sender(stream, sizes, start=0, track=None):
    off = start
    for n in sizes:
        if track is not None:
            track["started"] += n
        await stream.send(pattern(off, n))
        off += n
        if track is not None:
            track["done"] += n
            w = wbuf(stream)
            if w > track["max_wbuf"]:
                track["max_wbuf"] = w
    return off


# ---- scenarios -------------------------------------------------------------------------------------------------

async def sc_sizes(ctx, rng, direction):
    """message sizes from 1 byte to several socket buffers, all sorts of max_bytes, then send_eof"""
    import anyio
    name = f"sizes/{direction}"
    small = [1, 2, 3, 7, 100, 1000, 4095, 4096, 4097, 65535, 65536, 65537]
    big = [MiB, 3 * MiB + 1] if ctx.tier == "quick" else [MiB, 3 * MiB + 1, 9 * MiB + 5, 17 * MiB]
    sizes = [rng.choice(small) for _ in range(rng.randint(8, 30))] + [rng.choice(big) for _ in range(2 if ctx.tier == "quick" else 4)]
    rng.shuffle(sizes)
    maxes = [rng.choice([1, 2, 3, 5, 17, 100, 1000, 4096, 65536, 65537, MiB, 16 * MiB]) for _ in range(rng.randint(3, 9))]
    tiny_budget = 400   # calls with max_bytes < 100 are slow: after the budget use the larger ones only
    params = {"sizes": sizes, "max_bytes": maxes, "direction": direction}
    a, b, lst = await make_pair(ctx)
    check_fresh(ctx, name, a, "connecting side")
    check_fresh(ctx, name, b, "accepting side")
    w, r = (a, b) if direction == "a->b" else (b, a)
    total = sum(sizes)
    rc = Receiver(ctx, name, r, maxes, params)
    with anyio.move_on_after(60 if ctx.tier == "quick" else 240) as scope:
        async with anyio.create_task_group() as tg:
            async def wr():
                await sender(w, sizes)
                await w.send_eof()
            tg.start_soon(wr)
            while rc.ended is None:
                if rc.n == tiny_budget:
                    rc.maxes = [m for m in maxes if m >= 100] or [65536]
                try:
                    await rc.one()
                except anyio.EndOfStream:
                    rc.ended = "eof"
    if scope.cancelled_caught:
        ctx.viol(name, f"deadlock/timeout: {rc.off} of {total} bytes arrived", params)
    elif rc.off != total:
        ctx.viol(name, f"EndOfStream after {rc.off} of {total} bytes", params)
    else:
        # after EOF: EndOfStream again, never blocking; the EOF sender can still receive (half-close)
        with anyio.move_on_after(10) as sc2:
            try:
                await r.receive()
                ctx.viol(name, "receive() after EndOfStream returned data", params)
            except anyio.EndOfStream:
                pass
            await r.send(pattern(0, 1000))
            back = b""
            while len(back) < 1000:
                back += await w.receive(333)
            if back != pattern(0, 1000):
                ctx.viol(name, "half-closed stream: data sent back differs", params)
        if sc2.cancelled_caught:
            ctx.viol(name, "timeout after EOF (second receive / half-close traffic)", params)
    ctx.fact("sizes_total_bytes", total)
    ctx.fact("sizes_chunks", rc.n)
    ctx.fact("peak_read_queue", rc.peak_rq)
    await a.aclose()
    await b.aclose()
    if lst is not None:
        await lst.aclose()


async def sc_backpressure(ctx, rng, direction, mode):
    """the reader does not read (then reads slowly): the writer must block; nothing may pile up without bound.
    mode: idle | late_first_receive | cancelled_receive  (the last two are the history classes of finding F9)"""
    import anyio
    name = f"backpressure/{mode}/{direction}"
    raw = ctx.family == "unix"
    total = (12 if raw else 40) * MiB
    if ctx.tier == "thorough":
        total *= 2
    item = rng.choice([64 * 1024, 256 * 1024, MiB]) if not raw else rng.choice([16 * 1024, 64 * 1024, 256 * 1024])
    bound_inflight = (4 if raw else 16) * MiB + item      # kernel socket buffers on both ends + the item in progress
    bound_rq = 16 * MiB                                   # user-space read queue of the reader
    params = {"total": total, "item": item, "direction": direction, "mode": mode}
    a, b, lst = await make_pair(ctx)
    w, r = (a, b) if direction == "a->b" else (b, a)
    track = {"started": 0, "done": 0, "max_wbuf": 0}
    go = anyio.Event()
    start_writer = anyio.Event()
    rc = Receiver(ctx, name, r, [rng.choice([4096, 65536, 100000])], params)
    stalled = {}
    with anyio.move_on_after(60 if ctx.tier == "quick" else 240) as scope:
        async with anyio.create_task_group() as tg:
            async def wr():
                await start_writer.wait()
                await sender(w, [item] * (total // item), track=track)
                await w.send_eof()

            async def watch():
                await start_writer.wait()
                last, same = -1, 0
                while same < 12 and track["done"] < total:
                    await anyio.sleep(0.02)
                    if track["done"] == last:
                        same += 1
                    else:
                        last, same = track["done"], 0
                stalled.update(done=track["done"], started=track["started"], rq=rq_bytes(r), wbuf=wbuf(w))
                go.set()

            async def rd():
                if mode == "cancelled_receive":
                    with anyio.move_on_after(0.05):
                        await r.receive()
                start_writer.set()
                if mode == "late_first_receive":
                    pass          # simply: the first receive() happens long after data has arrived
                await go.wait()
                await rc.drain(nap_every=40, nap=0.002, limit=total // 4)
                await rc.drain()

            tg.start_soon(wr)
            tg.start_soon(watch)
            tg.start_soon(rd)
    if scope.cancelled_caught:
        ctx.viol(name, f"deadlock/timeout: {rc.off} of {total} bytes arrived, writer finished {track['done']}", params)
    else:
        if rc.off != total:
            ctx.viol(name, f"EndOfStream after {rc.off} of {total} bytes", params)
        if stalled.get("done", 0) >= total:
            ctx.viol(name, f"no back-pressure: the writer finished all {total} bytes while the reader had not read anything "
                           f"(reader's read queue held {stalled.get('rq')} bytes)", params)
        if stalled.get("started", 0) > bound_inflight:
            ctx.viol(name, f"unbounded buffering: {stalled['started']} bytes accepted from the writer while the reader had read nothing "
                           f"(bound {bound_inflight})", params)
        if stalled.get("rq", 0) > 0 and not raw:
            ctx.viol(name, f"reader's read queue holds {stalled['rq']} bytes although no receive() was waiting", params)
        if rc.peak_rq > bound_rq:
            ctx.viol(name, f"unbounded buffering: read queue peaked at {rc.peak_rq} bytes with a slow reader (bound {bound_rq})", params)
        if track["max_wbuf"] > 0:
            ctx.viol(name, f"send() returned with {track['max_wbuf']} bytes still in the transport's write buffer "
                           f"(zero write-buffer limit / write gate not honoured)", params)
    ctx.fact("bp_stalled_at", stalled.get("started"))
    ctx.fact("bp_peak_rq", rc.peak_rq)
    ctx.fact("bp_wbuf_at_stall", stalled.get("wbuf"))
    await a.aclose()
    await b.aclose()
    if lst is not None:
        await lst.aclose()


async def sc_duplex(ctx, rng):
    """both directions busy at once, different sizes and max_bytes; no loss, no deadlock"""
    import anyio
    name = "duplex"
    n = 6 if ctx.tier == "quick" else 14
    s1 = [rng.choice([1, 5000, 65536, 300000, 2 * MiB + 3]) for _ in range(n)]
    s2 = [rng.choice([3, 70000, 65537, MiB, 3 * MiB + 1]) for _ in range(n)]
    m1 = [rng.choice([1000, 4096, 65536, MiB]) for _ in range(3)]
    m2 = [rng.choice([777, 8192, 65536, 200000]) for _ in range(3)]
    params = {"a_sends": s1, "b_sends": s2, "a_max": m1, "b_max": m2}
    a, b, lst = await make_pair(ctx)
    ra = Receiver(ctx, name, a, m1, params)
    rb = Receiver(ctx, name, b, m2, params)
    with anyio.move_on_after(60 if ctx.tier == "quick" else 240) as scope:
        async with anyio.create_task_group() as tg:
            async def wr(s, sizes):
                await sender(s, sizes)
                await s.send_eof()
            tg.start_soon(wr, a, s1)
            tg.start_soon(wr, b, s2)
            tg.start_soon(ra.drain, 25, 0.001)
            tg.start_soon(rb.drain)
    if scope.cancelled_caught:
        ctx.viol(name, f"deadlock/timeout in full duplex: a got {ra.off}/{sum(s2)}, b got {rb.off}/{sum(s1)}", params)
    elif ra.off != sum(s2) or rb.off != sum(s1):
        ctx.viol(name, f"full duplex: a got {ra.off}/{sum(s2)}, b got {rb.off}/{sum(s1)}", params)
    ctx.fact("duplex_bytes", sum(s1) + sum(s2))
    await a.aclose()
    await b.aclose()
    if lst is not None:
        await lst.aclose()


async def sc_close(ctx, rng, direction):
    """close semantics: the peer reads everything then EndOfStream; locally: send -> ClosedResourceError,
    receive -> already-received data, then ClosedResourceError, never blocking"""
    import anyio
    name = f"close/{direction}"
    n = rng.choice([10, 1000, 70000, 400000])
    k = rng.choice([1, 3, 7])
    params = {"n": n, "k": k, "direction": direction}
    x, y, lst = await make_pair(ctx)
    if direction == "b closes":
        x, y = y, x
    # x will close; y is the peer
    if ctx.family == "unix":
        # raw sockets keep unread data in the KERNEL: closing with unread input makes the kernel reset the
        # connection (peer sees ECONNRESET) - not AnyIO's doing, so x reads everything before it closes
        k = 10
        params["k"] = k
    rc = Receiver(ctx, name, y, [rng.choice([100, 65536])], params)
    with anyio.move_on_after(60) as scope:
        async with anyio.create_task_group() as tg:
            await y.send(pattern(0, 10))
            got = await x.receive(k)             # SocketStream: leaves 10-k already-received bytes in x's user-space queue
            if got != pattern(0, len(got)) or not (1 <= len(got) <= k):
                ctx.viol(name, "first chunk wrong", params)
            tg.start_soon(rc.drain)              # the peer gets everything sent before the close, then EndOfStream
            await x.send(pattern(0, n))
            await x.aclose()
            try:
                await x.send(b"late")
                ctx.viol(name, "send() on a locally closed stream did not raise", params)
            except anyio.ClosedResourceError:
                pass
            except Exception as e:  # noqa: BLE001
                ctx.viol(name, f"send() on a locally closed stream raised {type(e).__name__}", params)
            rest = b""
            err = None
            for _ in range(20):
                try:
                    with anyio.fail_after(5):
                        rest += await x.receive(4)
                except anyio.ClosedResourceError:
                    err = "closed"
                    break
                except TimeoutError:
                    err = "blocked"
                    break
                except Exception as e:  # noqa: BLE001
                    err = type(e).__name__
                    break
            if err == "blocked":
                ctx.viol(name, "receive() on a locally closed stream blocks", params)
            elif err != "closed":
                ctx.viol(name, f"receive() on a locally closed stream ended with {err} instead of ClosedResourceError", params)
            if rest != pattern(len(got), len(rest)) or len(got) + len(rest) != 10:
                ctx.viol(name, f"receive() after aclose() returned {len(rest)} bytes, expected the {10 - len(got)} already-received ones", params)
            ctx.fact("close_leftover_returned", len(rest))
        if rc.off != n or rc.ended != "eof":
            ctx.viol(name, f"peer of a closed stream got {rc.off} of {n} bytes (ended: {rc.ended})", params)
    if scope.cancelled_caught:
        ctx.viol(name, "deadlock/timeout in close scenario", params)
    await y.aclose()
    if lst is not None:
        await lst.aclose()


async def sc_busy(ctx, rng):
    """two tasks on the same direction of one stream: the second gets BusyResourceError, no data is interleaved"""
    import anyio
    from anyio.lowlevel import checkpoint
    name = "busy"
    raw = ctx.family == "unix"
    big = (4 if raw else 32) * MiB
    params = {"big": big}
    a, b, lst = await make_pair(ctx)
    res = {}
    with anyio.move_on_after(60 if ctx.tier == "quick" else 180) as scope:
        async with anyio.create_task_group() as tg:
            async def first_recv():
                res["first_recv"] = await b.receive(10)
            tg.start_soon(first_recv)
            await anyio.wait_all_tasks_blocked()
            try:
                await b.receive(10)
                ctx.viol(name, "second concurrent receive() was not rejected", params)
            except anyio.BusyResourceError:
                res["recv_busy"] = True
            await a.send(pattern(0, 5))
        if res.get("first_recv") != pattern(0, 5):
            ctx.viol(name, "first receiver did not get the data", params)
        # after the first call ended the guard must be free again
        await a.send(pattern(5, 3))
        c = await b.receive(10)
        if c != pattern(5, 3):
            ctx.viol(name, "receive after a rejected concurrent call is wrong", params)
        async with anyio.create_task_group() as tg:
            done = {"v": False}

            async def first_send():
                await a.send(pattern(8, big))
                done["v"] = True
            tg.start_soon(first_send)
            await anyio.wait_all_tasks_blocked()
            await anyio.sleep(0.05)
            if done["v"]:
                ctx.fact("busy_send_not_exhibited", True)   # the kernel swallowed everything: nothing to observe
            else:
                try:
                    await a.send(b"intruder")
                    ctx.viol(name, "second concurrent send() was not rejected", params)
                except anyio.BusyResourceError:
                    res["send_busy"] = True
            rc = Receiver(ctx, name, b, [65536], params)
            rc.off = 8
            await rc.drain(limit=8 + big)
        ctx.fact("busy", res.get("recv_busy", False) and res.get("send_busy", False))
    if scope.cancelled_caught:
        ctx.viol(name, "deadlock/timeout in busy scenario", params)
    await a.aclose()
    await b.aclose()
    if lst is not None:
        await lst.aclose()


async def sc_eof_during_send(ctx, rng):
    """a second task calls send_eof() while a send() is parked half-way through a message larger than the socket
    buffers (reader idle).  Whatever the stream class does with that call, the peer must receive the COMPLETE message
    before EndOfStream and the parked send() must end normally.  UNIXSocketStream: send(), send_fds() and send_eof()
    share the send guard, so the call must be refused with BusyResourceError.  SocketStream (TCP / wrapped): HEAD's
    send_eof() is unguarded by design - transport.write_eof() only takes effect after the transport's write buffer
    has drained - so 'accepted' is recorded as a fact, not flagged."""
    import anyio
    name = "eof_during_send"
    raw = ctx.family == "unix"
    big = (4 if raw else 32) * MiB
    params = {"big": big}
    a, b, lst = await make_pair(ctx)
    res = {"send": None, "eof": None, "at": None}
    rc = Receiver(ctx, name, b, [65536], params)
    with anyio.move_on_after(60 if ctx.tier == "quick" else 180) as scope:
        async with anyio.create_task_group() as tg:
            async def first_send():
                try:
                    await a.send(pattern(0, big))
                    res["send"] = "done"
                except Exception as e:  # noqa: BLE001
                    res["send"] = type(e).__name__

            async def finish():
                while res["send"] is None:
                    await anyio.sleep(0.01)
                if res["send"] == "done" and res["eof"] != "accepted":
                    await a.send_eof()      # the orderly EOF, after the message

            tg.start_soon(first_send)
            await anyio.wait_all_tasks_blocked()
            await anyio.sleep(0.05)
            if res["send"] is not None:
                ctx.fact("eof_during_send_not_exhibited", True)   # the kernel swallowed everything
            else:
                try:
                    await a.send_eof()
                    res["eof"] = "accepted"
                except anyio.BusyResourceError:
                    res["eof"] = "busy"
                except Exception as e:  # noqa: BLE001
                    res["eof"] = type(e).__name__
            tg.start_soon(finish)
            await rc.drain()
    if scope.cancelled_caught:
        ctx.viol(name, f"deadlock/timeout: peer got {rc.off} of {big} bytes, send() -> {res['send']}, send_eof() -> {res['eof']}", params)
    else:
        if raw and res["eof"] not in (None, "busy"):
            ctx.viol(name, f"send_eof() by a second task while send() was parked half-way through its message "
                           f"{'was accepted' if res['eof'] == 'accepted' else 'raised ' + str(res['eof'])} "
                           f"instead of raising BusyResourceError", params)
        if res["eof"] not in (None, "busy", "accepted"):
            ctx.viol(name, f"send_eof() during a parked send() raised {res['eof']}", params)
        if rc.off != big:
            ctx.viol(name, f"the peer got {rc.off} of {big} bytes (a truncated message) and then EndOfStream; the interrupted "
                           f"send() ended with {res['send']}; the second task's send_eof() was {res['eof']}", params)
        elif res["send"] != "done":
            ctx.viol(name, f"send() interrupted by another task's send_eof() ended with {res['send']}", params)
    ctx.fact("eof_during_send", res["eof"])
    await a.aclose()
    await b.aclose()
    if lst is not None:
        await lst.aclose()


async def sc_close_both_parked(ctx, rng):
    """a receive() AND a send() are parked on the same stream (the usual reader task + writer task layout) and a third
    task closes it locally: both must end promptly with ClosedResourceError, the peer must get EndOfStream, and the
    event loop's exception handler must not be called (finding F33)"""
    import asyncio
    import anyio
    name = "close_both_parked"
    raw = ctx.family == "unix"
    big = (8 if raw else 48) * MiB
    params = {"big": big}
    loop = asyncio.get_running_loop()
    errors = []
    old_handler = loop.get_exception_handler()
    loop.set_exception_handler(lambda _l, c: errors.append(f"{c.get('message')}: {c.get('exception')!r}"[:300]))
    a, b, lst = await make_pair(ctx)
    out = {}
    try:
        async with anyio.create_task_group() as tg:
            async def rcv():
                try:
                    await a.receive()
                    out["receive"] = "returned data"
                except anyio.ClosedResourceError:
                    out["receive"] = "ClosedResourceError"
                except Exception as e:  # noqa: BLE001
                    out["receive"] = type(e).__name__

            async def snd():
                try:
                    await a.send(pattern(0, big))
                    out["send"] = "returned normally"
                except anyio.ClosedResourceError:
                    out["send"] = "ClosedResourceError"
                except Exception as e:  # noqa: BLE001
                    out["send"] = type(e).__name__

            tg.start_soon(rcv)
            tg.start_soon(snd)
            await anyio.wait_all_tasks_blocked()
            await anyio.sleep(0.05)
            if "send" in out:
                ctx.fact("close_both_parked_not_exhibited", True)
            await a.aclose()
            t0 = time.time()
            while len(out) < 2 and time.time() - t0 < 5:
                await anyio.sleep(0.01)
            for call in ("receive", "send"):
                if call not in out:
                    ctx.viol(name, f"{call}() parked at a local aclose() is still blocked 5 s later (together with a parked "
                                   f"{'send' if call == 'receive' else 'receive'}() on the same stream)", params)
                elif out[call] != "ClosedResourceError":
                    ctx.viol(name, f"{call}() parked at a local aclose() ended with: {out[call]} (expected ClosedResourceError)", params)
            # the peer reads what made it into the kernel and must then see the end of the stream
            rc = Receiver(ctx, name, b, [65536], params)
            with anyio.move_on_after(5) as sc2:
                try:
                    await rc.drain()
                except anyio.BrokenResourceError:
                    rc.ended = "BrokenResourceError"
            if sc2.cancelled_caught or rc.ended is None:
                ctx.viol(name, f"the peer got no EndOfStream within 5 s of the other side's aclose() (read {rc.off} bytes): "
                               f"the socket was not really closed", params)
            ctx.fact("close_both_parked_peer", rc.ended)
            tg.cancel_scope.cancel()
    finally:
        loop.set_exception_handler(old_handler)
    await anyio.sleep(0.02)
    if errors:
        ctx.viol(name, f"the event loop's exception handler was called {len(errors)} time(s) around aclose(), e.g. {errors[0]}", params)
    ctx.fact("close_both_parked", [out.get("receive"), out.get("send")])
    await b.aclose()
    if lst is not None:
        await lst.aclose()


async def sc_send_lost(ctx, rng, how):
    """a send() is waiting on back-pressure when the stream is closed locally by another task / the peer resets the
    connection: the send() must raise (Closed- resp. BrokenResourceError), never return normally: what the transport
    had buffered is discarded (finding F34)"""
    import anyio
    name = f"send_lost/{how}"
    raw = ctx.family == "unix"
    big = (8 if raw else 48) * MiB
    params = {"big": big, "how": how}
    a, b, lst = await make_pair(ctx)
    out = {}
    with anyio.move_on_after(30) as scope:
        async with anyio.create_task_group() as tg:
            async def snd():
                try:
                    await a.send(pattern(0, big))
                    out["send"] = "returned normally"
                except Exception as e:  # noqa: BLE001
                    out["send"] = type(e).__name__
            tg.start_soon(snd)
            await anyio.wait_all_tasks_blocked()
            await anyio.sleep(0.05)
            if "send" in out:
                ctx.fact("send_lost_not_exhibited", True)
            elif how == "local_close":
                await a.aclose()
            else:
                await b.aclose()          # the peer goes away without having read: the connection is reset
            t0 = time.time()
            while "send" not in out and time.time() - t0 < 10:
                await anyio.sleep(0.01)
            if "send" not in out:
                ctx.viol(name, "send() waiting on back-pressure is still blocked 10 s after the connection was closed / reset", params)
                tg.cancel_scope.cancel()
    if scope.cancelled_caught:
        ctx.viol(name, "deadlock/timeout in send_lost scenario", params)
    want = "ClosedResourceError" if how == "local_close" else "BrokenResourceError"
    got = out.get("send")
    if got == "returned normally" and not ctx.facts.get("send_lost_not_exhibited"):
        ctx.viol(name, f"send() of {big} bytes returned normally although the stream was "
                       f"{'closed locally by another task' if how == 'local_close' else 'reset by the peer'} while it waited "
                       f"for the peer: the unsent data was discarded and success reported", params)
    elif got is not None and got != want and got != "returned normally":
        ctx.viol(name, f"send() interrupted by {how} raised {got} (expected {want})", params)
    ctx.fact("send_lost", [how, got])
    await a.aclose()
    await b.aclose()
    if lst is not None:
        await lst.aclose()


async def sc_forceful_close(ctx, rng):
    """a send() parked on back-pressure and a receive() parked; a third task closes the stream with aclose_forcefully()
    (= aclose() in a cancelled scope) while the peer is stalled: both calls must be released promptly with
    ClosedResourceError (finding F44: the abort of the transport must not be skipped by the cancellation)"""
    import anyio
    name = "forceful_close"
    raw = ctx.family == "unix"
    big = (8 if raw else 48) * MiB
    params = {"big": big}
    a, b, lst = await make_pair(ctx)
    out = {}
    async with anyio.create_task_group() as tg:
        async def rcv():
            try:
                await a.receive()
                out["receive"] = "returned data"
            except Exception as e:  # noqa: BLE001
                out["receive"] = type(e).__name__

        async def snd():
            try:
                await a.send(pattern(0, big))
                out["send"] = "returned normally"
            except Exception as e:  # noqa: BLE001
                out["send"] = type(e).__name__

        tg.start_soon(rcv)
        tg.start_soon(snd)
        await anyio.wait_all_tasks_blocked()
        await anyio.sleep(0.05)
        if "send" in out:
            ctx.fact("forceful_close_not_exhibited", True)
        await anyio.aclose_forcefully(a)
        t0 = time.time()
        while len(out) < 2 and time.time() - t0 < 5:
            await anyio.sleep(0.01)
        for call in ("receive", "send"):
            if call not in out:
                ctx.viol(name, f"{call}() parked when the stream was closed with aclose_forcefully() is still blocked 5 s later "
                               f"(peer stalled): the transport was not aborted, the descriptor stays open", params)
            elif out[call] != "ClosedResourceError":
                ctx.viol(name, f"{call}() parked at aclose_forcefully() ended with: {out[call]} (expected ClosedResourceError)", params)
        tg.cancel_scope.cancel()
    ctx.fact("forceful_close", [out.get("receive"), out.get("send")])
    await b.aclose()
    if lst is not None:
        await lst.aclose()


async def sc_send_timeouts(ctx, rng):
    """the peer is stalled; the writer guards every send() of a 1 MB message with a short timeout (60 of them): what the
    stream accepts must stay bounded by the kernel buffers plus one message (finding F45: after a cancelled send() every
    further send() must wait for the leftover data to drain BEFORE queueing more)"""
    import anyio
    name = "send_timeouts"
    raw = ctx.family == "unix"
    n, size = 60, 1_000_000
    bound = (4 if raw else 16) * MiB + size
    params = {"sends": n, "size": size, "bound": bound}
    a, b, lst = await make_pair(ctx)
    completed = 0
    max_wbuf = 0
    with anyio.move_on_after(60) as scope:
        for i in range(n):
            with anyio.move_on_after(0.02):
                await a.send(bytes([i]) * size)
                completed += 1
            max_wbuf = max(max_wbuf, wbuf(a))
        # now let the peer read everything that was accepted
        got = 0
        async with anyio.create_task_group() as tg:
            async def closer():
                await anyio.sleep(0.3)
                await a.aclose()
            tg.start_soon(closer)
            while True:
                try:
                    got += len(await b.receive(1 << 20))
                except (anyio.EndOfStream, anyio.BrokenResourceError, anyio.ClosedResourceError):
                    break
    if scope.cancelled_caught:
        ctx.viol(name, "deadlock/timeout in send_timeouts scenario", params)
    else:
        if max_wbuf > size:
            ctx.viol(name, f"unbounded buffering: the transport's user-space write buffer grew to {max_wbuf} bytes over {n} sends of "
                           f"{size} bytes that timed out against a stalled peer (more than one send() buffered)", params)
        if got > bound:
            ctx.viol(name, f"unbounded buffering: {got} bytes were accepted from a writer whose {n} sends (all but {completed} timed out) "
                           f"faced a stalled peer (bound {bound})", params)
    ctx.fact("send_timeouts", {"completed": completed, "max_write_buffer": max_wbuf, "peer_received": got})
    await b.aclose()
    if lst is not None:
        await lst.aclose()


async def sc_close_unread_inbound(ctx, rng, unread):
    """request/response with a slow reader (TCP): the responder reads the request, sends 3 MB and closes; the requester
    starts reading 0.5 s later and must get all 3 MB, then EndOfStream.  unread=True: the requester has meanwhile sent
    a few more bytes the responder never reads (known finding F48, predicate close_with_unread_inbound_resets: the kernel
    answers the close with a reset that destroys the responder's send queue).  unread=False is the control."""
    import anyio
    name = f"close_unread_inbound/{'unread' if unread else 'control'}"
    total = 3_000_000
    params = {"total": total, "unread_inbound": unread}
    a, b, lst = await make_pair(ctx)          # a = requester, b = responder
    res = {}
    with anyio.move_on_after(30) as scope:
        async with anyio.create_task_group() as tg:
            async def responder():
                req = b""
                while not req.endswith(b"\r\n"):
                    req += await b.receive(100)
                await anyio.sleep(0.15)                       # (the extra bytes arrive and stay unread)
                await b.send(pattern(0, total))
                await b.aclose()
                res["responder"] = "done"
            tg.start_soon(responder)
            await a.send(b"GET /big\r\n")
            await anyio.sleep(0.05)
            if unread:
                await a.send(b"PING\r\n")
            await anyio.sleep(0.5)
            rc = Receiver(ctx, name, a, [65536], params)
            try:
                await rc.drain()
            except anyio.BrokenResourceError:
                rc.ended = "BrokenResourceError"
            res["got"], res["ended"] = rc.off, rc.ended
    if scope.cancelled_caught:
        ctx.viol(name, f"deadlock/timeout: requester got {res.get('got')} of {total}", params)
    elif res.get("got") != total or res.get("ended") != "eof":
        what = (f"the peer of a stream that sent {total} bytes and closed received {res.get('got')} bytes and then "
                f"{'EndOfStream' if res.get('ended') == 'eof' else res.get('ended')}")
        if unread and res.get("got", 0) <= total and rc.ok:
            ctx.known.append({"predicate": "close_with_unread_inbound_resets", "scenario": name, "detail": what, "params": params})
        else:
            ctx.viol(name, what + (" although the closing side had NO unread inbound data" if not unread else ""), params)
    ctx.fact("close_unread_inbound", [unread, res.get("got"), res.get("ended")])
    await a.aclose()
    if lst is not None:
        await lst.aclose()


async def sc_observations(ctx, rng):
    """behaviour outside the clause texts of C18: recorded, never flagged"""
    import anyio
    import struct
    obs = ctx.facts.setdefault("observations", {})
    # (1) peer reset after partial data while no receive() is waiting
    if ctx.family == "tcp":
        ml = await anyio.create_tcp_listener(local_host="127.0.0.1")
        port = ml.extra(anyio.abc.SocketAttribute.local_port)
        peer = socket.create_connection(("127.0.0.1", port))      # a plain socket: reset without a FIN
        a = await ml.listeners[0].accept()
        try:
            peer.sendall(pattern(0, 100000))
            await anyio.sleep(0.05)
            peer.setsockopt(socket.SOL_SOCKET, socket.SO_LINGER, struct.pack("ii", 1, 0))
            peer.close()
            await anyio.sleep(0.1)
            got, end = 0, None
            with anyio.move_on_after(5):
                while True:
                    try:
                        got += len(await a.receive())
                    except anyio.EndOfStream:
                        end = "EndOfStream"
                        break
                    except anyio.BrokenResourceError:
                        end = "BrokenResourceError"
                        break
            obs["peer_reset_after_partial_data_no_receive_waiting"] = f"{got} bytes then {end}"
        except Exception as e:  # noqa: BLE001
            obs["peer_reset_after_partial_data_no_receive_waiting"] = f"probe failed: {type(e).__name__}"
        await a.aclose()
        await ml.aclose()
    # (2)-(4) calls on a locally closed stream / absurd max_bytes
    a, b, lst = await make_pair(ctx)
    if ctx.family == "unix":
        try:
            await a.receive(2 ** 40)
            obs["receive(2**40)"] = "returned"
        except BaseException as e:  # noqa: BLE001
            obs["receive(2**40)"] = type(e).__name__
            if isinstance(e, anyio.get_cancelled_exc_class()):
                raise
    await a.aclose()
    for label, call in (("send(b'') on a closed stream", lambda: a.send(b"")), ("send_eof() on a closed stream", a.send_eof)):
        try:
            await call()
            obs[label] = "returned normally"
        except Exception as e:  # noqa: BLE001
            obs[label] = type(e).__name__
    await b.aclose()
    if lst is not None:
        await lst.aclose()


async def sc_close_pending(ctx, rng):
    """a receive() that is blocked when another task closes the stream locally ends with ClosedResourceError
    (the transport's connection_lost / the readiness future wakes it): it does not hang"""
    import anyio
    name = "close_pending"
    a, b, lst = await make_pair(ctx)
    res = {}
    with anyio.move_on_after(30) as scope:
        async with anyio.create_task_group() as tg:
            async def rcv():
                try:
                    await a.receive()
                    res["r"] = "data"
                except anyio.ClosedResourceError:
                    res["r"] = "closed"
                except Exception as e:  # noqa: BLE001
                    res["r"] = type(e).__name__
            tg.start_soon(rcv)
            await anyio.wait_all_tasks_blocked()
            await a.aclose()
    if scope.cancelled_caught:
        ctx.viol(name, "receive() pending at a local aclose() hangs", {})
    elif res.get("r") != "closed":
        ctx.viol(name, f"receive() pending at a local aclose() ended with {res.get('r')} instead of ClosedResourceError", {})
    # the peer sees a clean end
    with anyio.move_on_after(10) as sc2:
        try:
            await b.receive()
            ctx.viol(name, "peer of a closed stream received data that was never sent", {})
        except anyio.EndOfStream:
            pass
    if sc2.cancelled_caught:
        ctx.viol(name, "peer of a closed stream does not get EndOfStream", {})
    ctx.fact("close_pending", res.get("r"))
    await b.aclose()
    if lst is not None:
        await lst.aclose()


async def main(ctx: Ctx, only=None):
    rng = random.Random(ctx.seed * 1000 + hash((ctx.family, ctx.loopname)) % 997)
    reps = 1 if ctx.tier == "quick" else 4
    plan = []
    for _ in range(reps):
        plan += [("sizes", sc_sizes, ("a->b",)), ("sizes", sc_sizes, ("b->a",))]
        plan += [("duplex", sc_duplex, ()), ("close", sc_close, ("a closes",)), ("close", sc_close, ("b closes",)),
                 ("busy", sc_busy, ()), ("close_pending", sc_close_pending, ()),
                 ("eof_during_send", sc_eof_during_send, ()), ("close_both_parked", sc_close_both_parked, ()),
                 ("send_lost", sc_send_lost, ("local_close",)), ("send_lost", sc_send_lost, ("peer_reset",)),
                 ("forceful_close", sc_forceful_close, ())]
    for d in ("a->b", "b->a"):
        for mode in ("idle", "late_first_receive", "cancelled_receive"):
            if ctx.tier == "quick" and (d, mode) in (("a->b", "idle"), ("b->a", "late_first_receive")):
                continue
            plan.append(("backpressure", sc_backpressure, (d, mode)))
    plan.append(("send_timeouts", sc_send_timeouts, ()))
    plan.append(("observations", sc_observations, ()))
    if ctx.family == "tcp":
        plan += [("close_unread_inbound", sc_close_unread_inbound, (False,)), ("close_unread_inbound", sc_close_unread_inbound, (True,))]
    for nm, fn, args in plan:
        if only and nm != only:
            continue
        t0 = time.time()
        try:
            await fn(ctx, rng, *args)
        except BaseException as e:  # noqa: BLE001
            import traceback
            ctx.viol(nm, f"scenario raised {type(e).__name__}: {e}", {"args": list(args), "tb": traceback.format_exc()[-1500:]})
        ctx.fact("scenario_s", [nm, list(args), round(time.time() - t0, 2)])


if __name__ == "__main__":
    family, loopname, tier, seed = sys.argv[1], sys.argv[2], sys.argv[3], int(sys.argv[4])
    only = sys.argv[5] if len(sys.argv) > 5 else None
    import warnings
    warnings.simplefilter("ignore")
    import anyio
    ctx = Ctx(family, loopname, tier, seed)
    try:
        anyio.run(main, ctx, only, backend="asyncio", backend_options={"use_uvloop": loopname == "uvloop"})
    finally:
        shutil.rmtree(ctx.tmp, ignore_errors=True)
    print(json.dumps({"config": [family, loopname], "violations": ctx.violations, "known": ctx.known, "facts": ctx.facts,
                      "anyio_file": anyio.__file__}))
