"""C06 — see DESIGN.md §6; S-machine check (model scopes/Machine.v, monitors in scommon.py)."""
import scommon

DRIVERS = [("smachine", "Machine")]


def check(tier: str) -> int:
    return scommon.scheck("C06", tier)


def replay(path: str) -> int:
    return scommon.sreplay("C06", path)
