"""C06 — see DESIGN.md §6; S-machine check (model scopes/Machine.v, monitors in scommon.py)."""
import chaintie
import scommon

DRIVERS = [("smachine", "Machine"), ("chain", "ChainCodec")]


def check(tier: str) -> int:
    # tie T first (translator + cross-check of the translated walks against the real code), then the S-machine check
    return chaintie.check("C06", tier, scommon.scheck)


def replay(path: str) -> int:
    return scommon.sreplay("C06", path)
