"""C19 — anyio.itertools / functools.reduce agree with the standard library (and the itertools clause of C08).

Two ties:
  X1  pure/Itertools.v trace models  vs  the real anyio.itertools / anyio.functools.reduce, event by event
      (yields + the three checkpoint functions, logged by wrapping the names those modules imported);
  X2  the extracted *spec* functions  vs  Python's own itertools / functools.reduce.
Model-independent monitors: AnyIO result sequence == stdlib result sequence (or same error class); every
error-free traversal over synchronous sources, or yielding nothing, logged >= 1 checkpoint event; tee: every
consumer sees a prefix of the source, the whole of it at StopAsyncIteration, the source is advanced once.
"""

from __future__ import annotations

import asyncio
import functools as std_functools
import itertools as std_itertools
import json
import random
from collections.abc import AsyncIterable

import core

DRIVERS = [("itertools", "Itertools")]

NONE_CODE = -99
ALPHABET = (0, 1, 2)

# ----------------------------------------------------------------------------------------------
# event log: the three checkpoint names of anyio.itertools / anyio.functools are wrapped
# ----------------------------------------------------------------------------------------------
LOG: list = []
REAL = [False]          # call through to the real checkpoint function after logging?
_saved: list = []
PROBE = [False]         # schedule a call_soon probe before each case: did the traversal let the event loop run?
LOG_CAP = [2_000_000]   # more logged events than this within one case = runaway generator
YIELD_CAP_DEFAULT = 200_000
WATCHDOG_S = 30.0       # a single case running longer than this is a hang


class Runaway(Exception):
    """hang / over-production guard tripped"""


def _on_alarm(signum, frame):
    raise Runaway("case did not finish within the watchdog time")


def install_wrappers():
    import anyio.functools as afn
    import anyio.itertools as ait

    def wrap(mod, name, code):
        orig = getattr(mod, name)

        async def logged():
            LOG.append(code)
            if len(LOG) > LOG_CAP[0]:
                raise Runaway(f"more than {LOG_CAP[0]} events logged")
            if REAL[0]:
                await orig()

        logged.__name__ = name
        _saved.append((mod, name, orig))
        setattr(mod, name, logged)

    wrap(ait, "checkpoint", 1)
    wrap(ait, "checkpoint_if_cancelled", 2)
    wrap(ait, "cancel_shielded_checkpoint", 3)
    for name, code in (("checkpoint", 1), ("checkpoint_if_cancelled", 2), ("cancel_shielded_checkpoint", 3)):
        if hasattr(afn, name):
            wrap(afn, name, code)


def remove_wrappers():
    while _saved:
        mod, name, orig = _saved.pop()
        setattr(mod, name, orig)


# ----------------------------------------------------------------------------------------------
# callback families (mirror fn2 / predf / keyf / fnN of pure/Itertools.v)
# ----------------------------------------------------------------------------------------------
# ---- element domains ----------------------------------------------------------------------------
# integer mode (the model's domain): ints, and None transported as NONE_CODE (-99) - callbacks behave as Python does
# (arithmetic on None raises TypeError, None is falsy).  object mode (stdlib differential only, no model): sentinel-like
# values - None, False / 0 / 0.0 (equal but distinct), "", (), an object equal to nothing, 1.
OBJMODE = [False]


class Odd:
    """equal to nothing (not even itself), truthy, hashable by identity"""

    def __eq__(self, other):
        return False

    def __ne__(self, other):
        return True

    __hash__ = object.__hash__

    def __repr__(self):
        return "<Odd>"


ODD = Odd()
OBJ_ALPHABET = [None, False, 0, 0.0, "", (), ODD, 1]      # object-mode element code i -> OBJ_ALPHABET[i]


def dec(l):
    """element codes -> the Python values handed to the functions"""
    if OBJMODE[0]:
        return [OBJ_ALPHABET[x] for x in l]
    return [None if x == NONE_CODE else x for x in l]


class ModeTable:
    def __init__(self, ints, objs):
        self.ints, self.objs = ints, objs

    def __getitem__(self, i):
        t = self.objs if OBJMODE[0] else self.ints
        return t[i % len(t)] if OBJMODE[0] else t[i]

    def __len__(self):
        return len(self.objs if OBJMODE[0] else self.ints)


def _coalesce(a, b):
    return b if b is not None else a


COLLISION = [False]     # an arithmetic callback produced the integer that transports None: outside the codec's domain


def _g(fn):
    def guarded(a, b):
        r = fn(a, b)
        if r == NONE_CODE:
            COLLISION[0] = True
        return r
    return guarded


FN2 = ModeTable(
    [_g(lambda a, b: a + b), _g(lambda a, b: a * b), lambda a, b: max(a, b), lambda a, b: a, lambda a, b: b,
     _g(lambda a, b: 2 * a + b), _g(lambda a, b: a - b), _coalesce],
    [lambda a, b: a + b, _coalesce, lambda a, b: a, lambda a, b: b, lambda a, b: (a, b) if not isinstance(a, tuple) else a + (b,)])
PRED = ModeTable(
    [lambda x: x % 2 == 1, lambda x: x < 1, lambda x: x < 2, lambda x: True, lambda x: False, lambda x: x == 1,
     lambda x: x is None],
    [lambda x: x is None, lambda x: x == 0, lambda x: bool(x), lambda x: True, lambda x: False, lambda x: x is False])
KEYF = ModeTable(
    [None, lambda x: x % 2, lambda x: 0, lambda x: x // 2, lambda x: 1 if x == 1 else 0],
    [None, lambda x: type(x).__name__, lambda x: bool(x), lambda x: x == 0, lambda x: None])
NONE_SAFE = {"fn2": (-1, 0, 3, 4, 7), "pred": (3, 4, 5, 6), "key": (0, 2, 4), "fnn": (2, 3)}


def _sum(*a):
    return sum(a)


def _prod(*a):
    r = 1
    for x in a:
        r *= x
    return r


def _horner(*a):
    r = 0
    for x in a:
        r = 2 * r + x
    return r


FNN = ModeTable([_sum, _prod, lambda *a: len(a), lambda *a: a[0] if a else -1, _horner],
                [lambda *a: len(a), lambda *a: a[0] if a else None, lambda *a: a, lambda *a: sum(1 for x in a if x is None),
                 lambda *a: a.count(0)])


def amk(f, log_call=False):
    """the equivalent asynchronous callback (does not checkpoint)"""
    if f is None:
        return None
    if log_call:
        async def g(*a):
            LOG.append(6)
            return f(*a)
    else:
        async def g(*a):
            return f(*a)
    return g


# ----------------------------------------------------------------------------------------------
# sources
# ----------------------------------------------------------------------------------------------
class AIterable(AsyncIterable):
    """an AsyncIterable that is not an AsyncIterator"""

    def __init__(self, l):
        self.l = l

    def __aiter__(self):
        return _agen(self.l)


async def _agen(l):
    for x in l:
        yield x


def _sgen(l):
    yield from l


def mk_src(src, variant: int):
    kind, l = src
    l = dec(l)
    if kind == 0:
        v = variant % 4
        return list(l) if v == 0 else tuple(l) if v == 1 else iter(list(l)) if v == 2 else _sgen(l)
    return _agen(l) if variant % 2 == 0 else AIterable(l)


class AIterator:
    """a class-based asynchronous ITERATOR (its own __aiter__): passing it twice aliases it"""

    def __init__(self, l):
        self.it = iter(list(l))

    def __aiter__(self):
        return self

    async def __anext__(self):
        try:
            return next(self.it)
        except StopIteration:
            raise StopAsyncIteration from None


def mk_iter_obj(src, variant: int):
    """ONE iterator object for a store entry (kind 0: synchronous iterator, kind 1: asynchronous iterator)"""
    kind, l = src
    l = dec(l)
    if kind == 0:
        return iter(list(l)) if variant % 2 == 0 else _sgen(l)
    return _agen(l) if variant % 2 == 0 else AIterator(l)


class LogSyncIter:
    """a synchronous iterator that logs every next() (event 7)"""

    def __init__(self, l):
        self.it = iter(list(l))

    def __iter__(self):
        return self

    def __next__(self):
        LOG.append(7)
        return next(self.it)


class LogAsyncIter:
    def __init__(self, l):
        self.it = iter(list(l))

    def __aiter__(self):
        return self

    async def __anext__(self):
        LOG.append(7)
        try:
            return next(self.it)
        except StopIteration:
            raise StopAsyncIteration from None


class LogIterable:
    """a re-iterable (not an iterator) handing out a logging iterator"""

    def __init__(self, l):
        self.l = l

    def __iter__(self):
        return LogSyncIter(self.l)


class LogAsyncIterable(AsyncIterable):
    def __init__(self, l):
        self.l = l

    def __aiter__(self):
        return LogAsyncIter(self.l)


class LogGetItemSeq:
    """iterable ONLY through the sequence protocol (__getitem__ with 0, 1, … until IndexError); every access is a poll"""

    def __init__(self, l):
        self.l = list(l)

    def __getitem__(self, i):
        LOG.append(7)
        return self.l[i]


def mk_log_src(src, variant: int):
    kind, l = src
    l = dec(l)
    if kind == 0:
        return (LogSyncIter(l), LogIterable(l), LogGetItemSeq(l))[variant % 3]
    return LogAsyncIter(l) if variant % 2 == 0 else LogAsyncIterable(l)


def reducer(f, variant: int):
    """the asynchronous reducer: logs its invocation (event 6); every third variant really yields to the event loop,
    the others never yield (plain `async def f(a, b): return ...`)"""
    if variant % 3 == 2:
        async def g(a, b):
            LOG.append(6)
            await asyncio.sleep(0)
            return f(a, b)
    else:
        async def g(a, b):
            LOG.append(6)
            return f(a, b)
    return g


def enc_src(src):
    kind, l = src
    return [kind, len(l), *l]


def enc_opt(o):
    return [0] if o is None else [1, o]


# ----------------------------------------------------------------------------------------------
# running one case on AnyIO (trace) and on the stdlib (outcome)
# ----------------------------------------------------------------------------------------------
# objects whose equality is not reflexive: code = 100 * identity + 99 (pure/Itertools.v same_obj)
import decimal as _decimal

NAN_OBJS = [float("nan"), float("nan"), _decimal.Decimal("NaN")]
_NAN_CODE = {id(o): 100 * i + 99 for i, o in enumerate(NAN_OBJS)}


def obj_of(code: int):
    return NAN_OBJS[code // 100] if code % 100 == 99 else code


def code_of(x):
    return _NAN_CODE.get(id(x), x)


NAN_KEYS = [None, lambda x: NAN_OBJS[0], lambda x: 1 if x != x else 0]


def back(x):
    """a Python value -> its element code (None -> NONE_CODE, NaN objects -> their codes)"""
    return NONE_CODE if x is None else _NAN_CODE.get(id(x), x)


def enc_val(v):
    if isinstance(v, tuple) and len(v) == 2 and isinstance(v[1], list):   # groupby
        return [back(v[0]), *[back(x) for x in v[1]]]
    if isinstance(v, (tuple, list)):
        return [back(x) for x in v]
    return [back(v)]


def enc_err(e):
    return [5] if e is None else [4, e]


def err_code(exc):
    if isinstance(exc, ValueError):
        return 1
    if isinstance(exc, TypeError):
        return 2
    if isinstance(exc, Runaway):
        return 9
    return 7  # unexpected class


YIELD_CAP = [YIELD_CAP_DEFAULT]


async def consume_async(make, k=None):
    """Run make() (returns an async iterator) to the end, or take the first k elements; events go to LOG.
    Bounded: more than YIELD_CAP results end the traversal with error code 9 (over-production)."""
    err = None
    try:
        it = make()
        if k is None:
            n = 0
            async for v in it:
                LOG.append(("y", v))
                n += 1
                if n > YIELD_CAP[0]:
                    err = 9
                    m = len(LOG)
                    aclose = getattr(it, "aclose", None)
                    if aclose is not None:
                        await aclose()
                    del LOG[m:]
                    break
        else:
            it = it.__aiter__()
            try:
                for _ in range(k):
                    try:
                        v = await it.__anext__()
                    except StopAsyncIteration:
                        break
                    LOG.append(("y", v))
            finally:
                n = len(LOG)
                await it.aclose()
                del LOG[n:]     # closing a suspended generator is not part of the traversal prefix
    except Exception as e:  # noqa: BLE001
        err = err_code(e)
        if err == 7:
            LOG.append(("exc", repr(e)))
    return err


def consume_sync(make, k=None):
    out, err = [], None
    try:
        it = make()
        if k is None:
            for v in it:
                out.append(v)
                if len(out) > YIELD_CAP[0]:
                    err = 9
                    break
        else:
            for v in std_itertools.islice(it, k):
                out.append(v)
    except Exception as e:  # noqa: BLE001
        err = err_code(e)
    return out, err


def flat_trace(log, err):
    out = []
    for e in log:
        if isinstance(e, tuple):
            if e[0] == "y":
                x = enc_val(e[1])
                out += [0, len(x), *x]
            else:
                out += [8]
        else:
            out.append(e)
    return out + enc_err(err)


def flat_outcome(vals, err):
    out = []
    for v in vals:
        x = enc_val(v)
        out += [0, len(x), *x]
    return out + enc_err(err)


def _batched_has_strict() -> bool:
    try:
        list(std_itertools.batched([1], 1, strict=True))
        return True
    except TypeError:
        return False


BATCHED_STRICT_NATIVE = _batched_has_strict()


def std_batched(l, n, strict):
    """itertools.batched; `strict` exists from Python 3.13 on - on older interpreters its documented behaviour
    (ValueError('batched(): incomplete batch') when the final batch is short) is applied on top of the real
    non-strict batched."""
    if BATCHED_STRICT_NATIVE:
        yield from std_itertools.batched(l, n, strict=strict)
        return
    for b in std_itertools.batched(l, n):
        if strict and len(b) != n:
            raise ValueError("batched(): incomplete batch")
        yield b


def std_groupby(l, key):
    for k, g in std_itertools.groupby(l, key):
        yield (k, list(g))


# name, fcode
FUNS = {
    "accumulate": 1, "batched": 2, "chain": 3, "combinations": 4, "combinations_with_replacement": 5,
    "compress": 6, "count": 7, "cycle": 8, "dropwhile": 9, "filterfalse": 10, "groupby": 11, "islice": 12,
    "pairwise": 13, "permutations": 14, "product": 15, "repeat": 16, "starmap": 17, "takewhile": 18,
    "zip_longest": 19, "tee": 20, "reduce": 21, "tee_args": 22,
    # aliasing family: the same iterator object at several argument positions
    "zip_longest_alias": 23, "chain_alias": 24, "compress_self": 25, "product_alias": 26, "starmap_alias": 27,
    "reduce_in_cancelled_scope": 28, "groupby_objects": 29, "islice_then_rest": 30, "reduce_non_iterable": 31,
}
ALIAS = (23, 24, 26, 27)
FNAME = {v: k for k, v in FUNS.items()}


class Case:
    """fc: function code; a: argument tuple (function specific, see encode); var: source representation variant"""
    __slots__ = ("fc", "a", "var", "enc", "impl", "std", "impl_vals", "impl_err", "nck", "ncall", "nyield", "ncheck", "value_before_check", "loop_yielded", "npoll", "first_ev", "origin", "objmode", "collision")

    def __init__(self, fc, a, var=0, origin="exhaustive"):
        self.fc, self.a, self.var, self.origin = fc, a, var, origin
        self.objmode = False
        self.enc = encode(fc, a)

    def sources(self):
        fc, a = self.fc, self.a
        if fc in (1, 21, 28):
            return [a[2]]
        if fc in (2,):
            return [a[2]]
        if fc in (3,):
            return [(a[0], ())] + list(a[1])
        if fc in (4, 5, 8, 9, 10, 11, 12, 14, 18):
            return [a[1]]
        if fc == 6:
            return [a[0], a[1]]
        if fc == 13:
            return [a[0]]
        if fc == 15:
            return list(a[1])
        if fc == 17:
            return [(a[1], ())] + list(a[2])
        if fc == 19:
            return list(a[1])
        if fc == 29:
            return [a[1]]
        if fc == 30:
            return [(a[0], ()), a[2]]
        if fc == 23:
            return [a[1][i] for i in a[2]]
        if fc == 24:
            return [(a[0], ())] + [a[1][i] for i in a[2]]
        if fc == 25:
            return [a[0]]
        if fc == 26:
            return [a[1][i] for i in a[2]]
        if fc == 27:
            return [(a[1], ())] + [a[2][i] for i in a[3]]
        return []

    def yield_cap(self):
        """tight bound for the aliasing family: an iterator that produces more than this is a runaway"""
        fc, a = self.fc, self.a
        if fc in (23, 24, 27):
            store, pos = (a[1], a[2]) if fc != 27 else (a[2], a[3])
            return sum(len(l) for _, l in store) + len(pos) + 3
        if fc == 25:
            return len(a[0][1]) + 3
        return YIELD_CAP_DEFAULT

    def describe(self):
        d = {"function": FNAME[self.fc], "args": self.a, "variant": self.var, "encoded": self.enc}
        if self.objmode:
            d["object_mode"] = True
            d["element_codes"] = {i: repr(o) for i, o in enumerate(OBJ_ALPHABET)}
            d["callback_tables"] = "object-mode FN2 / PRED / KEYF / FNN of harness/c19.py (index modulo table length)"
        elif any(NONE_CODE in l for _, l in self.sources()):
            d["note"] = f"{NONE_CODE} stands for None"
        return d


def encode(fc, a):
    if fc in (1, 21, 28):  # (fn, initial, src)
        return [fc, 0 if a[0] == -1 else a[0], *enc_opt(a[1]), *enc_src(a[2])]
    if fc == 2:            # (n, strict, src)
        return [fc, a[0], a[1], *enc_src(a[2])]
    if fc == 3:            # (outer kind, srcs)
        return [fc, a[0], len(a[1]), *[x for s in a[1] for x in enc_src(s)]]
    if fc in (4, 5):       # (r, src)
        return [fc, a[0], *enc_src(a[1])]
    if fc == 6:            # (data, selectors)
        return [fc, *enc_src(a[0]), *enc_src(a[1])]
    if fc == 7:            # (start, step, k)
        return [fc, a[0], a[1], a[2]]
    if fc == 8:            # (k, src)
        return [fc, a[0], *enc_src(a[1])]
    if fc in (9, 10, 11, 18):   # (callback code, src)
        return [fc, a[0], *enc_src(a[1])]
    if fc == 12:           # (args tuple, src)
        return [fc, len(a[0]), *[x for o in a[0] for x in enc_opt(o)], *enc_src(a[1])]
    if fc == 13:           # (src,)
        return [fc, *enc_src(a[0])]
    if fc == 14:           # (r or None, src)
        return [fc, *enc_opt(a[0]), *enc_src(a[1])]
    if fc == 15:           # (repeat, srcs)
        return [fc, a[0], len(a[1]), *[x for s in a[1] for x in enc_src(s)]]
    if fc == 16:           # (element, times or None, k)
        return [fc, a[0], a[2], *enc_opt(a[1])]
    if fc == 17:           # (fn, outer kind, srcs)
        return [fc, a[0], a[1], len(a[2]), *[x for s in a[2] for x in enc_src(s)]]
    if fc == 19:           # (fill or None, srcs)
        return [fc, len(a[1]), *enc_opt(a[0]), *[x for s in a[1] for x in enc_src(s)]]
    if fc == 22:           # (n,)
        return [fc, a[0]]
    if fc == 29:           # (key code, src of object codes)
        return [fc, a[0], *enc_src(a[1])]
    if fc == 30:           # (outer kind, islice args, src)  chain(islice(it, *args), it) over ONE iterator object
        return [fc, a[0], len(a[1]), *[x for o in a[1] for x in enc_opt(o)], *enc_src(a[2])]
    if fc == 31:           # (fn, initial)  reduce over something that is not iterable
        return [fc, a[0], *enc_opt(a[1])]
    enc_store = lambda st: [len(st), *[x for e in st for x in enc_src(e)]]  # noqa: E731
    if fc == 23:           # (fill or None, store, positions)
        return [fc, *enc_opt(a[0]), *enc_store(a[1]), len(a[2]), *a[2]]
    if fc == 24:           # (outer kind, store, positions)
        return [fc, a[0], *enc_store(a[1]), len(a[2]), *a[2]]
    if fc == 25:           # (src,)  data and selectors are this one iterator
        return [fc, *enc_src(a[0])]
    if fc == 26:           # (repeat, store, positions)
        return [fc, a[0], *enc_store(a[1]), len(a[2]), *a[2]]
    if fc == 27:           # (fn, outer kind, store, positions)
        return [fc, a[0], a[1], *enc_store(a[2]), len(a[3]), *a[3]]
    raise ValueError(fc)


def outer_of(kind, items, var):
    """an outer iterable of the given kind over already-built inner iterables"""
    if kind == 0:
        return tuple(items) if var % 2 == 0 else iter(list(items))
    return _agen(items)


async def run_anyio(c: Case):
    """-> (error code or None); events in LOG"""
    import anyio.functools as afn
    import anyio.itertools as ait

    fc, a, v = c.fc, c.a, c.var
    S = lambda s, i=0: mk_src(s, v + i)  # noqa: E731
    if fc == 1:
        f, init, s = a
        if f == -1:
            return await consume_async(lambda: ait.accumulate(S(s), initial=init))
        return await consume_async(lambda: ait.accumulate(S(s), amk(FN2[f]), initial=init))
    if fc == 2:
        if a[1] == 0 and v % 2 == 0:
            return await consume_async(lambda: ait.batched(S(a[2]), a[0]))
        return await consume_async(lambda: ait.batched(S(a[2]), a[0], strict=bool(a[1])))
    if fc == 3:
        inner = [S(s, i) for i, s in enumerate(a[1])]
        if a[0] == 0 and v % 3 == 0:
            return await consume_async(lambda: ait.chain(*inner))
        return await consume_async(lambda: ait.chain.from_iterable(outer_of(a[0], inner, v)))
    if fc == 4:
        return await consume_async(lambda: ait.combinations(S(a[1]), a[0]))
    if fc == 5:
        return await consume_async(lambda: ait.combinations_with_replacement(S(a[1]), a[0]))
    if fc == 6:
        return await consume_async(lambda: ait.compress(S(a[0]), S(a[1], 1)))
    if fc == 7:
        return await consume_async(lambda: ait.count(a[0], a[1]), a[2])
    if fc == 8:
        return await consume_async(lambda: ait.cycle(S(a[1])), a[0])
    if fc == 9:
        return await consume_async(lambda: ait.dropwhile(amk(PRED[a[0]]), S(a[1])))
    if fc == 10:
        return await consume_async(lambda: ait.filterfalse(amk(PRED[a[0]]), S(a[1])))
    if fc == 11:
        if a[0] == 0 and v % 2 == 0:
            return await consume_async(lambda: ait.groupby(S(a[1])))
        return await consume_async(lambda: ait.groupby(S(a[1]), amk(KEYF[a[0]])))
    if fc == 12:
        return await consume_async(lambda: ait.islice(mk_log_src(a[1], v), *a[0]))
    if fc == 29:
        kind, codes = a[1]
        objs = [obj_of(x) for x in codes]
        src_obj = mk_src((kind, objs), v)
        if a[0] == 0:
            return await consume_async(lambda: ait.groupby(src_obj))
        return await consume_async(lambda: ait.groupby(src_obj, amk(NAN_KEYS[a[0]])))
    if fc == 30:
        kind, l = a[2]
        l = dec(l)
        shared = LogSyncIter(l) if kind == 0 else LogAsyncIter(l)
        if a[0] == 0:
            return await consume_async(lambda: ait.chain(ait.islice(shared, *a[1]), shared))
        return await consume_async(lambda: ait.chain.from_iterable(_agen([ait.islice(shared, *a[1]), shared])))
    if fc == 31:
        try:
            if a[1] is None:
                r = await afn.reduce(reducer(FN2[a[0]], v), 5)
            else:
                r = await afn.reduce(reducer(FN2[a[0]], v), 5, a[1])
            LOG.append(("y", r))
            return None
        except Exception as e:  # noqa: BLE001
            return err_code(e)
    if fc == 13:
        return await consume_async(lambda: ait.pairwise(S(a[0])))
    if fc == 14:
        if a[0] is None and v % 2 == 0:
            return await consume_async(lambda: ait.permutations(S(a[1])))
        return await consume_async(lambda: ait.permutations(S(a[1]), a[0]))
    if fc == 15:
        pools = [S(s, i) for i, s in enumerate(a[1])]
        if a[0] == 1 and v % 2 == 0:
            return await consume_async(lambda: ait.product(*pools))
        return await consume_async(lambda: ait.product(*pools, repeat=a[0]))
    if fc == 16:
        x, times, k = a
        if times is None:
            if v % 2 == 0:
                return await consume_async(lambda: ait.repeat(x), k)
            return await consume_async(lambda: ait.repeat(x, None), k)
        return await consume_async(lambda: ait.repeat(x, times))
    if fc == 17:
        inner = [S(s, i) for i, s in enumerate(a[2])]
        return await consume_async(lambda: ait.starmap(amk(FNN[a[0]]), outer_of(a[1], inner, v)))
    if fc == 18:
        return await consume_async(lambda: ait.takewhile(amk(PRED[a[0]]), S(a[1])))
    if fc == 19:
        its = [S(s, i) for i, s in enumerate(a[1])]
        if a[0] is None:
            return await consume_async(lambda: ait.zip_longest(*its))
        return await consume_async(lambda: ait.zip_longest(*its, fillvalue=a[0]))
    if fc == 21:
        f, init, s = a
        try:
            if init is None:
                r = await afn.reduce(reducer(FN2[f], v), mk_log_src(s, v))
            else:
                r = await afn.reduce(reducer(FN2[f], v), mk_log_src(s, v), None if init == NONE_CODE else init)
            LOG.append(("y", r))
            return None
        except Exception as e:  # noqa: BLE001
            return err_code(e)
    if fc == 28:
        import anyio

        f, init, s = a
        out = [None]
        real, REAL[0] = REAL[0], True       # the wrapped checkpoint functions must really act here
        try:
            with anyio.CancelScope() as scope:
                scope.cancel()
                try:
                    if init is None:
                        r = await afn.reduce(reducer(FN2[f], v), mk_log_src(s, v))
                    else:
                        r = await afn.reduce(reducer(FN2[f], v), mk_log_src(s, v), init)
                    LOG.append(("y", r))
                except anyio.get_cancelled_exc_class():
                    out[0] = 3
                    raise
                except Exception as e:  # noqa: BLE001
                    out[0] = err_code(e)
        finally:
            REAL[0] = real
        return out[0]
    if fc in (23, 24, 26, 27):
        store_t, pos = (a[1], a[2]) if fc != 27 else (a[2], a[3])
        objs = [mk_iter_obj(e, v + i) for i, e in enumerate(store_t)]
        args = [objs[i] for i in pos]
        if fc == 23:
            if a[0] is None:
                return await consume_async(lambda: ait.zip_longest(*args))
            return await consume_async(lambda: ait.zip_longest(*args, fillvalue=a[0]))
        if fc == 24:
            if a[0] == 0 and v % 3 == 0:
                return await consume_async(lambda: ait.chain(*args))
            return await consume_async(lambda: ait.chain.from_iterable(outer_of(a[0], args, v)))
        if fc == 26:
            return await consume_async(lambda: ait.product(*args, repeat=a[0]))
        return await consume_async(lambda: ait.starmap(amk(FNN[a[0]]), outer_of(a[1], args, v)))
    if fc == 25:
        obj = mk_iter_obj(a[0], v)
        return await consume_async(lambda: ait.compress(obj, obj))
    if fc == 22:
        try:
            t = ait.tee(S((0, ())), a[0])
            LOG.append(("n", len(t)))
            return None
        except Exception as e:  # noqa: BLE001
            return err_code(e)
    raise ValueError(fc)


def run_std(c: Case):
    """the standard library on the same arguments with the synchronous callbacks -> (values, error code)"""
    it = std_itertools
    fc, a = c.fc, c.a
    L = lambda s: dec(s[1])  # noqa: E731
    if fc == 1:
        f, init, s = a
        if f == -1:
            return consume_sync(lambda: it.accumulate(L(s), initial=init))
        return consume_sync(lambda: it.accumulate(L(s), FN2[f], initial=init))
    if fc == 2:
        return consume_sync(lambda: std_batched(L(a[2]), a[0], bool(a[1])))
    if fc == 3:
        return consume_sync(lambda: it.chain.from_iterable([L(s) for s in a[1]]))
    if fc == 4:
        return consume_sync(lambda: it.combinations(L(a[1]), a[0]))
    if fc == 5:
        return consume_sync(lambda: it.combinations_with_replacement(L(a[1]), a[0]))
    if fc == 6:
        return consume_sync(lambda: it.compress(L(a[0]), L(a[1])))
    if fc == 7:
        return consume_sync(lambda: it.count(a[0], a[1]), a[2])
    if fc == 8:
        return consume_sync(lambda: it.cycle(L(a[1])), a[0])
    if fc == 9:
        return consume_sync(lambda: it.dropwhile(PRED[a[0]], L(a[1])))
    if fc == 10:
        return consume_sync(lambda: it.filterfalse(PRED[a[0]], L(a[1])))
    if fc == 11:
        return consume_sync(lambda: std_groupby(L(a[1]), KEYF[a[0]]))
    if fc == 12:
        return consume_sync(lambda: it.islice(L(a[1]), *a[0]))
    if fc == 29:
        objs = [obj_of(x) for x in a[1][1]]
        return consume_sync(lambda: std_groupby(objs, NAN_KEYS[a[0]]))
    if fc == 30:
        shared = iter(dec(a[2][1]))
        return consume_sync(lambda: it.chain(it.islice(shared, *a[1]), shared))
    if fc == 31:
        try:
            if a[1] is None:
                return [std_functools.reduce(FN2[a[0]], 5)], None
            return [std_functools.reduce(FN2[a[0]], 5, a[1])], None
        except Exception as e:  # noqa: BLE001
            return [], err_code(e)
    if fc == 13:
        return consume_sync(lambda: it.pairwise(L(a[0])))
    if fc == 14:
        return consume_sync(lambda: it.permutations(L(a[1]), a[0]))
    if fc == 15:
        return consume_sync(lambda: it.product(*[L(s) for s in a[1]], repeat=a[0]))
    if fc == 16:
        x, times, k = a
        if times is None:
            return consume_sync(lambda: it.repeat(x), k)
        return consume_sync(lambda: it.repeat(x, times))
    if fc == 17:
        return consume_sync(lambda: it.starmap(FNN[a[0]], [L(s) for s in a[2]]))
    if fc == 18:
        return consume_sync(lambda: it.takewhile(PRED[a[0]], L(a[1])))
    if fc == 19:
        if a[0] is None:
            return consume_sync(lambda: it.zip_longest(*[L(s) for s in a[1]]))
        return consume_sync(lambda: it.zip_longest(*[L(s) for s in a[1]], fillvalue=a[0]))
    if fc == 28:
        return [], 3        # no standard-library counterpart: the expected outcome is the cancellation
    if fc == 21:
        f, init, s = a
        try:
            if init is None:
                return [std_functools.reduce(FN2[f], L(s))], None
            return [std_functools.reduce(FN2[f], L(s), None if init == NONE_CODE else init)], None
        except Exception as e:  # noqa: BLE001
            return [], err_code(e)
    if fc in (23, 24, 26, 27):
        store_t, pos = (a[1], a[2]) if fc != 27 else (a[2], a[3])
        objs = [iter(dec(e[1])) for e in store_t]
        args = [objs[i] for i in pos]
        if fc == 23:
            if a[0] is None:
                return consume_sync(lambda: it.zip_longest(*args))
            return consume_sync(lambda: it.zip_longest(*args, fillvalue=a[0]))
        if fc == 24:
            return consume_sync(lambda: it.chain.from_iterable(args))
        if fc == 26:
            return consume_sync(lambda: it.product(*args, repeat=a[0]))
        return consume_sync(lambda: it.starmap(FNN[a[0]], args))
    if fc == 25:
        obj = iter(dec(a[0][1]))
        return consume_sync(lambda: it.compress(obj, obj))
    if fc == 22:
        try:
            return [("n", len(it.tee([], a[0])))], None
        except Exception as e:  # noqa: BLE001
            return [], err_code(e)
    raise ValueError(fc)


async def execute(cases: list[Case]):
    import signal

    have_alarm = hasattr(signal, "setitimer")
    old = signal.signal(signal.SIGALRM, _on_alarm) if have_alarm else None
    try:
        await _execute(cases, signal if have_alarm else None)
    finally:
        if have_alarm:
            signal.setitimer(signal.ITIMER_REAL, 0)
            signal.signal(signal.SIGALRM, old)
        YIELD_CAP[0] = YIELD_CAP_DEFAULT
        LOG_CAP[0] = 2_000_000


async def _execute(cases: list[Case], signal):
    for c in cases:
        LOG.clear()
        COLLISION[0] = False
        cap = c.yield_cap()
        YIELD_CAP[0] = cap
        LOG_CAP[0] = 2_000_000 if cap == YIELD_CAP_DEFAULT else 40 * cap + 200
        if signal is not None:
            signal.setitimer(signal.ITIMER_REAL, WATCHDOG_S)
        ran = None
        if PROBE[0]:
            ran = []
            asyncio.get_running_loop().call_soon(ran.append, 1)     # runs only if the traversal really yields to the loop
        try:
            err = await run_anyio(c)
        except Runaway:
            err = 9
        if signal is not None:
            signal.setitimer(signal.ITIMER_REAL, 0)
        if ran is not None:
            c.loop_yielded = bool(ran)
            if not ran:
                await asyncio.sleep(0)
        log = list(LOG)
        c.impl_vals = [e[1] for e in log if isinstance(e, tuple) and e[0] == "y"]
        c.impl_err = err
        c.nck = sum(1 for e in log if e in (1, 2, 3))
        c.ncall = sum(1 for e in log if e == 6)
        c.nyield = sum(1 for e in log if e in (1, 3))
        c.ncheck = sum(1 for e in log if e in (1, 2))
        c.value_before_check = False
        for e in log:
            if e in (1, 2):
                break
            if isinstance(e, tuple) and e[0] == "y":
                c.value_before_check = True
                break
        c.npoll = sum(1 for e in log if e == 7)
        c.first_ev = next((e for e in log if isinstance(e, int)), None)
        if c.fc == 22:
            n = [e[1] for e in log if isinstance(e, tuple) and e[0] == "n"]
            c.impl = [5, n[0]] if err is None else [4, err]
            vals, serr = run_std(c)
            c.std = ([5, vals[0][1]] if serr is None else [4, serr])
            c.impl_vals = c.impl
            continue
        c.impl = flat_trace(log, err)
        vals, serr = run_std(c)
        c.std = (vals, serr)
        c.collision = COLLISION[0]


def run_cases(cases: list[Case], real: bool = False, config: str | None = None, probe: bool = False,
              objmode: bool = False):
    """config None: plain asyncio.run; 'asyncio' / 'eager' / 'uvloop': through anyio.run on that loop configuration"""
    REAL[0] = real
    PROBE[0] = probe
    OBJMODE[0] = objmode
    install_wrappers()
    try:
        if config is None:
            asyncio.run(execute(cases))
        else:
            import anyio

            async def main():
                await execute(cases)

            if config == "asyncio":
                anyio.run(main, backend_options={"use_uvloop": False})
            elif config == "uvloop":
                anyio.run(main, backend_options={"use_uvloop": True})
            else:
                def factory():
                    loop = asyncio.new_event_loop()
                    loop.set_task_factory(asyncio.eager_task_factory)
                    return loop
                anyio.run(main, backend_options={"loop_factory": factory})
    finally:
        remove_wrappers()
        REAL[0] = False
        PROBE[0] = False
        OBJMODE[0] = False


LOOP_CONFIGS = ("asyncio", "eager", "uvloop")


def in_clause(c: "Case") -> bool:
    """does the C08 itertools clause apply to this executed case (error-free; synchronous sources or nothing yielded)"""
    if c.impl_err is not None or c.fc in (22, 28, 31):
        return False
    if c.fc == 21:
        return True
    if c.fc in INFINITE and ((c.fc == 7 and c.a[2] == 0) or (c.fc == 8 and c.a[0] == 0) or
                             (c.fc == 16 and c.a[1] is None and c.a[2] == 0)):
        return False
    return all(k == 0 for k, _ in c.sources()) or not c.impl_vals


def loop_probe_family(tier: str):
    """the small-input family once per loop configuration with the REAL checkpoint functions and a call_soon probe:
    a traversal inside the clause must let the event loop run - an observed loop yield, not a wrapped name being called"""
    hits, n = [], 0
    for cfg in LOOP_CONFIGS:
        cases = exhaustive_cases("c08") + alias_cases("c08")
        try:
            run_cases(cases, real=True, config=cfg, probe=True)
        except Exception as e:  # noqa: BLE001
            hits.append((cases[0], f"the small-input family could not be run on {cfg}: {e!r}"))
            continue
        for c in cases:
            if in_clause(c):
                n += 1
                if not getattr(c, "loop_yielded", True):
                    hits.append((c, f"{FNAME[c.fc]}: traversal inside the clause completed without letting the event loop "
                                    f"run on {cfg} (logged checks {c.ncheck}, yields {c.nyield})"))
            for h in monitor(c):
                if "checkpoint" in h:
                    hits.append((c, h + f" [{cfg}, real checkpoint functions]"))
    return hits, n


# ----------------------------------------------------------------------------------------------
# case generation
# ----------------------------------------------------------------------------------------------
CUR_ALPHABET = [ALPHABET]


def lists(maxlen, alphabet=None):
    alphabet = CUR_ALPHABET[0] if alphabet is None else alphabet
    out = []
    for n in range(maxlen + 1):
        out += list(std_itertools.product(alphabet, repeat=n))
    return out


def srcs_upto(maxlen, kinds=(0, 1)):
    return [(k, l) for k in kinds for l in lists(maxlen)]


def src_tuples(nmax, maxlen, kinds=(0, 1)):
    base = srcs_upto(maxlen, kinds)
    out = []
    for n in range(nmax + 1):
        out += list(std_itertools.product(base, repeat=n))
    return out


BOUNDS = {
    # per tier: see exhaustive_cases; recorded verbatim in the evidence
    "quick": dict(L=5, Lpred=5, params=(-2, -1, 0, 1, 2, 3, 4, 5, 6, 7), Lcomb=4, Lcompress=3,
                  islice_params=(None, -2, -1, 0, 1, 2, 3, 5), Lislice=2, Lislice_distinct=6, chain_n=2, chain_L=2,
                  zip_n=2, zip_L=2, prod_n=2, prod_L=2, prod_rep=(-1, 0, 1, 2, 3), star_n=2, star_L=2,
                  cycle_L=3, cycle_k=7, count_k=4, Lacc=4,
                  alias_L1=4, alias_L2=2, alias_L3=1, alias_self_L=5, obj_L=4, rest_L=4, rest_params=(None, 0, 1, 2, 3, 5)),
    "c08": dict(L=1, Lpred=1, params=(-1, 0, 1, 2), Lcomb=1, Lcompress=1, islice_params=(None, 0, 1, 2), Lislice=1,
                Lislice_distinct=1, chain_n=2, chain_L=1, zip_n=2, zip_L=1, prod_n=2, prod_L=1, prod_rep=(0, 1), star_n=2,
                star_L=1, cycle_L=1, cycle_k=2, count_k=1, Lacc=1, alias_L1=1, alias_L2=1, alias_L3=0, alias_self_L=1, obj_L=2, rest_L=2, rest_params=(None, 0, 1, 3)),
    # sources over {0, 1, None}: the model's distinguished element (None-safe callbacks; accumulate / reduce with all)
    "none": dict(L=3, Lpred=3, params=(-1, 0, 1, 2, 3), Lcomb=3, Lcompress=2, islice_params=(None, 0, 1, 2), Lislice=3,
                 Lislice_distinct=3, chain_n=2, chain_L=2, zip_n=2, zip_L=2, prod_n=2, prod_L=1, prod_rep=(0, 1, 2), star_n=2,
                 star_L=2, cycle_L=2, cycle_k=4, count_k=1, Lacc=3),
    # object mode: sources over OBJ_ALPHABET (codes 0..7), stdlib differential only
    "obj": dict(L=2, Lpred=2, params=(-1, 0, 1, 2, 3), Lcomb=2, Lcompress=1, islice_params=(None, 0, 1, 2), Lislice=2,
                Lislice_distinct=2, chain_n=2, chain_L=1, zip_n=2, zip_L=1, prod_n=2, prod_L=1, prod_rep=(0, 1, 2), star_n=2,
                star_L=1, cycle_L=2, cycle_k=3, count_k=1, Lacc=2),
    "thorough": dict(L=6, Lpred=7, params=(-2, -1, 0, 1, 2, 3, 4, 5, 6, 7), Lcomb=5, Lcompress=4,
                     islice_params=(None, -2, -1, 0, 1, 2, 3, 4, 5, 6, 7), Lislice=4, Lislice_distinct=7,
                     chain_n=3, chain_L=2, zip_n=3, zip_L=2, prod_n=2, prod_L=2, prod_rep=(-2, -1, 0, 1, 2, 3),
                     star_n=3, star_L=2, cycle_L=4, cycle_k=10, count_k=5, Lacc=6,
                     alias_L1=6, alias_L2=3, alias_L3=2, alias_self_L=7, obj_L=5, rest_L=6, rest_params=(None, -1, 0, 1, 2, 3, 4, 5, 7)),
}


def exhaustive_cases(tier: str) -> list[Case]:
    b = BOUNDS[tier]
    P = b["params"]
    out: list[Case] = []
    var = [0]

    def add(fc, a):
        var[0] += 1
        out.append(Case(fc, a, var[0]))

    S_acc = srcs_upto(b["Lacc"])
    for f in [-1] + list(range(len(FN2))):
        for init in (None, 0, 2):
            for s in S_acc:
                add(1, (f, init, s))
    for f in range(len(FN2)):
        for init in (None, 0, 2):
            for s in S_acc:
                add(21, (f, init, s))
                if f in (0, 5) and len(s[1]) <= 3:
                    add(28, (f, init, s))
    S = srcs_upto(b["L"])
    for n in P:
        for strict in (0, 1):
            for s in S:
                add(2, (n, strict, s))
    for ko in (0, 1):
        for ss in src_tuples(b["chain_n"], b["chain_L"]):
            add(3, (ko, ss))
    Sc = srcs_upto(b["Lcomb"])
    for r in P:
        for s in Sc:
            add(4, (r, s))
            add(5, (r, s))
    for r in (None,) + tuple(P):
        for s in Sc:
            add(14, (r, s))
    Sz = srcs_upto(b["Lcompress"])
    for d in Sz:
        for s in Sz:
            add(6, (d, s))
    for start in P:
        for step in P:
            for k in range(b["count_k"] + 1):
                add(7, (start, step, k))
    for k in range(b["cycle_k"] + 1):
        for s in srcs_upto(b["cycle_L"]):
            add(8, (k, s))
    Sp = srcs_upto(b["Lpred"])
    for p in range(len(PRED)):
        for s in Sp:
            add(9, (p, s))
            add(10, (p, s))
            add(18, (p, s))
    for kf in range(len(KEYF)):
        for s in Sp:
            add(11, (kf, s))
    ip = b["islice_params"]
    arglists = [()] + [t for n in (1, 2, 3) for t in std_itertools.product(ip, repeat=n)] + [(1, 2, 1, 1), (None,) * 4]
    Si = srcs_upto(b["Lislice"]) + [(k, tuple(range(n))) for k in (0, 1)
                                    for n in range(b["Lislice"] + 1, b["Lislice_distinct"] + 1)]
    for args in arglists:
        for s in Si:
            add(12, (args, s))
    for s in S:
        add(13, (s,))
    for rep in b["prod_rep"]:
        for ss in src_tuples(b["prod_n"], b["prod_L"]):
            add(15, (rep, ss))
    for x in ALPHABET:
        for times in (None,) + tuple(P):
            for k in range(b["count_k"] + 1):
                add(16, (x, times, k))
    for f in range(len(FNN)):
        for ko in (0, 1):
            for ss in src_tuples(b["star_n"], b["star_L"]):
                add(17, (f, ko, ss))
    for fill in (None, 7):
        for ss in src_tuples(b["zip_n"], b["zip_L"]):
            add(19, (fill, ss))
    for n in P:
        add(22, (n,))
    return out


# position -> underlying-iterator maps (restricted growth strings): every way to place 1..3 underlying iterator
# objects at 1..3 argument positions; [0,1,2] etc. are the distinct-source cases seen through the store
ALIAS_PATTERNS = {1: [(0,), (0, 0), (0, 0, 0)],
                  2: [(0, 1), (0, 0, 1), (0, 1, 0), (0, 1, 1)],
                  3: [(0, 1, 2)]}


def alias_cases(tier: str) -> list[Case]:
    b = BOUNDS[tier]
    out: list[Case] = []
    var = [0]

    def add(fc, a):
        var[0] += 1
        out.append(Case(fc, a, var[0], origin="exhaustive-alias"))

    for m, pats in ALIAS_PATTERNS.items():
        base = srcs_upto(b[f"alias_L{m}"])
        for store in std_itertools.product(base, repeat=m):
            for pos in pats:
                for fill in (None, 7):
                    add(23, (fill, store, pos))
                for ko in (0, 1):
                    add(24, (ko, store, pos))
                for rep in (0, 1, 2):
                    if rep * len(pos) <= 4:
                        add(26, (rep, store, pos))
                for f in ((4,) if tier == "quick" else (0, 4)):
                    for ko in (0, 1):
                        add(27, (f, ko, store, pos))
    for s_ in srcs_upto(b["alias_self_L"]):
        add(25, (s_,))
    # groupby over objects whose equality is not reflexive: ints, one NaN object repeated, other NaN objects, Decimal NaN
    for l in lists(b["obj_L"], (0, 1, 99, 199, 299)):
        for kind in (0, 1):
            for kc in range(len(NAN_KEYS)):
                add(29, (kc, (kind, l)))
    # chain(islice(it, *args), it): what islice leaves in a shared iterator (start >= stop, stop = 0, start > len …)
    rp = b["rest_params"]
    for args in [t for n in (1, 2, 3) for t in std_itertools.product(rp, repeat=n)]:
        for n in range(b["rest_L"] + 1):
            for kind in (0, 1):
                for ko in (0, 1):
                    add(30, (ko, args, (kind, tuple(range(n)))))
    for f in (0, 5):
        for init in (None, 2):
            add(31, (f, init))
    return out


def random_alias_cases(rng: random.Random, n: int) -> list[Case]:
    out = []
    for _ in range(n):
        m = rng.randint(1, 3)
        store = tuple((rng.randint(0, 1), tuple(rng.randint(-5, 9) for _ in range(rng.randint(0, 12)))) for _ in range(m))
        pos = tuple(rng.randrange(m) for _ in range(rng.randint(1, 5)))
        fc = rng.choice([23, 23, 24, 25, 26, 27, 29, 30, 30])
        if fc == 29:
            a = (rng.randrange(len(NAN_KEYS)), (rng.randint(0, 1), tuple(rng.choice((0, 1, 2, 99, 99, 199, 299)) for _ in range(rng.randint(0, 14)))))
        elif fc == 30:
            a = (rng.randint(0, 1), tuple(rng.choice((None, 0, 1, 2, 3, 5, 8, 12)) for _ in range(rng.choice([1, 2, 2, 3]))),
                 (rng.randint(0, 1), tuple(range(rng.randint(0, 12)))))
        elif fc == 23:
            a = (rng.choice([None, -1, 7]), store, pos)
        elif fc == 24:
            a = (rng.randint(0, 1), store, pos)
        elif fc == 25:
            a = ((rng.randint(0, 1), tuple(rng.choice((0, 0, 1, 2, -1)) for _ in range(rng.randint(0, 20)))),)
        elif fc == 26:
            store = tuple((k, l[:3]) for k, l in store)
            a = (rng.randint(-1, 1), store, pos[:3])
        else:
            a = (rng.randrange(len(FNN)), rng.randint(0, 1), store, pos)
        out.append(Case(fc, a, rng.randrange(1000), origin="random-alias"))
    return out


# ---- tee iterators passed onward (stdlib differential only: no trace model of the composition) ----
def tee_onward_cases(tier: str):
    L = 3 if tier == "quick" else 4
    out = []
    for kind in (0, 1):
        for l in lists(L):
            for n, pats in ((1, [(0,), (0, 0)]), (2, [(0, 1), (1, 0), (0, 0, 1), (0, 1, 0), (0, 1, 1)]),
                            (3, [(0, 1, 2), (2, 0, 1)])):
                for pos in pats:
                    for F in ("zip_longest", "chain", "product", "starmap", "compress"):
                        if F == "compress" and len(pos) != 2:
                            continue
                        if F == "product" and len(l) ** len(pos) > 100:
                            continue
                        out.append({"F": F, "kind": kind, "src": l, "n": n, "pos": pos})
    return out


async def _run_tee_onward(cases):
    import anyio.itertools as ait

    hits = []
    for c in cases:
        F, pos, l = c["F"], c["pos"], list(c["src"])
        cap = 3 * (len(l) + 2) * (len(pos) + 1) + (len(l) ** len(pos) if F == "product" else 0)
        YIELD_CAP[0] = cap
        LOG_CAP[0] = 60 * cap + 500
        LOG.clear()
        ts = ait.tee(mk_iter_obj((c["kind"], l), len(hits)), c["n"])
        args = [ts[i] for i in pos]
        tsd = std_itertools.tee(iter(l), c["n"])
        sargs = [tsd[i] for i in pos]
        if F == "zip_longest":
            err = await consume_async(lambda: ait.zip_longest(*args, fillvalue=7))
            std = consume_sync(lambda: std_itertools.zip_longest(*sargs, fillvalue=7))
        elif F == "chain":
            err = await consume_async(lambda: ait.chain(*args))
            std = consume_sync(lambda: std_itertools.chain(*sargs))
        elif F == "product":
            err = await consume_async(lambda: ait.product(*args))
            std = consume_sync(lambda: std_itertools.product(*sargs))
        elif F == "starmap":
            err = await consume_async(lambda: ait.starmap(amk(_horner), args))
            std = consume_sync(lambda: std_itertools.starmap(_horner, sargs))
        else:
            err = await consume_async(lambda: ait.compress(args[0], args[1]))
            std = consume_sync(lambda: std_itertools.compress(sargs[0], sargs[1]))
        vals = [e[1] for e in LOG if isinstance(e, tuple) and e[0] == "y"]
        nck = min(sum(1 for e in LOG if e in (1, 2)), sum(1 for e in LOG if e in (1, 3)))
        if err != std[1] or canon(vals) != canon(std[0]):
            hits.append((c, f"{F} over tee iterators at positions {list(pos)}: AnyIO {vals!r} (error {err}) but the "
                            f"standard library {std[0]!r} (error {std[1]}); 9 = still producing at the bound"))
        elif err is None and not vals and nck == 0:
            hits.append((c, f"{F} over tee iterators: traversal yielding nothing passed no checkpoint"))
    return hits


def run_tee_onward(tier: str):
    cases = tee_onward_cases(tier)
    install_wrappers()
    try:
        hits = asyncio.run(_run_tee_onward(cases))
    finally:
        remove_wrappers()
        YIELD_CAP[0] = YIELD_CAP_DEFAULT
        LOG_CAP[0] = 2_000_000
    return cases, hits


def none_cases(tier: str) -> list[Case]:
    """every function over sources that contain None (the model's distinguished element), with callbacks that accept it;
    accumulate / reduce with every callback (arithmetic on None is a TypeError in the model as in Python) and reduce with
    None as an explicit initial value"""
    CUR_ALPHABET[0] = (0, 1, NONE_CODE)
    try:
        base = exhaustive_cases("none")
    finally:
        CUR_ALPHABET[0] = ALPHABET
    out = []
    for c in base:
        fc, a = c.fc, c.a
        if fc in (7, 16, 22):
            continue
        if fc in (9, 10, 18) and a[0] not in NONE_SAFE["pred"]:
            continue
        if fc == 11 and a[0] not in NONE_SAFE["key"]:
            continue
        if fc == 17 and a[0] not in NONE_SAFE["fnn"]:
            continue
        c.origin = "exhaustive-none"
        out.append(c)
        if fc == 21 and a[1] == 0:
            out.append(Case(21, (a[0], NONE_CODE, a[2]), c.var + 1, origin="exhaustive-none"))
    return out


def object_cases(tier: str) -> list[Case]:
    """object mode (no model): every function over sources of sentinel-like values, compared with the stdlib only"""
    CUR_ALPHABET[0] = tuple(range(len(OBJ_ALPHABET)))
    try:
        base = exhaustive_cases("obj")
    finally:
        CUR_ALPHABET[0] = ALPHABET
    out = [c for c in base if c.fc not in (7, 16, 22, 28)]
    for c in out:
        c.origin = "object-mode"
        c.objmode = True
    return out


def random_cases(rng: random.Random, n: int) -> list[Case]:
    out = []

    def rl(maxlen=30):
        return tuple(rng.randint(-5, 9) for _ in range(rng.randint(0, maxlen)))

    def rs(maxlen=30):
        return (rng.randint(0, 1), rl(maxlen))

    def ro(lo=-3, hi=12):
        return None if rng.random() < 0.2 else rng.randint(lo, hi)

    for i in range(n):
        fc = rng.choice([1, 2, 3, 4, 5, 6, 7, 8, 9, 10, 11, 12, 13, 14, 15, 16, 17, 18, 19, 21])
        if fc in (1, 21):
            a = (rng.randrange(len(FN2)), ro(-5, 9), rs(12 if True else 30))
        elif fc == 2:
            a = (rng.randint(-2, 9), rng.randint(0, 1), rs())
        elif fc == 3:
            a = (rng.randint(0, 1), tuple(rs(8) for _ in range(rng.randint(0, 5))))
        elif fc in (4, 5):
            a = (rng.randint(-2, 5), rs(6))
        elif fc == 6:
            a = ((rng.randint(0, 1), rl()), (rng.randint(0, 1), tuple(rng.choice((0, 0, 1, 2, -1)) for _ in range(rng.randint(0, 30)))))
        elif fc == 7:
            a = (rng.randint(-50, 50), rng.randint(-9, 9), rng.randint(0, 25))
        elif fc == 8:
            a = (rng.randint(0, 40), rs(9))
        elif fc in (9, 10, 18):
            a = (rng.randrange(len(PRED)), (rng.randint(0, 1), tuple(rng.randint(-1, 3) for _ in range(rng.randint(0, 30)))))
        elif fc == 11:
            a = (rng.randrange(len(KEYF)), (rng.randint(0, 1), tuple(rng.randint(0, 3) for _ in range(rng.randint(0, 30)))))
        elif fc == 12:
            a = (tuple(ro(-2, 20) for _ in range(rng.choice([1, 2, 2, 3, 3, 3]))), rs())
        elif fc == 13:
            a = (rs(),)
        elif fc == 14:
            a = (ro(-2, 5), rs(5))
        elif fc == 15:
            a = (rng.randint(-1, 2), tuple(rs(3) for _ in range(rng.randint(0, 3))))
        elif fc == 16:
            a = (rng.randint(-5, 9), ro(-3, 25), rng.randint(0, 25))
        elif fc == 17:
            a = (rng.randrange(len(FNN)), rng.randint(0, 1), tuple(rs(6) for _ in range(rng.randint(0, 8))))
        else:
            a = (ro(-5, 9), tuple(rs(10) for _ in range(rng.randint(0, 5))))
        if fc in (1, 21, 2, 3, 4, 5, 8, 13, 14, 15, 19) and rng.random() < 0.3:
            a = _sprinkle_none(rng, a)
        out.append(Case(fc, a, rng.randrange(1000), origin="random"))
    return out


def _sprinkle_none(rng, a):
    """replace some source elements by None (functions whose callbacks accept it / whose model handles it)"""
    def sp(x):
        if isinstance(x, tuple) and len(x) == 2 and x[0] in (0, 1) and isinstance(x[1], tuple):
            return (x[0], tuple(NONE_CODE if rng.random() < 0.3 else e for e in x[1]))
        if isinstance(x, tuple):
            return tuple(sp(y) for y in x)
        return x
    return tuple(sp(x) if isinstance(x, tuple) else x for x in a)


# ----------------------------------------------------------------------------------------------
# monitors (independent of the model)
# ----------------------------------------------------------------------------------------------
INFINITE = (7, 8, 16)


def canon(v):
    """structural comparison key that keeps equal-but-distinct values apart (False / 0 / 0.0) and compares objects whose
    equality is unusable (NaN, Odd) by identity"""
    if isinstance(v, (list, tuple)):
        return (type(v).__name__ if OBJMODE[0] else "seq", tuple(canon(x) for x in v))
    if isinstance(v, (bool, int, str, type(None))):
        return (type(v).__name__, v)
    if isinstance(v, float) and v == v:
        return ("float", v)
    return ("id", id(v))


def monitor(c: Case) -> list[str]:
    hits = []
    if c.fc == 22:
        if c.impl != c.std:
            hits.append(f"tee(iterable, {c.a[0]}): AnyIO {c.impl} vs stdlib {c.std} ([5,n]=n iterators, [4,e]=error)")
        return hits
    vals, serr = c.std
    if c.fc in (21, 28) and c.first_ev is not None and c.first_ev != 2:
        hits.append("reduce touched the iterable or called the function before its cancellation check (checkpoint_if_cancelled)")
    if c.fc == 28:
        if c.impl_err != 3:
            hits.append(f"reduce in an already cancelled scope did not raise the cancellation (outcome: "
                        f"{'returned ' + repr(c.impl_vals) if c.impl_err is None else 'error ' + str(c.impl_err)}) - not a checkpoint")
        if c.npoll or c.ncall:
            hits.append(f"reduce in an already cancelled scope advanced the iterable {c.npoll} times and called the function {c.ncall} times")
        return hits
    if c.impl_err != serr:
        if c.impl_err == 9:
            hits.append(f"{FNAME[c.fc]}: runaway iterator: still producing after {len(c.impl_vals)} results (or hung); "
                        f"the standard library yields {len(vals)} results and ends with error {serr}")
        else:
            hits.append(f"{FNAME[c.fc]}: error class differs: AnyIO {c.impl_err} vs stdlib {serr} (1=ValueError 2=TypeError 7=other)")
    if canon(c.impl_vals) != canon(vals):
        hits.append(f"{FNAME[c.fc]}: AnyIO yields {c.impl_vals!r} but the standard library yields {vals!r}")
    if c.impl_err is None:
        srcs = c.sources()
        sync_only = all(k == 0 for k, _ in srcs)
        if c.fc == 21:
            if c.nyield == 0 or c.ncheck == 0:
                hits.append(f"reduce returned without passing a checkpoint (cancellation checks {c.ncheck}, yields {c.nyield}; "
                            f"{c.ncall} callback invocations, reducer {'yields' if c.var % 3 == 2 else 'never yields'})")
        elif c.fc in INFINITE and ((c.fc == 7 and c.a[2] == 0) or (c.fc == 8 and c.a[0] == 0) or
                                   (c.fc == 16 and c.a[1] is None and c.a[2] == 0)):
            pass    # nothing was asked of the iterator
        elif (sync_only or not c.impl_vals) and (c.ncheck == 0 or c.nyield == 0):
            hits.append(f"{FNAME[c.fc]}: traversal ({'synchronous sources' if sync_only else 'no element yielded'}) passed no "
                        f"checkpoint: cancellation checks {c.ncheck}, yields to the loop {c.nyield} (both are required)")
        elif sync_only and c.value_before_check:
            hits.append(f"{FNAME[c.fc]}: an element was handed out before the first cancellation check (checkpoint order)")
    return hits


# ----------------------------------------------------------------------------------------------
# tee: consumers are puppet tasks on the schedule-controlled loop; the harness picks every interleaving
# ----------------------------------------------------------------------------------------------
class CountingSyncSource:
    def __init__(self, l):
        self.l, self.i, self.polls = list(l), 0, 0

    def __iter__(self):
        return self

    def __next__(self):
        self.polls += 1
        if self.i >= len(self.l):
            raise StopIteration
        self.i += 1
        return self.l[self.i - 1]


class CountingAsyncSource:
    def __init__(self, l, suspend):
        self.l, self.i, self.polls, self.suspend = list(l), 0, 0, suspend

    def __aiter__(self):
        return self

    async def __anext__(self):
        self.polls += 1
        i = self.i
        if i < len(self.l):
            self.i += 1
        if self.suspend:
            await asyncio.sleep(0)
        if i >= len(self.l):
            raise StopAsyncIteration
        return self.l[i]


_END = object()


class TeeRun:
    """op codes: 0 next(c), 1 resume(c), 2 + j: tee(its[c], j + 1) - a copy producing j + 1 new consumers"""

    def __init__(self, mode: int, src: tuple, n: int, copies: bool = False, max_consumers: int = 4):
        self.mode, self.src, self.n = mode, tuple(src), n
        self.copies, self.max_consumers = copies, max_consumers
        self.ops: list[int] = []
        self.outs: list[int] = []
        self.mon: list[str] = []
        self.seen: dict = {}
        self.stopped: dict = {}
        self.cks: dict = {}        # logged checkpoint events per consumer
        self.chk: dict = {}        # ... of which cancellation checks (Ck, CkIf)
        self.yld: dict = {}        # ... of which real yields (Ck, Sh)
        self.blocks: dict = {}     # suspensions per consumer (any segment that ended blocked)
        self.starts: dict = {}     # candidate start positions (the original's position when the copy was made)
        self.flags: set = set()

    def _new_consumer(self, j, starts):
        self.seen[j], self.stopped[j], self.cks[j], self.blocks[j], self.starts[j] = [], False, 0, 0, set(starts)
        self.chk[j], self.yld[j] = 0, 0
        self.world.spawn(j + 1)
        self.cons_of = {id(p.task): t - 1 for t, p in self.world.puppets.items()}

    def __enter__(self):
        import anyio.itertools as ait
        from puppet import World

        self.ait = ait
        self.world = World()
        self._sess = self.world.session()
        self._sess.__enter__()
        self.source = CountingSyncSource(self.src) if self.mode == 0 else CountingAsyncSource(self.src, self.mode == 2)
        self.its = list(ait.tee(self.source, self.n))
        # the standard library on the same schedule: itertools.tee objects, copies by copy.copy (None = the copy was
        # taken in the middle of a call of the original, where "the original's position" is not observable)
        self.std = list(std_itertools.tee(iter(self.src), self.n))
        self.cons_of = {}
        for c in range(self.n):
            self._new_consumer(c, {0})
        return self

    def __exit__(self, *a):
        self.world.close()
        self._sess.__exit__(*a)

    def lock_obs(self):
        if not self.its:
            return [0, 0]
        st = self.its[0]._state.lock.statistics()
        owner = 0 if st.owner is None else self.cons_of.get(st.owner.id, 98) + 1
        return [owner, st.tasks_waiting]

    def enabled(self):
        en = []
        for t, p in self.world.puppets.items():
            if p.at_decision:
                en.append((0, t - 1))
            elif self.world.runnable(p):
                en.append((1, t - 1))
        if self.copies and len(self.its) < self.max_consumers:
            for c in range(len(self.its)):
                en.append((2, c))
        return en

    def do(self, code: int, c: int):
        LOG.clear()
        if code >= 2:
            k = code - 1
            p = self.world.puppets[c + 1]
            pos = {st + len(self.seen[c]) + d for st in self.starts[c] for d in ((0,) if p.at_decision else (0, 1))}
            first = len(self.its)
            new = self.ait.tee(self.its[c], k)
            if len(new) != k or any(x is self.its[c] for x in new):
                self.mon.append(f"tee(it_{c}, {k}) returned {len(new)} iterators / the original itself")
            self.flags.add("copy_of_copy" if c >= self.n else "copy")
            self.flags.add("copy_midcall" if not p.at_decision else
                           "copy_exhausted" if self.stopped[c] else
                           "copy_advanced" if self.seen[c] else "copy_fresh")
            import copy as _copy
            for x in new:
                self.its.append(x)
                self.std.append(_copy.copy(self.std[c]) if (p.at_decision and self.std[c] is not None) else None)
                self._new_consumer(len(self.its) - 1, pos)
            self.ops += [code, c]
            self.outs += [3, first] + self.lock_obs() + [self.source.polls, 0]
            return
        if code == 0:
            it = self.its[c]

            async def cmd(p, it=it):
                try:
                    return ("v", await it.__anext__())
                except StopAsyncIteration:
                    return ("stop", None)

            out = self.world.act(c + 1, cmd)
        else:
            out = self.world.resume(c + 1)
        ev = [e for e in LOG if isinstance(e, int)]
        self.cks[c] += sum(1 for e in ev if e in (1, 2, 3))
        self.chk[c] += sum(1 for e in ev if e in (1, 2))
        self.yld[c] += sum(1 for e in ev if e in (1, 3))
        if out is None:
            res = [9, 0]
        elif out[0] == "blocked":
            res = [1, 0]
            self.blocks[c] += 1
        elif out[0] == "ok" and out[1][0] == "v":
            res = [0, back(out[1][1])]
            self.on_value(c, out[1][1])
        elif out[0] == "ok":
            res = [2, 0]
            self.on_stop(c)
        else:
            res = [8, 0]
            self.mon.append(f"consumer {c}: unexpected exception {out[1]!r}")
        lo = self.lock_obs()
        if lo[1] > 0:
            self.flags.add("lock_contended")
        if code == 1 and res[0] != 1 and lo[0] != 0:
            self.flags.add("handoff")
        if self.source.polls > len(self.src) + 1:
            self.mon.append(f"source advanced {self.source.polls} times for {len(self.src)} elements")
        self.ops += [code, c]
        self.outs += res + lo + [self.source.polls, len(ev)] + ev

    def on_value(self, c, v):
        i = len(self.seen[c])
        if self.stopped[c]:
            self.mon.append(f"consumer {c} received {v} after StopAsyncIteration")
        ok = {p for p in self.starts[c] if p + i < len(self.src) and self.src[p + i] == v}
        if not ok:
            self.mon.append(f"consumer {c} (started at position {sorted(self.starts[c])} of source {list(self.src)}) "
                            f"received {v} as its element #{i} (seen so far {self.seen[c]})")
        else:
            self.starts[c] = ok
        if self.std[c] is not None:
            sv = next(self.std[c], _END)
            if sv != v:
                self.mon.append(f"consumer {c} received {v} but the corresponding itertools.tee / copy.copy iterator gives "
                                f"{'StopIteration' if sv is _END else sv}")
        self.seen[c].append(v)

    def on_stop(self, c):
        self.stopped[c] = True
        if self.std[c] is not None:
            sv = next(self.std[c], _END)
            if sv is not _END:
                self.mon.append(f"consumer {c} stopped but the corresponding itertools.tee / copy.copy iterator still gives {sv}")
        if not any(tuple(self.seen[c]) == self.src[p:] for p in self.starts[c]):
            self.mon.append(f"consumer {c} (started at position {sorted(self.starts[c])}) stopped after {self.seen[c]} "
                            f"of source {list(self.src)}")
        if not self.seen[c] and (self.chk[c] == 0 or self.yld[c] == 0):
            self.mon.append(f"traversal of consumer {c} yielded nothing and logged no checkpoint "
                            f"(cancellation checks {self.chk[c]}, yields {self.yld[c]}; both are required)")
        elif (self.chk[c] == 0 or self.yld[c] == 0) and self.blocks[c] == 0:
            self.mon.append(f"complete traversal of consumer {c} never suspended and logged no checkpoint")

    def quiesce(self):
        """every consumer (copies included) finishes its call and then drains its iterator"""
        for _ in range(40 * (len(self.src) + 2) * max(len(self.its), 1)):
            en = [(k, c) for (k, c) in self.enabled() if k < 2]
            res = [(k, c) for (k, c) in en if k == 1]
            if res:
                self.do(*res[0])
                continue
            todo = [(k, c) for (k, c) in en if not self.stopped[c]]
            if not todo:
                break
            self.do(*todo[0])
        blocked = [t - 1 for t, p in self.world.puppets.items() if not p.at_decision]
        if blocked:
            self.mon.append(f"consumers {blocked} never returned (deadlock)")
        for c in range(len(self.its)):
            if not blocked and not any(tuple(self.seen[c]) == self.src[p:] for p in self.starts[c]):
                self.mon.append(f"consumer {c} (started at {sorted(self.starts[c])}) saw {self.seen[c]} of source {list(self.src)}")
        if self.its and self.source.polls != len(self.src) + 1 and not blocked:
            self.mon.append(f"source advanced {self.source.polls} times, expected {len(self.src) + 1}")
        if self.world.loop.errors:
            self.mon.append(f"loop errors: {self.world.loop.errors[:2]}")

    def case(self):
        return [2, self.mode, self.n, len(self.src), *[back(x) for x in self.src], *self.ops]

    def describe(self):
        name = lambda k: "next" if k == 0 else "resume" if k == 1 else f"tee(it,{k - 1})"  # noqa: E731
        return {"function": "tee", "mode": ["sync", "async", "async-suspending"][self.mode], "source": list(self.src),
                "consumers": self.n, "ops": [(name(self.ops[i]), self.ops[i + 1]) for i in range(0, len(self.ops), 2)],
                "encoded": self.case()}


def tee_script(mode, src, n, flat_ops, quiesce=True, copies=False, max_consumers=4):
    with TeeRun(mode, src, n, copies=copies, max_consumers=max_consumers) as r:
        for i in range(0, len(flat_ops), 2):
            r.do(flat_ops[i], flat_ops[i + 1])
        r.enabled_at_end = r.enabled()
        if quiesce:
            r.quiesce()
        return r


def tee_exhaustive(mode, src, n, depth, copies=False, max_consumers=3):
    """all interleavings (sequences of enabled next / resume segments and, with copies=True, tee(it_c, 1) calls on any
    existing iterator in any state) up to `depth`, each then drained"""
    results = []

    def rec(prefix):
        r = tee_script(mode, src, n, prefix, copies=copies, max_consumers=max_consumers)
        if len(prefix) // 2 >= depth or not r.enabled_at_end:
            results.append(r)
            return
        used = set(prefix[1::2])
        for (k, c) in r.enabled_at_end:
            if c < n and c not in used and c != min(set(range(n)) - used, default=c):
                continue    # symmetry: a fresh original consumer is the smallest unused one
            rec(prefix + [k, c])

    rec([])
    return results


def tee_copy_scripts(tier: str):
    """directed: consumer 0 completes `a` calls (a = 0 … len+1: fresh, advanced, exhausted), then tee(it_0, k); optionally a
    copy of the first copy after it advanced `b` calls; everything is then drained.  Sequential schedules only - the
    interleavings are the business of tee_exhaustive(copies=True)."""
    runs = []
    L = 2 if tier == "quick" else 3
    for mode in (0, 1, 2):
        for src in lists(L, (1, 2)):
            for a in range(len(src) + 2):
                for k in (1, 2):
                    for b in (None, 0, 1, len(src) + 1):
                        with TeeRun(mode, src, 1, copies=True, max_consumers=8) as r:
                            def complete_calls(c, times):
                                for _ in range(times):
                                    if r.stopped[c]:
                                        break
                                    r.do(0, c)
                                    for _ in range(12):
                                        if r.world.puppets[c + 1].at_decision:
                                            break
                                        r.do(1, c)
                            complete_calls(0, a)
                            r.do(1 + k, 0)
                            if b is not None:
                                complete_calls(1, b)
                                r.do(2, 1)
                            r.quiesce()
                            runs.append(r)
    return runs


def tee_random(rng: random.Random, nsteps: int):
    mode = rng.choice([0, 0, 1, 2])
    src = tuple(rng.randint(0, 9) for _ in range(rng.randint(0, 6)))
    n = rng.choice([1, 2, 3, 3, 4, 5])
    with TeeRun(mode, src, n, copies=rng.random() < 0.5, max_consumers=n + 3) as r:
        for _ in range(nsteps):
            en = r.enabled()
            if not en:
                break
            ws = [0.25 if k >= 2 else 1.0 for (k, c) in en]
            k, c = rng.choices(en, ws)[0]
            if k >= 2:
                k = rng.choice([2, 2, 3])
            r.do(k, c)
        r.quiesce()
        return r


def run_tee(tier: str, rng: random.Random, light: bool = False):
    """light=True: the part run by bin/check C08 (copies, checkpoints); the full interleaving plan belongs to C19"""
    REAL[0] = True
    install_wrappers()
    try:
        runs = []
        if tier == "quick":
            plan = [(m, s, n, d, False) for m in (0, 1, 2) for s, n, d in
                    (((), 2, 8), ((1,), 2, 9), ((1, 2), 2, 9), ((), 3, 6), ((1,), 3, 7), ((1, 2), 3, 7), ((None, 1), 2, 8))]
            plan += [(m, s, n, d, True) for m in (0, 1, 2) for s, n, d in (((), 1, 6), ((1,), 1, 6), ((), 2, 4), ((1,), 2, 4))]
            nrand = 150
        else:
            plan = [(m, s, n, d, False) for m in (0, 1, 2) for s, n, d in
                    (((), 2, 10), ((1,), 2, 12), ((1, 2), 2, 12), ((), 3, 8), ((1,), 3, 10), ((1, 2), 3, 10),
                     ((1, 2, 0), 3, 9), ((1,), 1, 8))]
            plan += [(m, s, n, d, True) for m in (0, 1, 2) for s, n, d in
                     (((), 1, 8), ((1,), 1, 9), ((1, 2), 1, 8), ((), 2, 6), ((1,), 2, 7), ((1, 2), 2, 6))]
            nrand = 3000
        if light:
            plan = [p for p in plan if p[4]]
            nrand = nrand // 3
        for (m, s, n, d, cp) in plan:
            runs += tee_exhaustive(m, s, n, d, copies=cp)
        nex = len(runs)
        runs += tee_copy_scripts(tier)
        for _ in range(nrand):
            runs.append(tee_random(rng, rng.choice([4, 8, 14, 24])))
        return runs, nex, plan
    finally:
        remove_wrappers()
        REAL[0] = False


# ---- cancelled scope: the first __anext__ of an iterator that has not yielded must raise the cancellation ----
async def _cancelled_first_next(it):
    """-> 'cancelled' | 'stop' | 'value' | repr(exception)"""
    import anyio

    outcome = "no-exception"
    with anyio.CancelScope() as scope:
        scope.cancel()
        try:
            await it.__anext__()
            outcome = "value"
        except StopAsyncIteration:
            outcome = "stop"
        except anyio.get_cancelled_exc_class():
            outcome = "cancelled"
            raise
        except Exception as e:  # noqa: BLE001
            outcome = repr(e)
    return outcome


async def _cancelled_family(tier: str):
    import anyio.itertools as ait

    hits, n_cases = [], 0
    L = 2 if tier == "quick" else 3

    async def drain(it, calls):
        for _ in range(calls):
            try:
                await it.__anext__()
            except StopAsyncIteration:
                break

    for kind in (0, 1):
        for src in lists(L, (1, 2)):
            for a in range(len(src) + 2):          # consumer 0 completes a calls: fresh / advanced / exhausted
                for k in (1, 2):
                    for b in (None, 0, len(src) + 1):
                        t0 = ait.tee(mk_iter_obj((kind, src), n_cases), 1)[0]
                        await drain(t0, a)
                        copies = list(ait.tee(t0, k))
                        what = f"tee() copy (1 of {k}) of a tee iterator over {list(src)} that had completed {a} calls"
                        if b is not None:
                            await drain(copies[0], b)
                            copies = list(ait.tee(copies[0], 1))
                            what = f"copy of a copy (which had completed {b} calls) of a tee iterator over {list(src)} that had completed {a} calls"
                        for it in copies:
                            n_cases += 1
                            out = await _cancelled_first_next(it)
                            if out != "cancelled":
                                hits.append(({"function": "tee_cancelled", "kind": kind, "src": list(src), "a": a, "k": k, "b": b},
                                             f"{what}: first __anext__ in an already cancelled scope ended with '{out}' "
                                             "instead of raising the cancellation"))
            # the iterators of a plain tee() call
            for n in (1, 2):
                for it in ait.tee(mk_iter_obj((kind, src), n_cases), n):
                    n_cases += 1
                    out = await _cancelled_first_next(it)
                    if out != "cancelled":
                        hits.append(({"function": "tee_cancelled", "kind": kind, "src": list(src), "a": 0, "k": 0, "b": None, "n": n},
                                     f"tee iterator over {list(src)}: first __anext__ in an already cancelled scope ended with "
                                     f"'{out}' instead of raising the cancellation"))
    # a call cancelled through an AnyIO scope must not lose an element: consumer B takes j elements, makes one call in an
    # already cancelled scope, then goes on outside the scope - it must still see the whole source (A may or may not
    # have filled the shared buffer before)
    import anyio as _anyio

    async def collect(it):
        out = []
        async for x in it:
            out.append(x)
        return out

    for kind in (0, 1):
        for src in lists(L + 1, (1, 2)):
            for a_first in (False, True):
                for j in range(len(src) + 1):
                    ta, tb = ait.tee(mk_iter_obj((kind, src), n_cases), 2)
                    n_cases += 1
                    if a_first:
                        await drain(ta, len(src) + 1)
                    got = []
                    for _ in range(j):
                        got.append(await tb.__anext__())
                    out = await _cancelled_first_next(tb)
                    got += await collect(tb)
                    if tuple(got) != tuple(src):
                        hits.append(({"function": "tee_cancelled_call", "kind": kind, "src": list(src), "a_first": a_first, "j": j},
                                     f"tee consumer over {list(src)}: after {j} elements one __anext__ was made in an already "
                                     f"cancelled scope (it ended with '{out}'); going on afterwards the consumer saw {got} - "
                                     f"{'an element was lost' if len(got) < len(src) else 'wrong sequence'} "
                                     f"(other consumer had {'already' if a_first else 'not'} filled the buffer)"))
                    if not a_first and tuple(await collect(ta)) != tuple(src):
                        hits.append(({"function": "tee_cancelled_call", "kind": kind, "src": list(src), "a_first": a_first, "j": j},
                                     f"tee over {list(src)}: the other consumer did not see the whole source after a cancelled call"))
    # every other iterator function on empty / one-element inputs
    fns = {
        "accumulate": lambda s: ait.accumulate(s), "batched": lambda s: ait.batched(s, 2),
        "chain": lambda s: ait.chain(s), "combinations": lambda s: ait.combinations(s, 1),
        "combinations_with_replacement": lambda s: ait.combinations_with_replacement(s, 1),
        "compress": lambda s: ait.compress(s, [1]), "count": lambda s: ait.count(), "cycle": lambda s: ait.cycle(s),
        "dropwhile": lambda s: ait.dropwhile(amk(PRED[3]), s), "filterfalse": lambda s: ait.filterfalse(amk(PRED[3]), s),
        "groupby": lambda s: ait.groupby(s), "islice": lambda s: ait.islice(s, 1), "islice0": lambda s: ait.islice(s, 0),
        "pairwise": lambda s: ait.pairwise(s), "permutations": lambda s: ait.permutations(s),
        "product": lambda s: ait.product(s), "repeat": lambda s: ait.repeat(1, 2), "repeat0": lambda s: ait.repeat(1, 0),
        "starmap": lambda s: ait.starmap(amk(_sum), [s]), "takewhile": lambda s: ait.takewhile(amk(PRED[4]), s),
        "zip_longest": lambda s: ait.zip_longest(s), "zip_longest0": lambda s: ait.zip_longest(),
    }
    for name, mk in fns.items():
        for kind in (0, 1):
            for src in ((), (1,)):
                if kind == 1 and src:
                    continue    # asynchronous source with elements: outside the clause
                n_cases += 1
                out = await _cancelled_first_next(mk(mk_src((kind, src), n_cases)).__aiter__())
                if out != "cancelled":
                    hits.append(({"function": "cancelled_first_next", "name": name, "kind": kind, "src": list(src)},
                                 f"{name} over a {'synchronous' if kind == 0 else 'asynchronous'} source {list(src)}: first "
                                 f"__anext__ in an already cancelled scope ended with '{out}' instead of raising the cancellation"))
    # functools.reduce, black box (nothing wrapped): every error-free call lets the event loop run at least once,
    # whatever the reducer does; in an already cancelled scope it raises the cancellation before touching anything
    import anyio
    import anyio.functools as afn

    loop = asyncio.get_running_loop()
    for yielding in (False, True):
        for kind in (0, 1):
            for src in lists(3 if tier == "quick" else 4, (1, 2)):
                for init in (None, 5):
                    for cancelled in (False, True):
                        n_cases += 1
                        calls = [0]

                        async def red(a, b, yielding=yielding, calls=calls):
                            calls[0] += 1
                            if yielding:
                                await asyncio.sleep(0)
                            return a + b

                        it = CountingSyncSource(src) if kind == 0 else CountingAsyncSource(src, False)
                        args = (red, it) if init is None else (red, it, init)
                        ran = []
                        loop.call_soon(ran.append, 1)
                        case = {"function": "reduce_blackbox", "kind": kind, "src": list(src), "initial": init,
                                "reducer_yields": yielding, "cancelled_scope": cancelled}
                        outcome = "returned"
                        if cancelled:
                            with anyio.CancelScope() as scope:
                                scope.cancel()
                                try:
                                    await afn.reduce(*args)
                                except anyio.get_cancelled_exc_class():
                                    outcome = "cancelled"
                                    raise
                                except TypeError:
                                    outcome = "TypeError"
                            if outcome != "cancelled":
                                hits.append((case, f"reduce({list(src)}, initial={init}) in an already cancelled scope "
                                                   f"{outcome} instead of raising the cancellation"))
                            if it.polls or calls[0]:
                                hits.append((case, f"reduce({list(src)}, initial={init}) in an already cancelled scope advanced "
                                                   f"the iterable {it.polls} times and called the function {calls[0]} times"))
                        else:
                            try:
                                await afn.reduce(*args)
                            except TypeError:
                                outcome = "TypeError"
                            if outcome == "returned" and not ran:
                                hits.append((case, f"reduce({list(src)}, initial={init}) with a reducer that "
                                                   f"{'yields' if yielding else 'never yields'} returned without letting the "
                                                   "event loop run (not a checkpoint)"))
                        if not ran:
                            await asyncio.sleep(0)
    hits.sort(key=lambda h: (h[0].get("b") is not None, len(h[0].get("src", ())), h[0].get("a", 0), h[0].get("k", 0)))
    return hits, n_cases


def run_cancelled_family(tier: str):
    return asyncio.run(_cancelled_family(tier))


# ----------------------------------------------------------------------------------------------
# the check
# ----------------------------------------------------------------------------------------------
def _tuplify(x):
    if isinstance(x, list):
        return tuple(_tuplify(y) for y in x)
    return x


def corpus_cases():
    cases, tees = [], []
    d = core.VERIF / "corpus" / "C19"
    if d.exists():
        for f in sorted(d.glob("*.json")):
            c = json.loads(f.read_text())
            if "tee" in c:
                tees.append(c["tee"])
            else:
                cases.append(Case(c["fc"], _tuplify(c["args"]), c.get("variant", 0), origin="corpus"))
    return cases, tees


def interesting(c: Case) -> set:
    f = set()
    if c.impl_err is not None:
        f.add("error_path")
    if c.impl_err is None and not c.impl_vals:
        f.add("empty_traversal")
    srcs = c.sources()
    if srcs and any(k == 1 for k, _ in srcs):
        f.add("async_source")
    if srcs and any(k == 0 for k, _ in srcs):
        f.add("sync_source")
    if c.fc == 12 and len(c.a[0]) == 3 and c.a[0][2] not in (None, 1) and c.impl_vals:
        f.add("islice_step_gt1")
    if c.fc == 2 and c.impl_vals and len(c.impl_vals[-1]) != c.a[0]:
        f.add("batched_short_tail")
    if c.fc == 11 and len(c.impl_vals) > 1:
        f.add("groupby_key_change")
    if c.fc == 19 and len({len(s[1]) for s in c.a[1]}) > 1:
        f.add("zip_uneven")
    if c.fc == 8 and c.a[0] > len(c.a[1][1]) > 0:
        f.add("cycle_wraps")
    if c.fc in ALIAS:
        store_t, pos = (c.a[1], c.a[2]) if c.fc != 27 else (c.a[2], c.a[3])
        for i in set(pos):
            if pos.count(i) > 1:
                f.add("shared_async_iterator" if store_t[i][0] == 1 else "shared_sync_iterator")
                if c.fc == 23 and store_t[i][0] == 1:
                    f.add("zip_longest_grouper_async")
    if c.fc == 25:
        f.add("shared_async_iterator" if c.a[0][0] == 1 else "shared_sync_iterator")
    if c.fc == 29 and any(x % 100 == 99 and c.a[1][1][i + 1:i + 2] == (x,) for i, x in enumerate(c.a[1][1])):
        f.add("groupby_same_nan_object_run")
    if c.fc == 30 and len(c.a[1]) >= 2 and None not in c.a[1][:2] and c.a[1][0] >= c.a[1][1] >= 0 and c.a[1][0] > 0:
        f.add("islice_start_ge_stop_shared")
    if c.fc == 21 and c.a[2][0] == 0 and c.var % 3 == 2:
        f.add("reduce_getitem_only_sequence")
    return f


def check(tier: str) -> int:
    rep = core.Report("C19", tier)
    rep.assumptions = core.TRUSTED_BASE_COMMON + [
        "models pure/Itertools.v hand-written from src/anyio/itertools.py (all 629 lines) and functools.py:344-400; "
        "callbacks are non-checkpointing `async def` functions from a closed family mirrored in harness/c19.py "
        "(theorems quantify over arbitrary Gallina callbacks); elements are integers",
        "the four delegating functions (combinations, combinations_with_replacement, permutations, product) are "
        "modelled as pool collection + a Coq oracle; the oracle is checked against the real itertools by tie X2, not proved "
        "against an independent definition",
        "islice: sys.maxsize bound of normalize_index not modelled (arguments stay far below it)",
        "reduce: each awaited callback invocation is a Call event; by AnyIO's convention the callback is itself obliged "
        "to checkpoint, so reduce delegates its checkpoint to it (documented scope, C08)",
        "itertools.batched(strict=) exists from Python 3.13: on older interpreters tie X2 applies the documented "
        "behaviour on top of the real non-strict batched" + ("" if not BATCHED_STRICT_NATIVE else " (native here)"),
        "aliasing (one iterator object at several argument positions): zip_longest / chain / product / starmap / compress "
        "are modelled over a store of underlying iterators + a position->index map and proved against the shared-iterator "
        "semantics (ItertoolsAlias.v), which tie X2 checks against the real itertools fed the same aliasing; tee iterators "
        "passed onward into these functions are covered by the stdlib differential only (no composed trace model)",
        "tee LTS: consumers run in separate tasks, no cancellation of consumers; lock modelled as owner + FIFO queue "
        "(its own guarantees are C09)",
    ]
    import time as _time
    phases: dict = {}
    _t = [_time.time()]

    def mark(name):
        phases[name] = round(_time.time() - _t[0], 1)
        _t[0] = _time.time()

    ok8, log8 = core.coq_make(["props/C19.vo", "props/C08_itertools.vo"])     # one build for both prop files
    proofs_ok = core.proof_stage(rep, "props/C19.v")
    gate8 = core.coq_gate(["props/C08_itertools.v"])
    pa8 = []
    if ok8:
        # same as core.print_assumptions, without queueing for the shared build lock (only our own file is rewritten)
        rc, out = core.sh(["timeout", "300", "coqc", "-Q", ".", "AV", "props/C08_itertools.v"], cwd=core.COQ)
        pa8 = (["Closed under the global context"] * out.count("Closed under the global context")
               + ["axiom " + ln.strip() for ln in out.split("Axioms:")[1:]]) if rc == 0 else ["coqc failed"]
    rep.coverage["c08_itertools"] = {"built": ok8, "gate": gate8, "print_assumptions": pa8}
    if not ok8 or gate8:
        proofs_ok = False
        rep.coverage.setdefault("proof_failure", {"where": "props/C08_itertools.v", "log_tail": log8[-1500:]})
    mark("coq_build_and_gate (includes waiting for the shared build lock)")
    exe = core.build_driver("itertools", "Itertools")
    mark("extraction_and_driver_build")

    rng = random.Random(core.seed())
    corpus, corpus_tees = corpus_cases()
    ex = exhaustive_cases(tier) + alias_cases(tier) + none_cases(tier)
    objs = object_cases(tier)
    rnd = random_cases(rng, 3000 if tier == "quick" else 80000) + random_alias_cases(rng, 1500 if tier == "quick" else 20000)
    rnd_real = random_cases(rng, 1500 if tier == "quick" else 10000)
    for c in rnd_real:
        c.origin = "random-real-checkpoints"
    cases = corpus + ex + rnd
    run_cases(cases, real=False)
    run_cases(objs, real=False, objmode=True)     # sentinel-like values: stdlib differential only (not in the model's domain)
    run_cases(rnd_real, real=True)          # the wrappers call through to the real checkpoint functions
    cases += rnd_real
    mark("run_anyio_and_stdlib")

    # ---- X1 / X2 through the extracted model ----
    x1_bad, x2_bad = [], []
    CH = 100000
    for i in range(0, len(cases), CH):
        chunk = cases[i:i + CH]
        m_out = core.run_driver(exe, [[0] + c.enc for c in chunk])
        s_out = core.run_driver(exe, [[1] + c.enc for c in chunk if c.fc not in (22, 28)])
        for c, o in zip(chunk, m_out):
            if c.impl != o and not getattr(c, "collision", False):
                x1_bad.append((c, o))
        for c, o in zip([c for c in chunk if c.fc not in (22, 28)], s_out):
            if flat_outcome(*c.std) != o and not getattr(c, "collision", False):
                x2_bad.append((c, o))

    # ---- monitors ----
    hits = []
    for c in cases + objs:
        for h in monitor(c):
            hits.append((c, h))

    onward_cases, onward_hits = run_tee_onward(tier)
    mark("model_spec_drivers_and_monitors")
    # ---- tee ----
    tee_runs, tee_nex, tee_plan = run_tee(tier, rng)
    if corpus_tees:
        REAL[0] = True
        install_wrappers()
        try:
            tee_runs = [tee_script(t["mode"], tuple(t["src"]), t["n"], t["ops"]) for t in corpus_tees] + tee_runs
        finally:
            remove_wrappers()
            REAL[0] = False
    tee_model = core.run_driver(exe, [r.case() for r in tee_runs])
    tee_bad = [(r, o) for r, o in zip(tee_runs, tee_model) if r.outs != o]
    tee_rejected = 0
    for r, o in zip(tee_runs, tee_model):
        i = 0
        while i + 5 < len(o):
            if o[i] == 9:
                tee_rejected += 1
            i += 6 + o[i + 5]
    tee_hits = [(r, msg) for r in tee_runs for msg in r.mon]
    canc_hits, canc_n = run_cancelled_family(tier)
    probe_hits, probe_n = loop_probe_family(tier)

    # ---- kernel-checked sample ----
    sample_n = 60 if tier == "quick" else 800
    idx = [i for i in range(len(cases)) if not getattr(cases[i], "collision", False)]
    rng.shuffle(idx)
    idx = idx[:sample_n]
    s_in = [[0] + cases[i].enc for i in idx] + [[1] + cases[i].enc for i in idx if cases[i].fc not in (22, 28)]
    s_ex = [cases[i].impl for i in idx] + [flat_outcome(*cases[i].std) for i in idx if cases[i].fc not in (22, 28)]
    tidx = list(range(len(tee_runs)))
    rng.shuffle(tidx)
    tidx = tidx[:sample_n // 3]
    s_in += [tee_runs[i].case() for i in tidx]
    s_ex += [tee_runs[i].outs for i in tidx]
    mark("tee_interleavings")
    vm_ok, vm_log = core.coq_eval_cases("c19", "Itertools", s_in, s_ex)
    mark("vm_compute_sample")

    # ---- decide ----
    def smallest_per_function(pairs, key=lambda p: len(p[0].enc)):
        best = {}
        for p in pairs:
            k = p[0].fc
            if k not in best or key(p) < key(best[k]):
                best[k] = p
        return list(best.values())

    for c, h in smallest_per_function(hits)[:8]:
        rep.violation(h, {"kind": "monitor", "case": c.describe(), "anyio": {"values": c.impl_vals, "error": c.impl_err,
                                                                             "trace": c.impl},
                          "stdlib": c.std, "origin": c.origin})
    if onward_hits:
        c0, msg = min(onward_hits, key=lambda p: (len(p[0]["src"]), len(p[0]["pos"])))
        rep.violation(msg, {"kind": "monitor", "case": {"function": "tee_onward", **{k: (list(v) if isinstance(v, tuple) else v)
                                                                                  for k, v in c0.items()}}})
    if tee_hits:
        r, msg = min(tee_hits, key=lambda p: len(p[0].ops))
        rep.violation(msg, {"kind": "monitor", "case": r.describe(), "observations": r.outs})
    if canc_hits:
        c0, msg = canc_hits[0]
        rep.violation(msg, {"kind": "monitor", "case": c0})
    if probe_hits:
        c0, msg = min(probe_hits, key=lambda p: len(p[0].enc))
        rep.violation(msg, {"kind": "monitor", "case": c0.describe(), "anyio_trace": getattr(c0, "impl", None)})
    tie_broken = []
    if not proofs_ok:
        tie_broken.append("proof obligation: " + str(rep.coverage.get("proof_failure", {}).get("where")))
    if x1_bad:
        tie_broken.append("correspondence X1 Itertools.run_model_case vs anyio.itertools/functools.reduce: "
                          + ", ".join(sorted({FNAME[c.fc] for c, _ in x1_bad})))
    if x2_bad:
        tie_broken.append("correspondence X2 Itertools.run_spec_case vs Python itertools/functools: "
                          + ", ".join(sorted({FNAME[c.fc] for c, _ in x2_bad})))
    if tee_bad:
        tie_broken.append("correspondence X1 Itertools.run_tee_case vs anyio.itertools.tee")
    if tee_rejected:
        tie_broken.append(f"tee model rejected {tee_rejected} segments the implementation performed")
    if not vm_ok and not (x1_bad or x2_bad or tee_bad):
        tie_broken.append("vm_compute sample disagrees with the extracted model")
    if tie_broken and not hits and not tee_hits and not onward_hits and not canc_hits and not probe_hits:
        d = None
        if x1_bad:
            c, o = min(x1_bad, key=lambda p: len(p[0].enc))
            d = {"tie": "X1", "case": c.describe(), "impl_trace": c.impl, "model_trace": o}
        elif x2_bad:
            c, o = min(x2_bad, key=lambda p: len(p[0].enc))
            d = {"tie": "X2", "case": c.describe(), "stdlib": flat_outcome(*c.std), "spec": o}
        elif tee_bad:
            r, o = min(tee_bad, key=lambda p: len(p[0].ops))
            d = {"tie": "X1-tee", "case": r.describe(), "impl": r.outs, "model": o}
        rep.violation("; ".join(tie_broken), {"kind": "tie", "broken": tie_broken, "case": d}, no_input=True)

    # ---- evidence ----
    flags: dict = {}
    nontrivial = set()
    per_fun: dict = {}
    for c in cases:
        fl = interesting(c)
        for f in fl:
            flags[f] = flags.get(f, 0) + 1
        if fl - {"sync_source", "async_source"} or len(c.impl_vals) > 1:
            nontrivial.add(tuple(c.enc))
        per_fun[FNAME[c.fc]] = per_fun.get(FNAME[c.fc], 0) + 1
    tflags: dict = {}
    for r in tee_runs:
        for f in r.flags:
            tflags[f] = tflags.get(f, 0) + 1
    b = dict(BOUNDS[tier])
    rep.coverage.update({
        "trusted_base": rep.assumptions,
        "evaluations": 2 * len(cases) + len(tee_runs),
        "programs": len(cases) + len(tee_runs),
        "traces_validated_against_impl": len(cases) - len(x1_bad) + len(tee_runs) - len(tee_bad),
        "spec_outcomes_validated_against_stdlib": len([c for c in cases if c.fc not in (22, 28)]) - len(x2_bad),
        "disagreements_checked": len(x1_bad) + len(x2_bad) + len(tee_bad),
        "distinct_nontrivial": len(nontrivial) + len({tuple(r.case()) for r in tee_runs if r.flags}),
        "rule": "per function: every argument combination inside the recorded bounds (alphabet {0,1,2}, every list up to "
                "the length bound, every source given once as a synchronous and once as an asynchronous iterable, "
                "parameters -2..7 and None) + random longer inputs (values -5..9, length <= 30); each case runs the "
                "real AnyIO function (event trace via wrapped checkpoint names), the real stdlib function, the "
                "extracted model and the extracted spec; tee: every sequence of enabled consumer segments "
                "(next / resume) up to the recorded depth on the schedule-controlled loop, then drained; non-trivial = "
                "error path, empty traversal, >1 result, or (tee) lock contention / hand-off",
        "exhaustive": True,
        "exhaustive_bounds": {k: (list(v) if isinstance(v, tuple) else v) for k, v in b.items()},
        "exhaustive_small_scope_cases": len(ex),
        "tee_exhaustive_plan": [{"mode": m, "source": list(s), "consumers": n, "depth": d, "copy_ops": cp}
                                for (m, s, n, d, cp) in tee_plan],
        "tee_cancelled_scope_cases": canc_n,
        "tee_exhaustive_interleavings": tee_nex,
        "tee_runs": len(tee_runs),
        "random_cases": len(rnd) + len(rnd_real),
        "corpus_cases": len(corpus) + len(corpus_tees),
        "per_function": per_fun,
        "reached": {**flags, **{"tee_" + k: v for k, v in tflags.items()}},
        "vm_compute_sample": len(s_in),
        "vm_compute_ok": vm_ok,
        "model_rejected_ops": tee_rejected,
        "monitor_hits": len(hits) + len(tee_hits) + len(onward_hits) + len(canc_hits) + len(probe_hits),
        "loop_yield_probe": {"configurations": list(LOOP_CONFIGS), "traversals_inside_the_clause": probe_n},
        "tee_onward_cases": len(onward_cases),
        "object_mode_cases": len(objs),
        "object_mode_alphabet": [repr(o) for o in OBJ_ALPHABET],
        "guards": {"yield_cap_default": YIELD_CAP_DEFAULT, "alias_family_yield_cap": "elements + positions + 3",
                   "event_log_cap": "2e6 (alias family: 40 * yield cap + 200)", "watchdog_seconds_per_case": WATCHDOG_S},
        "phase_seconds": phases,
        "samples": [cases[i].describe() | {"impl_trace": cases[i].impl[:40]} for i in idx[:2]]
                   + [tee_runs[i].describe() for i in tidx[:1]],
    })
    for need in ("error_path", "empty_traversal", "async_source", "sync_source", "islice_step_gt1",
                 "batched_short_tail", "groupby_key_change", "zip_uneven", "cycle_wraps", "shared_async_iterator",
                 "shared_sync_iterator", "zip_longest_grouper_async", "groupby_same_nan_object_run",
                 "islice_start_ge_stop_shared", "reduce_getitem_only_sequence"):
        if not flags.get(need):
            rep.notes.append(f"generator self-check: predicate {need} never reached")
    for need in ("lock_contended", "handoff", "copy_fresh", "copy_advanced", "copy_exhausted", "copy_of_copy", "copy_midcall"):
        if not tflags.get(need):
            rep.notes.append(f"generator self-check: tee predicate {need} never reached")
    return rep.finish()


def replay(path: str) -> int:
    """Re-run the case stored in a replay file (evidence/replays/C19_*.json) on the implementation and print
    what the monitors say:  PYTHONPATH=$VERIF_REPO/src:harness python -c "import c19; c19.replay('<file>')" """
    d = json.loads(open(path).read())
    case = d.get("case") or {}
    if "tie" in case:
        case = case["case"]
    if case.get("function") == "tee":
        enc = case["encoded"]
        mode, n, ln = enc[1], enc[2], enc[3]
        src, ops = tuple(enc[4:4 + ln]), enc[4 + ln:]
        REAL[0] = True
        install_wrappers()
        try:
            with TeeRun(mode, src, n, copies=True, max_consumers=64) as r:
                for i in range(0, len(ops), 2):
                    if (min(ops[i], 2), ops[i + 1]) not in r.enabled():
                        print(f"step {i // 2} {(ops[i], ops[i + 1])} is not enabled on this tree: it behaves differently "
                              "from the recorded run; draining from here")
                        break
                    r.do(ops[i], ops[i + 1])
                r.quiesce()
        finally:
            remove_wrappers()
            REAL[0] = False
        print(json.dumps(r.describe()), "\nobservations:", r.outs, "\nmonitor:", r.mon or "silent")
        return 1 if r.mon else 0
    if case.get("function") in ("tee_cancelled", "cancelled_first_next", "reduce_blackbox", "tee_cancelled_call"):
        hits, _ = run_cancelled_family("quick")
        same = [m for c0, m in hits if c0 == case] or [m for c0, m in hits][:3]
        print(json.dumps(case), "\nmonitor:", same or "silent")
        return 1 if same else 0
    if case.get("function") == "tee_onward":
        c0 = {"F": case["F"], "kind": case["kind"], "src": tuple(case["src"]), "n": case["n"], "pos": tuple(case["pos"])}
        install_wrappers()
        try:
            hits = asyncio.run(_run_tee_onward([c0]))
        finally:
            remove_wrappers()
            YIELD_CAP[0] = YIELD_CAP_DEFAULT
            LOG_CAP[0] = 2_000_000
        print(json.dumps(case), "\nmonitor:", [h for _, h in hits] or "silent")
        return 1 if hits else 0
    c = Case(FUNS[case["function"]], _tuplify(case["args"]), case.get("variant", 0), origin="replay")
    c.objmode = bool(case.get("object_mode"))
    run_cases([c], objmode=c.objmode)
    hits = monitor(c)
    print(json.dumps(c.describe()), "\nanyio trace:", c.impl, "\nstdlib:", c.std, "\nmonitor:", hits or "silent")
    return 1 if hits else 0


# ----------------------------------------------------------------------------------------------
# the itertools clause of C08, run by bin/check C08 (harness/c08.py calls this)
# ----------------------------------------------------------------------------------------------
def c08_itertools_part(tier: str) -> dict:
    """Checkpoint discipline of the iterators on the implementation: tee with copy ops (tie X1 against the tee LTS,
    per-consumer checkpoint monitor), first __anext__ in an already cancelled scope, and every function on tiny
    inputs (traversals over synchronous sources / yielding nothing log a checkpoint).
    -> {"hits": [(message, replay dict)], "tie_broken": [str], "coverage": {...}}"""
    exe = core.build_driver("itertools", "Itertools")
    rng = random.Random(core.seed() * 7 + 19)
    runs, nex, plan = run_tee(tier, rng, light=True)
    _, corpus_tees = corpus_cases()
    if corpus_tees:
        REAL[0] = True
        install_wrappers()
        try:
            runs = [tee_script(t["mode"], tuple(t["src"]), t["n"], t["ops"]) for t in corpus_tees] + runs
        finally:
            remove_wrappers()
            REAL[0] = False
    model = core.run_driver(exe, [r.case() for r in runs])
    bad = [(r, o) for r, o in zip(runs, model) if r.outs != o]
    hits = []
    tee_hits = [(r, msg) for r in runs for msg in r.mon]
    if tee_hits:
        r, msg = min(tee_hits, key=lambda p: len(p[0].ops))
        hits.append((msg, {"kind": "monitor", "case": r.describe(), "observations": r.outs,
                           "replay_with": "bin/replay C19 <this file>"}))
    canc_hits, canc_n = run_cancelled_family(tier)
    if canc_hits:
        c0, msg = canc_hits[0]
        hits.append((msg, {"kind": "monitor", "case": c0, "replay_with": "bin/replay C19 <this file>"}))
    probe_hits, probe_n = loop_probe_family(tier)
    if probe_hits:
        c0, msg = min(probe_hits, key=lambda p: len(p[0].enc))
        hits.append((msg, {"kind": "monitor", "case": c0.describe(), "anyio_trace": getattr(c0, "impl", None),
                           "replay_with": "bin/replay C19 <this file>"}))
    small = exhaustive_cases("c08") + alias_cases("c08")
    run_cases(small)
    m_out = core.run_driver(exe, [[0] + c.enc for c in small])
    x1_bad = [(c, o) for c, o in zip(small, m_out) if c.impl != o and not getattr(c, "collision", False)]
    ck_hits = [(c, h) for c in small for h in monitor(c) if "checkpoint" in h]
    if ck_hits:
        c, h = min(ck_hits, key=lambda p: len(p[0].enc))
        hits.append((h, {"kind": "monitor", "case": c.describe(), "anyio_trace": c.impl, "replay_with": "bin/replay C19 <this file>"}))
    tie = []
    if bad:
        r, o = min(bad, key=lambda p: len(p[0].ops))
        tie.append("correspondence X1 Itertools.run_tee_case (tee LTS with copy ops) vs anyio.itertools.tee: "
                   + json.dumps(r.describe()["ops"]))
    if x1_bad:
        tie.append("correspondence X1 Itertools.run_model_case vs anyio.itertools (event traces): "
                   + ", ".join(sorted({FNAME[c.fc] for c, _ in x1_bad})))
    flags: dict = {}
    for r in runs:
        for f in r.flags:
            flags[f] = flags.get(f, 0) + 1
    return {"hits": hits, "tie_broken": tie,
            "coverage": {"tee_runs_with_copy_ops": len(runs), "tee_exhaustive_interleavings": nex,
                         "tee_plan": [{"mode": m, "source": list(s_), "consumers": n, "depth": d} for (m, s_, n, d, _) in plan],
                         "tee_reached": flags, "cancelled_scope_first_next_cases": canc_n,
                         "loop_yield_probe": {"configurations": list(LOOP_CONFIGS), "traversals_inside_the_clause": probe_n},
                         "small_input_traversals": len(small), "tee_model_disagreements": len(bad),
                         "trace_disagreements": len(x1_bad)}}
