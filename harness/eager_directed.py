"""Directed scenarios for nested eager execution (asyncio.eager_task_factory): a task that is in the middle of a step
without being current_task() - it is blocked in create_task()/start_soon() while the new task runs its first
segment synchronously.  The S machine has no such state (its `running` task is the only one executing), so these
histories are outside the model; they are judged by the property text directly (C04: a task receives an AnyIO
cancellation only while its current scope is effectively cancelled; C05: once the scope is left, later awaits run
undisturbed and cancelling() is back at its value on entry).  Finding F21 (fixed) lives here."""
from __future__ import annotations

import asyncio
import sys

from core import REPO

SCENARIOS = ["native_child_cancels_scope_host_leaves", "native_child_cancels_scope_host_enters_shield",
             "group_child_cancels_outer_scope_host_leaves", "native_child_cancels_scope_host_stays"]


async def _scenario(name: str) -> list[str]:
    import anyio
    from anyio import CancelScope, create_task_group, get_cancelled_exc_class
    bad: list[str] = []
    host = asyncio.current_task()
    base = host.cancelling()

    async def canceller(scope):
        scope.cancel()            # runs synchronously inside the host's create_task()/start_soon() call

    if name == "native_child_cancels_scope_host_leaves":
        with CancelScope() as s:
            t = asyncio.get_running_loop().create_task(canceller(s))
        try:
            await anyio.sleep(0)
            await anyio.sleep(0)
        except get_cancelled_exc_class() as e:
            bad.append(f"the cancellation of the scope that was already left was raised at a later await: {e!r}")
        await t
    elif name == "native_child_cancels_scope_host_enters_shield":
        with CancelScope() as s:
            t = asyncio.get_running_loop().create_task(canceller(s))
            try:
                with CancelScope(shield=True):
                    await anyio.sleep(0)
                    await anyio.sleep(0)
            except get_cancelled_exc_class() as e:
                bad.append(f"code inside a shielded scope was interrupted by the outer scope's cancellation: {e!r}")
        await t
    elif name == "group_child_cancels_outer_scope_host_leaves":
        with CancelScope() as s:
            async with create_task_group() as tg:
                tg.start_soon(canceller, s)
                # the group exit is a checkpoint inside the cancelled scope: a cancellation here is legitimate
        if not s.cancel_called:
            bad.append("scenario did not cancel the scope")
        try:
            await anyio.sleep(0)
            await anyio.sleep(0)
        except get_cancelled_exc_class() as e:
            bad.append(f"the cancellation of the scope that was already left was raised at a later await: {e!r}")
    elif name == "native_child_cancels_scope_host_stays":
        hit = False
        with CancelScope() as s:
            t = asyncio.get_running_loop().create_task(canceller(s))
            try:
                for _ in range(4):
                    await anyio.sleep(0)
            except get_cancelled_exc_class():
                hit = True
                raise
        if not (hit and s.cancelled_caught):
            bad.append("a host that stays inside the cancelled scope was not cancelled within 4 cycles (level-triggered retry)")
        await t
    if host.cancelling() != base:
        bad.append(f"Task.cancelling() is {host.cancelling()} after the scenario, it was {base} before")
    return bad


def run_all() -> list[tuple[str, str]]:
    """-> [(scenario, message)] for every violated expectation; [] when eager factories are unavailable."""
    if not hasattr(asyncio, "eager_task_factory"):
        return []
    src = str(REPO / "src")
    if src not in sys.path:
        sys.path.insert(0, src)
    out: list[tuple[str, str]] = []
    for name in SCENARIOS:
        async def main(n=name):
            asyncio.get_running_loop().set_task_factory(asyncio.eager_task_factory)
            inner = asyncio.get_running_loop().create_task(asyncio.wait_for(_scenario(n), 10))
            return await inner
        try:
            msgs = asyncio.run(main())
        except Exception as e:  # noqa: BLE001
            msgs = [f"scenario ended with {e!r}"]
        out += [(name, m) for m in msgs]
    return out


if __name__ == "__main__":
    r = run_all()
    print(r or "ok")
    sys.exit(1 if r else 0)
