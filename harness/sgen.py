"""Random-walk generator and comparison tools for the S machine (scopes / task groups / start / handles)."""

from __future__ import annotations

import math
import asyncio
import random

import smachine as S


class Profile:
    """Weights of op kinds; different profiles emphasise different properties."""

    def __init__(self, **kw):
        self.w = dict(newscope=3, enter=7, failat=0.8, exit=4, exit_misuse=0.15, cancel=2, setshield=0.8,
                      setdeadline=0.6, gnew=1.5, genter=7, gexit=4, spawn=3, start=1.5, spawn_misuse=0.15,
                      started=5, started_misuse=0.1, hcancel=0.8, hwait=0.8, yield_=2, ckif=1, shieldck=0.8,
                      sleep=2, sleep_forever=0.4, hold=0.8, drop=1.5, wrap=0.25, finish=2.5, finish_root=0.05,
                      uncancel=0.15, effdl=0.6, run=5, tick=2, extcancel=0.4, nativecancel=0.25, newroot=0.4,
                      deadline_prob=0.3, shield_prob=0.2, max_depth=4, max_groups=4, max_tasks=7)
        self.w.update(kw)


def scope_chain(w: S.SWorld, p: S.SPuppet):
    task = p.task
    ts = w.ab._task_states.get(task) if task is not None else None
    out = []
    sc = ts.cancel_scope if ts is not None else None
    while sc is not None and sc._host_task is task and len(out) < 50:
        out.append(sc)
        sc = sc._parent_scope
    return out  # innermost first, only scopes hosted by this task


def propose(w: S.SWorld, rng: random.Random, prof: Profile):
    """List of (weight, (c, a, b, d)) candidates given the implementation's current state."""
    W = prof.w
    cands = []
    now = int(w.loop.time())
    nscopes = len(w.scopes)
    group_scope_ids = {id(tg.cancel_scope): gi + 1 for gi, tg in enumerate(w.groups)}
    handle_scope_ids = {id(h._cancel_scope) for h in w.handles}
    # groups whose host has been woken out of its __aexit__ wait but has not run yet: a one-step window
    ready_codes = set(w.classify(h) for h in w.loop.ready_handles()) if hasattr(w.loop, "ready_handles") else set()
    exiting_groups = set()
    for tt, pp in w.puppets.items():
        if pp.pending_op == S.GEXIT and ((2000 + tt) in ready_codes or (1000 + tt) in ready_codes):
            for gi, tg in enumerate(w.groups):
                if tg.cancel_scope._host_task is (pp.task or getattr(pp, "pre_task", None)):
                    exiting_groups.add(gi + 1)
    for t in w.idle_puppets():
        p = w.puppets[t]
        chain = scope_chain(w, p)
        own = [sc for sc in chain if id(sc) not in handle_scope_ids]
        depth = len(own)
        top = chain[0] if chain else None

        def dl():
            return now + rng.choice([0, 1, 2, 3, 5, 8]) if rng.random() < W["deadline_prob"] else -1

        if depth < W["max_depth"] and nscopes < 40:
            cands.append((W["newscope"], (S.NEWSCOPE, t, dl(), int(rng.random() < W["shield_prob"]))))
            cands.append((W["failat"], (S.FAILAT, t, now + rng.choice([0, 1, 2, 4]), int(rng.random() < 0.15))))
        free = sorted(w.fresh)
        for i in free[-3:]:
            cands.append((W["enter"], (S.ENTER, t, i, 0)))
        if top is not None and id(top) not in group_scope_ids and id(top) not in handle_scope_ids:
            i = w.sid(top)
            cands.append((W["exit"], (S.EXIT, t, i, int(i in p.failat_cms))))
        pub = w.public_scopes
        if pub:
            # misuse: __exit__ on an arbitrary public scope (wrong task, not the current scope, already left ...).  Not
            # generated: leaving a scope by hand while OTHER tasks or scopes are still inside it - the implementation
            # then keeps them in an unlinked scope whose walks stop there (since F42), a state outside the model's
            # domain (reach_ok: scopes are left by their host when nothing else is inside)
            def _leaves_others_inside(i_):
                sc_ = w.scopes[i_ - 1]
                me_ = p.task
                return sc_._host_task is me_ and (any(x is not me_ for x in sc_._tasks) or bool(sc_._child_scopes))
            pub_m = [i_ for i_ in pub if not _leaves_others_inside(i_)]
            if pub_m:
                cands.append((W["exit_misuse"], (S.EXIT, t, rng.choice(pub_m), 0)))
            act = [i for i in pub if w.scopes[i - 1]._active]
            pool = act if act and rng.random() < 0.8 else pub
            cands.append((W["cancel"], (S.CANCEL, t, rng.choice(pool), 0)))
        for sc in [x for x in own if w.sid(x) in pub][:2]:
            cands.append((W["setshield"] / 2, (S.SETSHIELD, t, w.sid(sc), int(not sc._shield))))
            cands.append((W["setdeadline"] / 2, (S.SETDEADLINE, t, w.sid(sc), rng.choice([-1, now, now + 1, now + 3, now + 6]))))
        inactive_pub = [i for i in pub if not w.scopes[i - 1]._active]
        if inactive_pub:
            cands.append((W["setdeadline"] * 0.3, (S.SETDEADLINE, t, rng.choice(inactive_pub), rng.choice([-1, now + 1, now + 3, now + 6]))))
        if len(w.groups) < W["max_groups"] and depth < W["max_depth"]:
            cands.append((W["gnew"], (S.GNEW, t, 0, 0)))
        for gi, tg in enumerate(w.groups):
            g = gi + 1
            if not tg._entered:
                cands.append((W["genter"], (S.GENTER, t, g, 0)))
            elif tg.cancel_scope._active:
                if len(w.puppets) < W["max_tasks"] + (2 if g in exiting_groups else 0):
                    boost = 8 if g in exiting_groups else 1
                    cands.append((W["spawn"] * boost, (S.SPAWN, t, g, 0)))
                    cands.append((W["start"] * boost, (S.START, t, g, 0)))
                if top is tg.cancel_scope:
                    cands.append((W["gexit"], (S.GEXIT, t, g, 0)))
            else:
                cands.append((W["spawn_misuse"], (S.SPAWN, t, g, 0)))
        if p.task_status is not None:
            fut = p.task_status._future
            cands.append((W["started"] if not fut.done() else W["started_misuse"], (S.STARTED, t, rng.randrange(1, 9), 0)))
        if w.public_handles:
            cands.append((W["hcancel"], (S.HCANCEL, t, rng.choice(w.public_handles), 0)))
            cands.append((W["hwait"], (S.HWAIT, t, rng.choice(w.public_handles), 0)))
        cands.append((W["yield_"], (S.YIELD, t, 0, 0)))
        cands.append((W["ckif"], (S.CKIF, t, 0, 0)))
        cands.append((W["shieldck"], (S.SHIELDCK, t, 0, 0)))
        cands.append((W["sleep"], (S.SLEEP, t, rng.choice([1, 1, 2, 3, 5]), 0)))
        cands.append((W["sleep_forever"], (S.SLEEP, t, -1, 0)))
        if p.held is None:
            cands.append((W["hold"], (S.HOLD, t, rng.randrange(1, 9), 0)))
        else:
            cands.append((W["drop"], (S.DROP, t, 0, 0)))
            if isinstance(p.held, asyncio.CancelledError):
                # cleanup code that fails while the task is unwinding from a cancellation: the new error REPLACES the
                # cancellation (a body that raises its own error after a child failed and the group cancelled it)
                cands.append((W["hold"] * 0.6, (S.HOLD, t, rng.randrange(1, 9), 0)))
        cands.append((W["wrap"], (S.WRAP, t, rng.randrange(1, 9), 0)))
        if p.spawned:
            cands.append((W["finish"] if depth == 0 else W["finish"] * 0.05, (S.FINISH, t, rng.randrange(0, 9), 0)))
        else:
            cands.append((W["finish_root"] if depth == 0 else 0.0, (S.FINISH, t, 0, 0)))
        cands.append((W["uncancel"], (S.UNCANCEL, t, 0, 0)))
        cands.append((W["effdl"], (S.EFFDL, t, 0, 0)))
    for (c, ident) in w.enabled_env():
        cands.append((W["run"], (c, ident, 0, 0)))
    nt = w.loop.next_timer() if hasattr(w.loop, "next_timer") else None
    if nt is not None and nt != math.inf:
        cands.append((W["tick"], (S.TICK, max(int(nt - w.loop.time()), 0), 0, 0)))
    cands.append((W["tick"] * 0.15, (S.TICK, 1, 0, 0)))
    if w.public_scopes:
        cands.append((W["extcancel"], (S.EXTCANCEL, rng.choice(w.public_scopes), 0, 0)))
    live = [t for t, p in w.puppets.items() if not p.finished and (p.task or getattr(p, "pre_task", None)) is not None
            and not (p.task or p.pre_task).done() and not p.in_start_join]
    if live:
        cands.append((W["nativecancel"], (S.NATIVECANCEL, rng.choice(live), 0, 0)))
        # the "keep cancelling until it is gone" idiom of foreign code: a task that has just reacted to a native
        # cancellation is natively cancelled again straight away
        ops = w.ops
        if W["nativecancel"] > 0 and len(ops) >= 8 and ops[-4] in (S.RUNSTEP, S.RUNWAKE) and ops[-8] == S.NATIVECANCEL \
                and ops[-7] == ops[-3] and ops[-3] in live:
            cands.append((W["nativecancel"] * 25 + 2.0, (S.NATIVECANCEL, ops[-3], 0, 0)))
        # ... and a host that has just been woken inside a group's __aexit__ and is still in there
        if W["nativecancel"] > 0 and len(ops) >= 4 and ops[-4] in (S.RUNSTEP, S.RUNWAKE) and ops[-3] in live \
                and w.puppets[ops[-3]].pending_op == S.GEXIT:
            cands.append((W["nativecancel"] * 25 + 1.0, (S.NATIVECANCEL, ops[-3], 0, 0)))
    nroots = sum(1 for p in w.puppets.values() if not p.spawned)
    if nroots < 2 and len(w.puppets) < W["max_tasks"]:
        cands.append((W["newroot"], (S.NEWROOT, 0, 0, 0)))
    return [(wt, op) for (wt, op) in cands if wt > 0]


def random_run(rng: random.Random, nsteps: int, prof: Profile | None = None):
    prof = prof or Profile()
    w = S.SWorld()
    with w:
        w.do(S.NEWROOT)
        for _ in range(nsteps):
            cands = propose(w, rng, prof)
            if not cands:
                break
            ws = [c[0] for c in cands]
            op = rng.choices([c[1] for c in cands], ws)[0]
            w.do(*op)
        return w


def _safe(x):
    try:
        return str(x)
    except Exception:  # noqa: BLE001
        return '<unprintable>'


def replay(ops: list[int], tolerant: bool = False):
    """Re-executes a stored op list.  With tolerant=True the replay stops at the first op the implementation can no
    longer perform (w.incomplete is set) instead of raising."""
    w = S.SWorld()
    w.incomplete = None
    with w:
        for i in range(0, len(ops), 4):
            try:
                w.do(*ops[i:i + 4])
            except (AssertionError, IndexError, KeyError, ValueError, StopIteration, AttributeError) as e:
                if not tolerant:
                    raise
                w.incomplete = (i // 4, type(e).__name__ + ': ' + ' '.join(x for x in map(_safe, e.args)))
                break
        return w


def adaptive(script: list[list[int]]):
    """Plays a scripted scenario whose optional ops ([1, c, a, b, d]) are skipped when the implementation cannot perform
    them at that point (all such refusals happen before any side effect).  Used for corpus scenarios that must stay
    executable when a change moves a wake-up: the history actually performed is what is compared and judged."""
    w = S.SWorld()
    w.incomplete = None
    with w:
        for k, (opt, *op) in enumerate(script):
            try:
                w.do(*op)
            except (AssertionError, IndexError, KeyError, ValueError, StopIteration, AttributeError) as e:
                if opt:
                    continue
                w.incomplete = (k, type(e).__name__ + ': ' + ' '.join(x for x in map(_safe, e.args)))
                break
        return w


def step_slices(w: S.SWorld):
    """Per-step (start, end) offsets into w.outs."""
    return getattr(w, "step_bounds", None)


def readable(ops: list[int]):
    return [(S.OPNAMES.get(ops[i], ops[i]), ops[i + 1], ops[i + 2], ops[i + 3]) for i in range(0, len(ops), 4)]


def first_diff_step(w: S.SWorld, model: list[int]):
    """Locate the first step whose output differs; returns (step index, impl slice, model slice)."""
    outs = w.outs
    n = min(len(outs), len(model))
    k = next((i for i in range(n) if outs[i] != model[i]), n)
    pos = 0
    for si, ln in enumerate(w.step_lens):
        if pos + ln > k:
            return si, outs[pos:pos + ln], model[pos:pos + ln + 8]
        pos += ln
    return len(w.step_lens), [], model[pos:pos + 40]


# ------------------------------------------------------------------------------------------------------------
# exhaustive small scope: every sequence over a reduced op alphabet up to a depth, each replayed from scratch
# ------------------------------------------------------------------------------------------------------------

ALPHABETS = {
    # scope-centred: one or two tasks, nested scopes, shields, cancels, checkpoints, all scheduler choices
    "scopes": dict(newscope=1, enter=1, exit=1, cancel=1, setshield=1, yield_=1, ckif=1, shieldck=1, sleep=1, run=1,
                   extcancel=1, tick=1, failat=0, exit_misuse=0, setdeadline=0, gnew=0, genter=0, gexit=0, spawn=0,
                   start=0, spawn_misuse=0, started=0, started_misuse=0, hcancel=0, hwait=0, sleep_forever=0, hold=0,
                   drop=1, wrap=0, finish=0, finish_root=0, uncancel=0, effdl=0, nativecancel=0, newroot=0,
                   deadline_prob=0.0, shield_prob=0.0, max_depth=2, max_groups=0, max_tasks=2),
    # group-centred: spawn/start/finish/errors/exit with all scheduler choices
    "groups": dict(newscope=0, enter=0, exit=0, cancel=1, setshield=0, yield_=1, ckif=0, shieldck=0, sleep=0, run=1,
                   extcancel=0, tick=0, failat=0, exit_misuse=0, setdeadline=0, gnew=1, genter=1, gexit=1, spawn=1,
                   start=1, spawn_misuse=0, started=1, started_misuse=0, hcancel=1, hwait=0, sleep_forever=1, hold=1,
                   drop=0, wrap=0, finish=1, finish_root=0, uncancel=0, effdl=0, nativecancel=0, newroot=1,
                   deadline_prob=0.0, shield_prob=0.0, max_depth=1, max_groups=1, max_tasks=4),
    # deadline-centred
    "deadlines": dict(newscope=1, enter=1, exit=1, cancel=0, setshield=0, yield_=0, ckif=0, shieldck=0, sleep=1, run=1,
                      extcancel=0, tick=1, failat=1, exit_misuse=0, setdeadline=1, gnew=0, genter=0, gexit=0, spawn=0,
                      start=0, spawn_misuse=0, started=0, started_misuse=0, hcancel=0, hwait=0, sleep_forever=0, hold=0,
                      drop=1, wrap=0, finish=0, finish_root=0, uncancel=0, effdl=1, nativecancel=0, newroot=0,
                      deadline_prob=1.0, shield_prob=0.0, max_depth=2, max_groups=0, max_tasks=1),
}


def canonical_candidates(w: S.SWorld, prof: Profile):
    """Deterministic, de-duplicated candidate ops for the exhaustive walk (one representative per op kind/target)."""
    rng = random.Random(0)
    seen = {}
    for _ in range(4):          # sample the parameterised proposals a few times to see their variants
        for (wt, op) in propose(w, rng, prof):
            c, a, b, d = op
            # canonicalise free parameters
            if c == S.NEWSCOPE:
                op = (c, a, -1 if prof.w["deadline_prob"] == 0 else int(w.loop.time()) + 2, 0)
            elif c == S.FAILAT:
                op = (c, a, int(w.loop.time()) + 2, 0)
            elif c == S.SLEEP:
                op = (c, a, 1 if b >= 0 else -1, 0)
            elif c in (S.HOLD, S.WRAP):
                op = (c, a, 7, 0)
            elif c == S.STARTED:
                op = (c, a, 4, 0)
            elif c == S.FINISH:
                op = (c, a, 3, 0)
            elif c == S.SETDEADLINE:
                op = (c, a, b, int(w.loop.time()) + 1)
            elif c == S.TICK:
                op = (c, max(a, 1), 0, 0)
            seen[op] = True
    return sorted(seen)


def exhaustive_small(alphabet: str, depth: int, limit: int = 20000):
    """All op sequences of the reduced alphabet up to `depth` (after the initial NewRoot), each replayed on the
    implementation from scratch.  Returns the list of completed worlds (leaf sequences only) and whether the limit cut
    the enumeration short."""
    prof = Profile(**ALPHABETS[alphabet])
    leaves = []
    truncated = False
    stack = [[S.NEWROOT, 0, 0, 0]]
    while stack:
        prefix = stack.pop()
        w = S.SWorld()
        with w:
            for i in range(0, len(prefix), 4):
                w.do(*prefix[i:i + 4])
            n = len(prefix) // 4 - 1
            cands = canonical_candidates(w, prof) if n < depth else []
        if not cands:
            leaves.append(w)
            if len(leaves) >= limit:
                truncated = bool(stack)
                break
            continue
        for op in cands:
            stack.append(prefix + list(op))
    return leaves, truncated
