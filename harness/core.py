"""Shared machinery of the checks: Coq build, extraction, model drivers, evidence, reporting."""

from __future__ import annotations

import fcntl
import hashlib
import json
import os
import re
import subprocess
import sys
import time
from contextlib import contextmanager
from pathlib import Path

VERIF = Path(__file__).resolve().parent.parent
COQ = VERIF / "coq"
OCAML = VERIF / "ocaml"
GEN = OCAML / "gen"
BIN = OCAML / "bin"
EVID = VERIF / "evidence"
REPLAYS = EVID / "replays"
TMP = VERIF / "build" / "tmp"
REPO = Path(os.environ.get("VERIF_REPO", "/repo"))
PY = "/venv/bin/python"

GATE_RE = re.compile(
    r"\b(Admitted|admit|Axioms?|Parameters?|Conjectures?|Unset Guard|bypass_check|type-in-type|"
    r"Admit Obligations|impredicative-set|Unset Positivity|Unset Universe|Guard Checking|Positivity Checking|"
    r"Universe Checking)\b"
)
# declarations that are assumptions unless they sit inside a (closed) Section
SECTION_LOCAL_RE = re.compile(r"^\s*(?:Local\s+|Global\s+)?(Variables?|Hypothes[ie]s|Context)\b")


def seed() -> int:
    try:
        return int(os.environ.get("VERIF_SEED", "20260923"))
    except ValueError:
        return 20260923


def impl_env() -> dict:
    env = dict(os.environ)
    env["PYTHONPATH"] = f"{REPO}/src:{VERIF}/harness"
    env["PYTHONHASHSEED"] = "0"
    env["ANYIO_VERIF"] = "1"
    env["PYTHONDONTWRITEBYTECODE"] = "1"
    return env


@contextmanager
def locked(name: str):
    """File lock shared by all checks; re-entrant within one process (a holder that asks again just goes on)."""
    import threading
    key = (name, threading.get_ident())       # re-entrant per THREAD: another thread of this process waits like a stranger
    if key in _HELD:
        yield
        return
    (VERIF / "build").mkdir(exist_ok=True)
    path = VERIF / "build" / f"{name}.lock"
    with open(path, "w") as fh:
        fcntl.flock(fh, fcntl.LOCK_EX)
        _HELD.add(key)
        try:
            yield
        finally:
            _HELD.discard(key)
            fcntl.flock(fh, fcntl.LOCK_UN)


_HELD: set = set()

# generated Coq sources (tie T) and the translator that writes each of them from the tree under test
GENERATED = {
    "scopes/ChainGen.v": "translate_chain.py", "prims/FastPathGen.v": "translate_fastpath.py",
    "prims/LockGen.v": "translate_lock.py", "prims/SemGen.v": "translate_prims.py", "prims/LimiterGen.v": "translate_prims.py",
    "prims/CondGen.v": "translate_cond.py", "prims/MemGen.v": "translate_mem.py",
    "pure/BufGen.v": "translate_buffered.py", "pure/TextGen.v": "translate_text.py",
    "scopes/TimeoutGen.v": "translate_timeouts.py",
}


def regenerate_generated(prop_file: str) -> None:
    """Every generated file in the cone of prop_file is rewritten from the tree under test (VERIF_REPO) before the cone is
    built: a file left behind by a run against ANOTHER tree (a refusal does not even compile) must never decide a check
    that does not run that translator itself (C03's cone contains ChainGen.v; found by a soak run racing a seed run)."""
    import sys as _sys
    cone = set(coq_deps(prop_file))
    for script in sorted({GENERATED[f] for f in cone if f in GENERATED}):
        subprocess.run([_sys.executable, str(VERIF / "tools" / script)], env=dict(os.environ, VERIF_REPO=str(REPO)),
                       stdout=subprocess.DEVNULL, stderr=subprocess.DEVNULL, timeout=120)


def sh(cmd, cwd=None, timeout=1200, env=None, check=False):
    p = subprocess.run(
        cmd, cwd=cwd, timeout=timeout, env=env, shell=isinstance(cmd, str),
        stdout=subprocess.PIPE, stderr=subprocess.STDOUT, text=True,
    )
    if check and p.returncode != 0:
        raise RuntimeError(f"command failed ({p.returncode}): {cmd}\n{p.stdout[-4000:]}")
    return p.returncode, p.stdout


# ----------------------------------------------------------------------------------------------
# Coq project
# ----------------------------------------------------------------------------------------------

def coq_sources() -> list[str]:
    out = []
    for p in sorted(COQ.rglob("*.v")):
        rel = p.relative_to(COQ).as_posix()
        if rel.startswith("extract/") or rel.startswith("gen/") or "/." in rel or rel.startswith("."):
            continue
        out.append(rel)
    return out


def coq_project_refresh() -> None:
    srcs = coq_sources()
    text = "-Q . AV\n-arg -w -arg -notation-overridden,-deprecated-hint-without-locality,-deprecated-instance-without-locality\n" + "\n".join(srcs) + "\n"
    proj = COQ / "_CoqProject"
    if not proj.exists() or proj.read_text() != text or not (COQ / "Makefile").exists():
        proj.write_text(text)
        sh(["coq_makefile", "-f", "_CoqProject", "-o", "Makefile"], cwd=COQ, check=True)


def coq_make(targets: list[str], timeout: int = 1500, jobs: int = 12):
    """Build .vo targets (paths relative to coq/).  Returns (ok, log)."""
    with locked("coq"):
        coq_project_refresh()
        rc, out = sh(["timeout", str(timeout), "make", f"-j{jobs}", *targets], cwd=COQ, timeout=timeout + 30)
    return rc == 0, out


def coq_gate(files: list[str]) -> list[str]:
    """Forbidden-construct gate over the given source files (relative to coq/)."""
    bad = []
    for rel in files:
        p = COQ / rel
        if not p.exists():
            bad.append(f"{rel}: missing")
            continue
        text = p.read_text()
        # strip comments (non-nested is enough for our sources; nested handled by loop)
        prev = None
        while prev != text:
            prev = text
            text = re.sub(r"\(\*[^*(]*(?:\*(?!\))[^*(]*|\((?!\*)[^*(]*)*\*\)", " ", text)
        sections: list[str] = []
        for i, line in enumerate(text.splitlines(), 1):
            if GATE_RE.search(line):
                bad.append(f"{rel}:{i}: {line.strip()}")
            m = re.match(r"^\s*Section\s+(\w+)\s*\.", line)
            if m:
                sections.append(m.group(1))
            m = re.match(r"^\s*End\s+(\w+)\s*\.", line)
            if m and sections and sections[-1] == m.group(1):
                sections.pop()
            if SECTION_LOCAL_RE.match(line) and not sections:
                bad.append(f"{rel}:{i}: outside a Section: {line.strip()}")
        if sections:
            bad.append(f"{rel}: Section {sections[-1]} is never closed")
    return bad


def coq_deps(target_v: str) -> list[str]:
    """Transitive AV-internal dependencies of a .v file (relative paths), including itself."""
    seen: list[str] = []

    def visit(rel: str):
        if rel in seen:
            return
        p = COQ / rel
        if not p.exists():
            return
        seen.append(rel)
        for m in re.finditer(r"From\s+AV\s+Require\s+(?:Import|Export)?\s*([^.]*)\.", p.read_text()):
            for name in m.group(1).split():
                cands = [q for q in coq_sources() if q.endswith("/" + name + ".v") or q == name + ".v"]
                for c in cands:
                    visit(c)

    visit(target_v)
    return seen


def count_obligations(files: list[str]) -> tuple[int, list[str]]:
    names = []
    for rel in files:
        text = (COQ / rel).read_text()
        for m in re.finditer(r"^\s*(?:Local\s+|Global\s+)?(Lemma|Theorem|Corollary|Example|Fact|Proposition)\s+([A-Za-z0-9_']+)", text, re.M):
            names.append(f"{rel}:{m.group(2)}")
    return len(names), names


def print_assumptions(prop_v: str) -> list[str]:
    """Re-run coqc on a props file and collect its Print Assumptions output."""
    with locked("coq"):
        rc, out = sh(["timeout", "300", "coqc", "-Q", ".", "AV", prop_v], cwd=COQ)
    res = []
    if rc != 0:
        return [f"coqc failed on {prop_v}"]
    cur = None
    for line in out.splitlines():
        if line.startswith("Closed under the global context"):
            res.append("Closed under the global context")
        elif line.startswith("Axioms:"):
            cur = "Axioms:"
        elif cur is not None and line.strip():
            res.append("axiom " + line.strip())
    return res


# ----------------------------------------------------------------------------------------------
# Extraction and drivers
# ----------------------------------------------------------------------------------------------

DRIVER_TEMPLATE = r"""
open MODEL
let rec pos_of_int n =
  if n = 1 then XH else if n land 1 = 0 then XO (pos_of_int (n lsr 1)) else XI (pos_of_int (n lsr 1))
let z_of_int n = if n = 0 then Z0 else if n > 0 then Zpos (pos_of_int n) else Zneg (pos_of_int (-n))
let rec int_of_pos = function XH -> 1 | XO p -> 2 * int_of_pos p | XI p -> 2 * int_of_pos p + 1
let int_of_z = function Z0 -> 0 | Zpos p -> int_of_pos p | Zneg p -> - (int_of_pos p)
let () =
  try
    while true do
      let line = input_line stdin in
      let toks = List.filter (fun s -> s <> "") (String.split_on_char ' ' line) in
      let ints = List.map (fun s -> z_of_int (int_of_string s)) toks in
      let out = ENTRY ints in
      print_string (String.concat " " (List.map (fun z -> string_of_int (int_of_z z)) out));
      print_newline ()
    done
  with End_of_file -> ()
"""


def build_driver(name: str, coq_module: str, entry: str = "run_case") -> Path:
    """Extract `coq_module.entry : list Z -> list Z` to OCaml and build a line-oriented driver.
    name: short lower-case model name; coq_module: e.g. 'Lock' (file must be in the project)."""
    GEN.mkdir(parents=True, exist_ok=True)
    BIN.mkdir(parents=True, exist_ok=True)
    exe = BIN / f"{name}_driver"
    # the module's own .vo may lie outside every props cone (e.g. scopes/ChainCodec.v): build it first
    src = sorted(COQ.glob(f"*/{coq_module}.v"))
    if src:
        vo = src[0].with_suffix(".vo")
        ok, log = coq_make([str(vo.relative_to(COQ))], timeout=1500)
        if not ok:
            raise RuntimeError(f"build of {coq_module} failed:\n{log[-3000:]}")
    with locked(f"driver_{name}"):
        xv = GEN / f"X_{name}.v"
        xv.write_text(
            f"From AV Require Import {coq_module}.\n"
            "From Coq Require Import ExtrOcamlBasic.\n"
            "Extraction Language OCaml.\n"
            f'Extraction "{name}_model.ml" {coq_module}.{entry}.\n'
        )
        rc, out = sh(["timeout", "300", "coqc", "-Q", str(COQ), "AV", xv.name], cwd=GEN)
        if rc != 0:
            raise RuntimeError(f"extraction of {coq_module} failed:\n{out[-3000:]}")
        mod = f"{name}_model".capitalize()
        drv = GEN / f"{name}_driver.ml"
        drv.write_text(DRIVER_TEMPLATE.replace("MODEL", mod).replace("ENTRY", entry))
        rc, out = sh(
            ["ocamlfind", "ocamlopt", "-w", "-a", "-O2" if False else "-inline", "20", "-I", ".",
             f"{name}_model.mli", f"{name}_model.ml", f"{name}_driver.ml", "-o", str(exe)],
            cwd=GEN, timeout=300,
        )
        if rc != 0:
            raise RuntimeError(f"ocaml build of {name} failed:\n{out[-3000:]}")
    return exe


def run_driver(exe: Path, cases: list[list[int]], timeout: int = 600) -> list[list[int]]:
    inp = "\n".join(" ".join(str(x) for x in c) for c in cases) + "\n"
    p = subprocess.run([str(exe)], input=inp, stdout=subprocess.PIPE, stderr=subprocess.PIPE,
                       text=True, timeout=timeout)
    if p.returncode != 0:
        raise RuntimeError(f"driver {exe} failed: {p.stderr[-2000:]}")
    lines = p.stdout.split("\n")
    if lines and lines[-1] == "":
        lines.pop()
    return [[int(x) for x in ln.split()] for ln in lines]


def zlist(l: list[int]) -> str:
    return "[" + "; ".join(f"({x})" if x < 0 else str(x) for x in l) + "]"


def coq_eval_cases(tag: str, coq_module: str, cases: list[list[int]], expected: list[list[int]],
                   entry: str = "run_case", chunk: int = 200) -> tuple[bool, str]:
    """Kernel-checked correspondence on a sample: `map run_case cases = expected` by vm_compute."""
    d = COQ / "gen"
    d.mkdir(exist_ok=True)
    ok = True
    log = ""
    # chunks are bounded both in cases and in literal size (a multi-100kB list literal overflows coqc's stack)
    bounds, start, size = [], 0, 0
    for j, (c, e) in enumerate(zip(cases, expected)):
        sz = len(c) + len(e)
        if j > start and (j - start >= chunk or size + sz > 12000):
            bounds.append((start, j))
            start, size = j, 0
        size += sz
    if len(cases) > start:
        bounds.append((start, len(cases)))
    for (i, j) in bounds:
        cs = cases[i:j]
        ex = expected[i:j]
        f = d / f"cases_{tag}_{os.getpid()}_{i}.v"
        body = (
            f"From AV Require Import Base {coq_module}.\nOpen Scope Z_scope.\n"
            f"Definition inputs : list (list Z) := [\n  " + ";\n  ".join(zlist(c) for c in cs) + "].\n"
            f"Definition expected : list (list Z) := [\n  " + ";\n  ".join(zlist(c) for c in ex) + "].\n"
            f"Goal map {coq_module}.{entry} inputs = expected.\nProof. vm_compute. reflexivity. Qed.\n"
        )
        f.write_text(body)
        rc, out = sh(["bash", "-c", f"ulimit -s unlimited 2>/dev/null; exec timeout 600 coqc -Q {COQ} AV {f}"], cwd=d)
        for ext in (".v", ".vo", ".vok", ".vos", ".glob"):
            try:
                f.with_suffix(ext).unlink()
            except FileNotFoundError:
                pass
        try:
            (d / f".{f.stem}.aux").unlink()
        except FileNotFoundError:
            pass
        if rc != 0:
            ok = False
            log += out[-1500:]
    return ok, log


# ----------------------------------------------------------------------------------------------
# Reporting
# ----------------------------------------------------------------------------------------------

class Report:
    def __init__(self, pid: str, tier: str):
        self.pid = pid
        self.tier = tier
        self.t0 = time.time()
        self.violations: list[dict] = []
        self.known: list[str] = []
        self.coverage: dict = {}
        self.assumptions: list[str] = []
        self.notes: list[str] = []

    def violation(self, what: str, replay: dict, no_input: bool = False) -> None:
        REPLAYS.mkdir(parents=True, exist_ok=True)
        h = hashlib.sha1(json.dumps(replay, sort_keys=True, default=str).encode()).hexdigest()[:10]
        path = REPLAYS / f"{self.pid}_{h}.json"
        replay = dict(replay)
        replay["property"] = self.pid
        replay["what"] = what
        path.write_text(json.dumps(replay, indent=1, default=str))
        if not any(v["replay"] == str(path) for v in self.violations):
            self.violations.append({"what": what, "replay": str(path), "no_input": no_input})

    def known_finding(self, what: str) -> None:
        if what not in self.known:
            self.known.append(what)

    def finish(self) -> int:
        wall = time.time() - self.t0
        ev = {
            "property_id": self.pid,
            "tier": self.tier,
            "seed": seed(),
            "level": "proof",
            "coverage": self.coverage,
            "assumptions": self.assumptions,
            "wall_s": round(wall, 2),
            "violations": len(self.violations),
        }
        if self.notes:
            ev["coverage"]["notes"] = self.notes
        EVID.mkdir(exist_ok=True)
        (EVID / f"{self.pid}.json").write_text(json.dumps(ev, indent=1, default=str) + "\n")
        for k in self.known:
            print(f"KNOWN-FINDING: property={self.pid} {k}")
        for v in self.violations:
            tail = " no-failing-input-found" if v["no_input"] else ""
            print(f"VIOLATION property={self.pid} replay={v['replay']}{tail}")
        if not self.violations:
            print(f"OK property={self.pid} tier={self.tier} wall={wall:.1f}s")
        sys.stdout.flush()
        return 1 if self.violations else 0


def proof_stage(rep: Report, prop_file: str, extra_gate: list[str] | None = None) -> bool:
    """Build props/Cxx.vo with its cone, run the gate, fill the proof part of the coverage.
    Returns True if every obligation checked."""
    target = prop_file[:-2] + ".vo"
    with locked("tiegen"):
        regenerate_generated(prop_file)
        ok, log = coq_make([target])
    cone = coq_deps(prop_file)
    n, names = count_obligations(cone)
    gate = coq_gate(cone + (extra_gate or []))
    rep.coverage["checker_cmd"] = f"make -C coq {target}  (coqc 8.16.1, full .vo build) + forbidden-construct gate"
    rep.coverage["obligations"] = n
    rep.coverage["proof_files"] = cone
    if ok and not gate:
        rep.coverage["discharged"] = n
        tb = print_assumptions(prop_file)
        rep.coverage["print_assumptions"] = tb
        open_ = [x for x in tb if x != "Closed under the global context"]
        if open_ or not tb:
            # every property theorem must be closed under the global context (no axiom of any kind is used today);
            # anything else is a broken proof obligation
            rep.coverage["proof_failure"] = {"where": "Print Assumptions: " + (open_[0] if open_ else "no output"),
                                             "gate": [], "log_tail": "; ".join(open_[:5])}
            rep.coverage["discharged"] = 0
            return False
        if rep.tier == "thorough":
            # independent re-check of the compiled cone and its axioms
            mod = "AV." + prop_file[:-2].replace("/", ".")
            rc, out = sh(["timeout", "1500", "coqchk", "-o", "-silent", "-Q", ".", "AV", mod], cwd=COQ, timeout=1600)
            m = re.search(r"\* Axioms:(.*?)\n\s*\n", out, re.S)
            axioms = " ".join(m.group(1).split()) if m else "?"
            rep.coverage["coqchk"] = {"cmd": f"coqchk -o -Q . AV {mod}", "ok": rc == 0 and "* Axioms:" in out,   # -silent prints only the summary; status 0 = all modules checked
                                      "axioms": axioms}
            if rc != 0:
                rep.coverage["proof_failure"] = {"where": "coqchk " + mod, "gate": [], "log_tail": out[-800:]}
                rep.coverage["discharged"] = 0
                return False
        return True
    rep.coverage["discharged"] = 0
    m = re.search(r'File "\./([^"]+)", line (\d+)', log)
    failing = f"{m.group(1)}:{m.group(2)}" if m else "unknown"
    rep.coverage["proof_failure"] = {"where": failing, "gate": gate, "log_tail": log[-1500:]}
    return False


TRUSTED_BASE_COMMON = [
    "Coq 8.16.1 kernel (coqc); vm_compute used for correspondence samples and witnesses; no native_compute",
    "no axioms declared by the development (gate: grep for Admitted/admit/Axiom/Parameter/Conjecture/guard switches)",
    "extraction: ExtrOcamlBasic only (Extract Inductive bool/option/unit/list/prod/sumbool/sumor), no Extract Constant; Z/nat/positive stay extracted datatypes; OCaml 4.13.1; 20-line generic driver",
    "correspondence harness (Python): schedule-controlled SchedLoop, puppets, canonicalisation, generators, monitors - differential testing, bounds but does not remove the model/code gap",
    "modelled, not verified: CPython 3.12.1 asyncio Task/Future/call_soon semantics",
]
