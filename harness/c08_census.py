"""API census for C08: every public awaitable of the anchor modules is placed - in a table row, as a delegation to
one, as one of the exemptions the property text names, or as outside the property's enumerated list (with the
reason).  A public `async def` that appears in the source and is not placed here breaks the tie (the check reports it
with no failing input), so that "the only exemptions are …" has a domain that cannot silently grow."""
from __future__ import annotations

import ast
from pathlib import Path

MODULES = ["_core/_synchronization.py", "_core/_tasks.py", "_core/_futures.py", "streams/memory.py", "to_thread.py",
           "lowlevel.py", "functools.py", "_core/_eventloop.py", "itertools.py"]

ROW = "row"              # a row of the fast-path table (harness/c08.py ROWS, coq/prims/FastPath.v)
VIA = "via"              # delegates its await to a row (context-manager entry, adapter)
EXEMPT = "exempt"        # exemption named by the property text
ITER = "itertools"       # covered by the itertools clause (props/C08_itertools.v)
OUT = "outside"          # not in the property's enumerated list of operations; reason given
NOAWAIT = "no-wait"      # never blocks and never needs to (synchronous body or pure release)

PLACED = {
    "Lock.acquire": (ROW, 5), "Lock.__aenter__": (VIA, 5), "Lock.__aexit__": (NOAWAIT, "release() only"),
    "LockAdapter.acquire": (VIA, 5), "LockAdapter.__aenter__": (VIA, 5), "LockAdapter.__aexit__": (NOAWAIT, "release() only"),
    "Semaphore.acquire": (ROW, 6), "Semaphore.__aenter__": (VIA, 6), "Semaphore.__aexit__": (NOAWAIT, "release() only"),
    "SemaphoreAdapter.acquire": (VIA, 6),
    "CapacityLimiter.acquire": (ROW, 7), "CapacityLimiter.acquire_on_behalf_of": (ROW, 7),
    "CapacityLimiter.__aenter__": (VIA, 7), "CapacityLimiter.__aexit__": (NOAWAIT, "release() only"),
    "CapacityLimiterAdapter.acquire": (VIA, 7), "CapacityLimiterAdapter.acquire_on_behalf_of": (VIA, 7),
    "CapacityLimiterAdapter.__aenter__": (VIA, 7), "CapacityLimiterAdapter.__aexit__": (NOAWAIT, "release() only"),
    "Condition.acquire": (ROW, 8), "Condition.__aenter__": (VIA, 8), "Condition.__aexit__": (NOAWAIT, "release() only"),
    "Condition.wait": (ROW, 9),
    "Condition.wait_for": (OUT, "not in the property's list; a true predicate returns without awaiting (like asyncio.Condition.wait_for) - reported by the bug hunt, hunt/C08/2"),
    "Event.wait": (ROW, 4), "EventAdapter.wait": (VIA, 4),
    "TaskHandle.wait": (ROW, 15), "Future.wait": (ROW, 17),
    "MemoryObjectSendStream.send": (ROW, 10), "MemoryObjectReceiveStream.receive": (ROW, 12),
    "MemoryObjectSendStream.aclose": (EXEMPT, "explicitly synchronous close"), "MemoryObjectReceiveStream.aclose": (EXEMPT, "explicitly synchronous close"),
    "run_sync": (ROW, 14),
    "checkpoint": (ROW, 3), "checkpoint_if_cancelled": (OUT, "half of a checkpoint by definition (C03: spins while cancelled, returns at once otherwise)"),
    "cancel_shielded_checkpoint": (OUT, "the other half of a checkpoint by definition (yields, never raises an AnyIO cancellation)"),
    "reduce": (ROW, 18),
    "sleep": (ROW, 1), "sleep_forever": (OUT, "always waits: governed by C03"), "sleep_until": (VIA, 1),
}
ITERTOOLS = ["Chain.from_iterable", "accumulate", "batched", "combinations", "combinations_with_replacement", "compress",
             "count", "cycle", "dropwhile", "filterfalse", "groupby", "islice", "pairwise", "permutations", "product",
             "repeat", "starmap", "takewhile", "zip_longest"]
for _n in ITERTOOLS:
    PLACED[_n] = (ITER, "full traversal passes a checkpoint")


def public_async_defs(repo: Path) -> dict[str, str]:
    out: dict[str, str] = {}
    for rel in MODULES:
        p = repo / "src" / "anyio" / rel
        if not p.exists():
            out[f"<missing module {rel}>"] = rel
            continue
        tree = ast.parse(p.read_text())
        for n in tree.body:
            if isinstance(n, ast.AsyncFunctionDef) and not n.name.startswith("_"):
                out[n.name] = rel
            if isinstance(n, ast.ClassDef) and not n.name.startswith("_"):
                for f in n.body:
                    if isinstance(f, ast.AsyncFunctionDef) and (not f.name.startswith("_") or f.name in ("__aenter__", "__aexit__", "__anext__")):
                        out[f"{n.name}.{f.name}"] = rel
    return out


def census(repo: Path):
    """-> (unplaced names, vanished names, summary by class)"""
    found = public_async_defs(repo)
    unplaced = sorted(n for n in found if n not in PLACED)
    vanished = sorted(n for n in PLACED if n not in found)
    summary: dict[str, int] = {}
    for n in found:
        k = PLACED.get(n, ("unplaced",))[0]
        summary[k] = summary.get(k, 0) + 1
    return unplaced, vanished, summary
