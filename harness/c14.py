"""C14 — to_thread.run_sync: correspondence of boundary/Threads.v with the real code on REAL threads
(stock asyncio loop and uvloop), plus model-independent monitors.

Threads cannot be stepped, so every script step waits (with a hard timeout) for a definite observable effect:
"function k signalled that it started", "caller c is done", "the worker is back in the idle deque".  What is compared
with the model after each step is therefore deterministic: limiter.borrowed_tokens, statistics().tasks_waiting, the set
of executing functions, the set of finished callers, pool sizes; at the end the result delivered to every caller."""

from __future__ import annotations

import asyncio
import concurrent.futures
import contextvars
import json
import queue
import random
import re
import threading
import time
from asyncio import CancelledError
from contextlib import ExitStack

import core

DRIVERS = [("threads", "Threads")]

OPN = {0: "Scope", 1: "Call", 2: "Resume", 3: "CancelCaller", 4: "Deliver", 5: "StartCall", 6: "FinishCall",
       7: "CheckCancelledCall", 8: "SetTotal", 9: "ThreadReturn", 10: "NativeCancel", 11: "ArmSpawnFail",
       12: "RunAsyncCall", 13: "SpawnFail"}
KINDS = {0: "return", 1: "raise", 2: "StopIteration", 3: "from_thread.run", 4: "from_thread.run_sync", 5: "contextvar",
         6: "propagate check_cancelled", 7: "BaseException", 8: "falsy exception",
         9: "from_thread.run_sync callback raises", 10: "from_thread.run callback raises"}
NKINDS = 11
FALSY_CODE = 999       # distinguished exception code of the model for "an exception whose bool() is False" (F47)
SPAWN_MSG = "c14: can't start new thread"

STEP_TIMEOUT = 5.0     # a step whose effect does not show within this time is reported as a hang
GATE_TIMEOUT = 8.0     # a thread function never waits longer than this for its next command
DEFAULT_TOTAL = 40     # size of the default thread limiter

_cvar: contextvars.ContextVar = contextvars.ContextVar("c14_var", default=-1)


FAILED: list = []      # runs with a monitor hit / hang (generation stops early once there are plenty)
FAIL_FAST = 10


def plenty() -> bool:
    return len(FAILED) >= FAIL_FAST


class MyErr(Exception):
    def __init__(self, code):
        super().__init__(code)
        self.code = code


class FalsyErr(Exception):
    """an exception whose truth value is False ("collection of problems" style: __len__() == 0).  F47: such exceptions
    were dropped (None returned) by everything that unwraps a concurrent.futures.Future with .result()"""

    def __init__(self, code):
        super().__init__(code)
        self.code = code

    def __len__(self):
        return 0


class MyBase(BaseException):
    """a BaseException subclass that is not an Exception (and not one asyncio treats specially)"""

    def __init__(self, code):
        super().__init__(code)
        self.code = code


class Hang(Exception):
    pass


def walk(chain):
    """Independent statement of 'effectively cancelled' over [(cancel_called, shield)], innermost first."""
    for cc, sh in chain:
        if cc:
            return True
        if sh:
            return False
    return False


def readable(ops):
    out = []
    for i in range(0, len(ops), 4):
        c, a, b, d = ops[i:i + 4]
        if c == 6:
            out.append((OPN[c], a, KINDS.get(b, b), d))
        elif c in (0, 1, 3):
            out.append((OPN[c], a, b))
        else:
            out.append((OPN[c], a))
    return out


class Run:
    """Executes one script on the implementation.  `script` is a flat op list to replay, or None: then `chooser`
    (a function of this Run returning the next op or None) extends the script step by step."""

    def __init__(self, total: int, prune: bool, uv: bool, ncalls: int, script=None, chooser=None, racy=None):
        self.total = total            # 0 = default limiter
        self.prune = prune
        self.uv = uv
        self.ncalls = ncalls
        self.script = script
        self.chooser = chooser
        self.racy = racy              # monitor-only scenario (not compared with the model)
        self.stuck: list[int] = []    # callers that never finished although every function was told to finish
        self.current_op = None
        self.strict = False           # replay: refuse ops that are not enabled (used while shrinking)
        self.finish_all = True        # after a replayed script, finish every pending call through further ops
        self.enabled_at_end = []
        self.ops: list[int] = []
        self.outs: list[int] = []
        self.mon: list[str] = []
        self.flags: set[str] = set()
        self.hang: str | None = None
        self.leak: str | None = None
        # per call
        self.shields: dict[int, list[bool]] = {}    # innermost first
        self.cc: dict[int, list[bool]] = {}         # cancel_called flags as requested by the script
        self.abandon: dict[int, bool] = {}
        self.scopes: dict[int, list] = {}
        self.task: dict[int, asyncio.Task] = {}
        self.outcome: dict[int, tuple] = {}
        self.post: dict[int, int] = {}
        self.started: dict[int, object] = {}        # call -> thread object
        self.finish_sent: dict[int, tuple] = {}
        self.landed: set[int] = set()
        self.cancel_before_finish: set[int] = set() # effective cancellation requested before the finish command
        self.cmdq: dict[int, queue.Queue] = {}
        self.cc_reply: dict[int, int] = {}
        self.thread_index: dict[int, int] = {}      # id(thread) -> 1-based index by first appearance
        self.threads: list = []
        self.my_idle: list = []                     # monitor's own view of the idle stack
        self.batch_started: list = []               # threads on which a function started during the current step
        self.last_on: dict[int, int] = {}           # id(thread) -> last call that ran on it
        self.prev: dict[int, int] = {}              # call -> (previous call on the same worker) + 1, 0 = fresh worker
        self.cur_total = total if total else DEFAULT_TOTAL
        self.native: set[int] = set()               # callers hit by a native Task.cancel()
        self.native_running: set[int] = set()       # ... while their function was executing
        self.armed: set[int] = set()                # calls whose Thread.start() is made to fail
        self.spawn_failed: set[int] = set()
        self.fn_exc: dict[int, BaseException] = {}  # the CancelledError a function let propagate (identity)
        self.finish_want: dict[int, tuple] = {}     # what run_sync must deliver, decided when the finish command is sent
        self.rt_expect: dict[int, bool] = {}        # kind 3: must the awaiting round trip be cancelled?
        self.rt_got: dict[int, object] = {}
        self.rt_reply: dict[int, tuple] = {}
        self.rt_task: dict[int, asyncio.Task] = {}
        self.cb_exc_delivered = 0                   # exceptions of from_thread callbacks that reached the thread
        self.observations: dict[str, int] = {}      # recorded, not violations
        self.skipped = 0                            # plan ops that were not enabled
        self.max_live = 0
        self.rt_bad: list[str] = []
        self.tlock = threading.Lock()
        self.texec: set[int] = set()                # thread-side view of executing functions

    # ------------------------------------------------------------------ thread side
    def fn(self, k: int):
        from anyio import from_thread

        th = threading.current_thread()
        with self.tlock:
            self.texec.add(k)
        self.loop.call_soon_threadsafe(self.on_started, k, th)
        try:
            while True:
                try:
                    cmd = self.cmdq[k].get(timeout=GATE_TIMEOUT)
                except queue.Empty:
                    raise TimeoutError("gate timeout") from None
                if cmd[0] == "cc":
                    r = 0
                    try:
                        from_thread.check_cancelled()
                    except CancelledError:
                        r = 1
                    self.loop.call_soon_threadsafe(self.on_cc, k, r)
                    continue
                if cmd[0] == "rt":
                    # from_thread.run() of a coroutine that really waits and then uses checkpoint_if_cancelled-based
                    # operations: reports whether its task was cancelled
                    try:
                        info = from_thread.run(self.probe, k)
                        rep = (0, info)
                    except (CancelledError, concurrent.futures.CancelledError):
                        # task_wrapper raises concurrent.futures.CancelledError, which asyncio's future chaining converts
                        # back into asyncio.CancelledError (a BaseException) for the waiting thread
                        rep = (1, None)
                    except BaseException as e:  # noqa: BLE001
                        rep = (2, repr(e))
                    self.loop.call_soon_threadsafe(self.on_rt, k, rep)
                    continue
                _, kind, v = cmd
                if kind == 0:
                    return v
                if kind == 1:
                    raise MyErr(v)
                if kind == 2:
                    raise StopIteration(v)
                if kind == 3:
                    # the coroutine ALWAYS waits; whether the round trip returns or is cancelled is a function of the
                    # handed scope chain (theorem C14_from_thread_run_spec), judged by final_monitors
                    try:
                        self.rt_got[k] = from_thread.run(self.acoro, v)
                    except (CancelledError, concurrent.futures.CancelledError):
                        self.rt_got[k] = "cancelled"
                    return v
                if kind == 4:
                    got = from_thread.run_sync(self.sfunc, v)
                    if got != (3 * v + 2, self.loop_thread):
                        self.rt_bad.append(f"from_thread.run_sync returned {got!r} in function {k}")
                    return v
                if kind == 5:
                    got = _cvar.get()
                    if got != 1000 + k:
                        self.rt_bad.append(f"contextvar in thread of call {k}: {got!r} instead of {1000 + k}")
                        return 7777
                    return v
                if kind == 6:
                    # the documented idiom: let check_cancelled()'s exception propagate out of the function
                    try:
                        from_thread.check_cancelled()
                    except CancelledError as e:
                        self.fn_exc[k] = e
                        raise
                    return v
                if kind == 7:
                    raise MyBase(v)
                if kind == 8:
                    raise FalsyErr(v)           # to_thread itself tests `exc is not None`: must arrive as is
                if kind in (9, 10):
                    # the callback run in the loop raises; the exception must come back to this thread.  Even values: an
                    # exception with a false truth value (F47), odd values: an ordinary one
                    exc_type = FalsyErr if v % 2 == 0 else MyErr
                    try:
                        if kind == 9:
                            got = from_thread.run_sync(self.raising_sync, exc_type, v)
                        else:
                            got = from_thread.run(self.raising_async, exc_type, v)
                        self.rt_bad.append(f"exception {exc_type.__name__}({v}) raised by the from_thread."
                                           f"{'run_sync' if kind == 9 else 'run'} callback of function {k} was not delivered "
                                           f"({got!r} returned)")
                    except (FalsyErr, MyErr) as e:
                        if type(e) is not exc_type or e.code != v:
                            self.rt_bad.append(f"from_thread callback of function {k} raised {exc_type.__name__}({v}) but "
                                               f"the thread received {e!r}")
                        self.cb_exc_delivered += 1
                    return v
                raise AssertionError(kind)
        finally:
            with self.tlock:
                self.texec.discard(k)

    async def acoro(self, v):
        for _ in range(3):
            await asyncio.sleep(0)
        return 2 * v + 1

    async def probe(self, k):
        import anyio
        from anyio.lowlevel import checkpoint_if_cancelled

        self.rt_task[k] = asyncio.current_task()
        info = {"pending": anyio.get_current_task().has_pending_cancellation()}
        for _ in range(3):                 # real suspensions: a pending cancellation is delivered within 2 cycles
            await asyncio.sleep(0)
        lock = anyio.Lock()                # built on checkpoint_if_cancelled(): must neither spin nor block (F42)
        await lock.acquire()
        lock.release()
        await checkpoint_if_cancelled()
        info["completed"] = True
        return info

    def on_rt(self, k, rep):
        self.rt_reply[k] = rep

    def sfunc(self, v):
        return (3 * v + 2, threading.get_ident())

    def raising_sync(self, exc_type, v):
        raise exc_type(v)

    async def raising_async(self, exc_type, v):
        raise exc_type(v)

    # ------------------------------------------------------------------ loop-side callbacks
    def on_started(self, k, th):
        if id(th) not in self.thread_index:
            self.threads.append(th)
            self.thread_index[id(th)] = len(self.threads)
        self.started[k] = th
        prev = self.last_on.get(id(th))
        self.prev[k] = 0 if prev is None else prev + 1
        self.last_on[id(th)] = k
        self.batch_started.append(th)
        for j, t2 in self.started.items():
            if j != k and t2 is th and j not in self.landed and j in self.texec:
                self.mon.append(f"worker #{self.thread_index[id(th)]} handed call {k} while call {j} executes on it")
        # monitor: the function runs while its caller holds a token.  The only legitimate way for a function to start
        # after its caller is gone is the early-cancel race of an abandon_on_cancel=True call (the worker dequeues the
        # item before the future is cancelled: ThreadStart -> WExec in the model) or a native cancellation of the caller
        t = self.task.get(k)
        if t is not None and not t.done() and t not in self.lim.statistics().borrowers:
            self.mon.append(f"function {k} started although its caller holds no limiter token")
        if t is not None and t.done() and not (self.abandon[k] or k in self.native):
            self.mon.append(f"function {k} started after its caller (abandon_on_cancel=False, not natively cancelled) ended")
        self.check_bound()

    def on_cc(self, k, r):
        self.cc_reply[k] = r

    def executing(self):
        """functions whose body is running in a thread right now (signalled start, thread-side not yet returned) - also
        while they are inside a from_thread round trip after the finish command was sent"""
        return [k for k in self.started if k in self.texec and k not in self.landed]

    def live_exec(self):
        """... whose caller still waits for them (= not abandoned, not torn away)"""
        return [k for k in self.executing() if not self.task[k].done()]

    def check_bound(self):
        live = self.live_exec()
        self.max_live = max(self.max_live, len(live))
        st = self.lim.statistics()
        borrowers, total = st.borrowers, st.total_tokens
        overfull = len(borrowers) > total     # only possible after total_tokens was lowered below the number of borrowers
        if not overfull and len(live) > total:
            self.mon.append(f"{len(live)} non-abandoned functions execute concurrently with total_tokens={total}, "
                            f"borrowed={len(borrowers)}: calls {sorted(live)}")
        for k in live:
            if self.task[k] not in borrowers:
                self.mon.append(f"function {k} executes (not abandoned) but its caller holds no token")
        # strong reading: functions of abandon_on_cancel=False calls, whatever happened to their callers
        na = [k for k in self.executing() if not self.abandon[k]]
        na_unexplained = [k for k in na if k not in self.native_running]
        if not overfull and len(na_unexplained) > total:
            self.mon.append(f"over-grant: {len(na_unexplained)} functions of abandon_on_cancel=False calls execute with "
                            f"total_tokens={total} and no native cancellation explains it: calls {sorted(na_unexplained)}")
        elif not overfull and len(na) > total:
            # documented scope (DESIGN 11.4, theorem C14_native_cancel_defeats_non_abandon): recorded, not a violation
            self.observe_fact("native_cancel_defeats_non_abandon")

    def observe_fact(self, name):
        self.observations[name] = self.observations.get(name, 0) + 1
        self.flags.add("obs_" + name)

    # ------------------------------------------------------------------ caller
    async def caller(self, c: int):
        from anyio import to_thread
        from anyio.lowlevel import checkpoint

        try:
            with ExitStack() as stack:
                for sc in reversed(self.scopes[c]):       # outermost first
                    stack.enter_context(sc)
                _cvar.set(1000 + c)
                try:
                    v = await to_thread.run_sync(self.fn, c, abandon_on_cancel=self.abandon[c],
                                                 limiter=self.lim if self.total else None)
                    self.outcome[c] = (0, v)
                except CancelledError as e:
                    # (5,0): the very CancelledError object the thread function raised; (2,0): a cancellation
                    self.outcome[c] = (5, 0) if e is self.fn_exc.get(c) else (2, 0)
                    if self.outcome[c] == (5, 0):
                        self.on_returned(c)
                    raise
                except MyErr as e:
                    self.outcome[c] = (3, e.code)
                except FalsyErr as e:
                    self.outcome[c] = (3, FALSY_CODE if e.code == self.finish_sent.get(c, (0, None))[1] else 998)
                except MyBase as e:
                    self.outcome[c] = (6, e.code)
                except RuntimeError as e:
                    # StopIteration cannot be raised into a Future (PEP 479): _report_result wraps it in RuntimeError.
                    # This is a deliberate deviation from "raises exactly the exception of the function" (audit M1).
                    ok = isinstance(e.__cause__, StopIteration) and "StopIteration" in str(e)
                    if str(e) == SPAWN_MSG:
                        self.outcome[c] = (9, 0)
                        self.spawn_failed.add(c)
                    else:
                        self.outcome[c] = (4, 0) if ok else (8, 0)
                except BaseException as e:  # noqa: BLE001
                    self.outcome[c] = (8, 0)
                    self.mon.append(f"call {c}: unexpected exception {e!r}")
                self.on_returned(c)
                try:
                    await checkpoint()
                    self.post[c] = 0
                except CancelledError:
                    self.post[c] = 1
                    raise
        except CancelledError:
            pass

    def on_returned(self, c):
        """run_sync returned or raised the function's exception (or failed to start a thread)"""
        if c in self.spawn_failed:
            if c in self.started:
                self.mon.append(f"call {c}: thread start failed but its function ran")
            return
        if c not in self.started:
            self.mon.append(f"call {c}: run_sync returned {self.outcome[c]} but its function was never run")
            return
        if c not in self.finish_sent:
            self.mon.append(f"call {c}: run_sync returned {self.outcome[c]} before its function finished")
        self.landed.add(c)
        self.my_idle.append(self.started[c])

    # ------------------------------------------------------------------ coordinator helpers
    async def until(self, cond, what: str):
        deadline = time.monotonic() + STEP_TIMEOUT
        n = 0
        while not cond():
            n += 1
            if n < 30:
                await asyncio.sleep(0)
            else:
                if time.monotonic() > deadline:
                    raise Hang(what)
                await asyncio.sleep(0.0003)

    def pool(self):
        from anyio._backends import _asyncio as A

        try:
            return A._threadpool_workers.get(), A._threadpool_idle_workers.get()
        except LookupError:
            return set(), []

    async def quiesce(self):
        while True:
            for _ in range(5):
                await asyncio.sleep(0)
            waited = False
            borrowers = self.lim.statistics().borrowers
            for c, t in self.task.items():
                if t.done():
                    continue
                if c in self.started:
                    if c in self.finish_sent:
                        await self.until(t.done, f"caller {c} did not finish after its function returned")
                        waited = True
                    continue
                if t in borrowers:
                    await self.until(lambda: c in self.started or t.done(),
                                     f"caller {c} holds a token but its function never started")
                    waited = True
            for k in list(self.finish_sent):
                if k in self.landed:
                    continue
                # the caller was cancelled (abandoned function): the only effect is the worker returning to the pool
                th = self.started[k]
                await self.until(lambda: (k not in self.texec) and (th in self.pool()[1] or th not in self.pool()[0]),
                                 f"worker of abandoned function {k} did not return to the idle deque")
                self.landed.add(k)
                self.my_idle.append(th)
                waited = True
            if not waited:
                break
        self.lifo_batch()

    def lifo_batch(self):
        """Within one step every worker that becomes idle does so before any function starts, so the workers reused by the
        k functions started in this step must be the top of the idle stack (all of it is dropped after one reuse when
        pruning); compared as sets because start signals of different threads arrive in a racy order."""
        used = self.batch_started
        self.batch_started = []
        if not used:
            return
        stack = self.my_idle
        if self.prune:
            want = stack[-1:] if stack else []
        else:
            want = stack[-min(len(used), len(stack)):] if stack else []
        reused = [t for t in used if any(t is x for x in stack)]
        if {id(t) for t in reused} != {id(t) for t in want}:
            self.mon.append(f"worker reuse not LIFO: {len(used)} functions started, reused workers "
                            f"{sorted(self.thread_index[id(t)] for t in reused)}, idle stack (bottom..top) "
                            f"{[self.thread_index[id(t)] for t in stack]}")
        if reused:
            self.flags.add("worker_reused")
            if self.prune:
                stack.clear()
            else:
                del stack[len(stack) - len(want):]
        if len(used) > len(reused):
            self.flags.add("worker_created")

    def observe(self, rc, rv):
        st = self.lim.statistics()
        ex = sum(1 << k for k in self.started if k not in self.landed)
        dn = sum(1 << c for c, t in self.task.items() if t.done())
        ws, idle = self.pool()
        return [rc, rv, st.borrowed_tokens, st.tasks_waiting, ex, dn, len(ws), len(idle)]

    def chain_of(self, c):
        return list(zip(self.cc[c], self.shields[c]))

    # ------------------------------------------------------------------ script ops
    async def do(self, code, a, b, d):
        import anyio

        if self.strict and (code, a, b) not in {(x[0], x[1], x[2]) for x in self.enabled()}:
            raise Hang(f"op {(OPN.get(code), a, b)} is not enabled here")
        rc, rv = 5, 0
        self.current_op = (code, a, b, d)
        b0 = set(self.lim.statistics().borrowers)
        if code == 0:
            self.shields.setdefault(a, []).insert(0, bool(b))
            self.cc.setdefault(a, []).insert(0, False)
            self.scopes.setdefault(a, []).insert(0, anyio.CancelScope(shield=bool(b)))
        elif code == 1:
            self.shields.setdefault(a, []); self.cc.setdefault(a, []); self.scopes.setdefault(a, [])
            self.abandon[a] = bool(b)
            self.cmdq[a] = queue.Queue()
            self.task[a] = asyncio.create_task(self.caller(a))
            rc = 1
        elif code == 3:
            before = walk(self.chain_of(a))
            self.cc[a][b] = True
            self.scopes[a][b].cancel()
            if walk(self.chain_of(a)):
                if a in self.task and a not in self.finish_sent:
                    self.cancel_before_finish.add(a)
                self.flags.add("cancel_effective")
                if a in self.started and a not in self.finish_sent:
                    self.flags.add("cancel_while_running_abandon" if self.abandon[a] else "cancel_while_running_shielded")
                elif a in self.task and not self.task[a].done() and a not in self.started:
                    self.flags.add("cancel_while_waiting_limiter")
                elif a not in self.task:
                    self.flags.add("cancel_before_call")
            elif not before:
                self.flags.add("cancel_hidden_by_shield")
        elif code == 6:
            cancelled_now = walk(self.chain_of(a))
            inside = not self.task[a].done()
            self.finish_sent[a] = (b, d)
            # what run_sync has to deliver to a caller that is still there (model-independent expectation)
            self.finish_want[a] = {1: (3, d), 2: (4, 0), 7: (6, d), 8: (3, FALSY_CODE)}.get(b, (0, d))
            if b == 6 and cancelled_now:
                self.finish_want[a] = (5, 0)        # check_cancelled raises for abandon on and off (walk of the chain)
            if b == 3:
                self.rt_expect[a] = walk(self.visible_handed(a, inside))
            if not inside:
                self.flags.add("finish_abandoned")
            self.cmdq[a].put(("fin", b, d))
        elif code == 7:
            self.cc_reply.pop(a, None)
            self.cmdq[a].put(("cc",))
            await self.until(lambda: a in self.cc_reply, f"function {a} did not answer check_cancelled")
            rc, rv = 6, self.cc_reply[a]
            want = 1 if walk(self.chain_of(a)) else 0
            if rv != want:
                self.mon.append(f"check_cancelled in the thread of call {a} {'raised' if rv else 'did not raise'} "
                                f"but the caller's scopes {self.chain_of(a)} are {'cancelled' if want else 'not cancelled'}")
            self.flags.add("cc_true" if rv else "cc_false")
            if rv and not self.abandon[a]:
                self.flags.add("cc_true_shielded")
        elif code == 8:
            if a < len(b0):
                self.flags.add("lowered_below_borrowed")
            self.cur_total = a
            self.lim.total_tokens = a
            self.flags.add("set_total")
        elif code == 10:
            running = a in self.started and a not in self.finish_sent
            self.native.add(a)
            if running:
                self.native_running.add(a)
                self.flags.add("native_cancel_running_abandon" if self.abandon[a] else "native_cancel_running_non_abandon")
            else:
                self.flags.add("native_cancel_waiting_limiter")
            self.task[a].cancel()
        elif code == 11:
            self.armed.add(a)
            self.shields.setdefault(a, []); self.cc.setdefault(a, []); self.scopes.setdefault(a, [])
        elif code == 12:
            inside = not self.task[a].done()
            want = 1 if walk(self.visible_handed(a, inside)) else 0
            self.rt_reply.pop(a, None)
            self.cmdq[a].put(("rt",))
            try:
                await self.until(lambda: a in self.rt_reply, f"from_thread.run() called by function {a} never returned "
                                                             f"(its coroutine spins or blocks)")
            except Hang:
                t = self.rt_task.get(a)
                if t is not None:
                    t.cancel()
                raise
            got, info = self.rt_reply[a]
            rc, rv = 7, got
            if got == 2:
                self.mon.append(f"from_thread.run() in function {a} raised {info}")
            elif got != want:
                self.mon.append(f"from_thread.run(awaiting coroutine) in the thread of call {a} (abandon={self.abandon[a]}, "
                                f"caller {'inside' if inside else 'gone'}) was {'cancelled' if got else 'not cancelled'} but the "
                                f"scopes visible from the handed scope {self.visible_handed(a, inside)} say "
                                f"{'cancelled' if want else 'not cancelled'}")
            elif got == 0 and info.get("pending"):
                self.mon.append(f"from_thread.run() task of call {a} reported has_pending_cancellation()=True but was never "
                                f"interrupted (F42 inconsistency)")
            self.flags.add("rt_cancelled" if got else "rt_completed")
            if not inside and self.abandon[a] and walk(self.chain_of(a)) and got == 0:
                # check_cancelled() (plain _parent_scope walk) would raise here, the round trip is not cancelled
                self.flags.add("rt_after_abandon_not_cancelled")
                self.observe_fact("abandoned_thread_check_cancelled_raises_but_from_thread_run_is_not_cancelled")
        else:
            raise AssertionError(code)
        await self.quiesce()
        obs = self.observe(rc, rv)
        self.ops += [code, a, b, d]
        self.outs += obs
        st = self.lim.statistics()
        b1 = set(st.borrowers)
        if st.total_tokens < len(b0) and (b1 - b0):
            self.mon.append(f"grant while over-full: total_tokens={st.total_tokens} < {len(b0)} borrowers before the step, "
                            f"yet {len(b1 - b0)} new borrower(s) appeared")
        if st.total_tokens <= len(b0) and len(b1) > len(b0):
            self.mon.append(f"grant while full: total_tokens={st.total_tokens}, borrowers went from {len(b0)} to {len(b1)}")
        self.step_monitors(obs)

    def visible_handed(self, c, inside):
        """[(cancel_called, shield)] from the scope handed to the worker through its VISIBLE ancestors: the call scope
        itself (never cancelled, shield = not abandon) when abandon or when the caller has no enclosing scope, else the
        enclosing scope; an exited scope has no visible ancestors (fix 1940035)."""
        chain = self.chain_of(c)
        handed = ([(False, not self.abandon[c])] + chain) if (self.abandon[c] or not chain) else chain
        return handed if inside else handed[:1]

    def step_monitors(self, obs):
        self.check_bound()
        if obs[3] > 0:
            self.flags.add("limiter_wait")
        # no cancellation before the function finished unless abandon_on_cancel=True AND a visible scope was cancelled -
        # or the caller was cancelled natively (documented scope, recorded as an observation)
        for c, t in self.task.items():
            if not (t.done() and c in self.started and c not in self.finish_sent):
                continue
            if c in self.native_running:
                if not self.abandon[c]:
                    self.observe_fact("native_cancel_interrupts_non_abandon_call")
            elif not self.abandon[c]:
                self.mon.append(f"caller {c} (abandon_on_cancel=False) finished while its function still executes")
            elif c not in self.cancel_before_finish:
                self.mon.append(f"caller {c} (abandon_on_cancel=True) finished while its function still executes although "
                                f"no scope visible to it was cancelled")
            else:
                self.flags.add("abandoned_running")
        # tokens = callers between acquire and release: a finished caller holds none
        borrowers = self.lim.statistics().borrowers
        for c, t in self.task.items():
            if t.done() and t in borrowers:
                self.mon.append(f"caller {c} is done but still holds a limiter token")
        if len(self.live_exec()) >= 2:
            self.flags.add("two_live_functions")

    def enabled(self):
        """script ops possible now (implementation-side view)"""
        en = []
        nxt = len(self.abandon)
        if nxt < self.ncalls:
            if len(self.shields.get(nxt, [])) < 3:
                en += [(0, nxt, 0, 0), (0, nxt, 1, 0)]
            en += [(1, nxt, 0, 0), (1, nxt, 1, 0)]
            if nxt not in self.armed:
                en.append((11, nxt, 0, 0))
            for i in range(len(self.shields.get(nxt, []))):
                if not self.cc[nxt][i]:
                    en.append((3, nxt, i, 0))
        for c, t in self.task.items():
            if not t.done():
                for i in range(len(self.shields[c])):
                    if not self.cc[c][i]:
                        en.append((3, c, i, 0))
            if not t.done() and c not in self.native and (c not in self.started or c not in self.finish_sent):
                en.append((10, c, 0, 0))
            if c in self.started and c not in self.finish_sent:
                en.append((7, c, 0, 0))
                en.append((12, c, 0, 0))
                for kind in range(NKINDS):
                    en.append((6, c, kind, 0))
        if self.total:
            for n in range(0, 5):
                if n != self.cur_total:
                    en.append((8, n, 0, 0))
        return en

    async def cleanup_ops(self):
        """finish everything through script ops so that the model sees the same history"""
        for _ in range(4 * self.ncalls + 8):
            ex = sorted(k for k in self.started if k not in self.finish_sent)
            if ex:
                await self.do(6, ex[0], 0, 50 + ex[0])
                continue
            pending = [c for c, t in self.task.items() if not t.done()]
            if pending and self.total and self.cur_total == 0:
                await self.do(8, 1, 0, 0)
                continue
            break

    # ------------------------------------------------------------------ main
    async def main(self):
        import anyio
        from anyio import to_thread

        self.loop = asyncio.get_running_loop()
        self.loop_thread = threading.get_ident()
        self.lim = anyio.CapacityLimiter(self.total) if self.total else to_thread.current_default_thread_limiter()
        try:
            if self.racy is not None:
                await self.racy(self)
            elif self.script is not None:
                for i in range(0, len(self.script), 4):
                    await self.do(*self.script[i:i + 4])
                self.enabled_at_end = self.enabled()
                if self.finish_all:
                    await self.cleanup_ops()
            else:
                while True:
                    o = self.chooser(self)
                    if o is None:
                        break
                    await self.do(*o)
                await self.cleanup_ops()
        except Hang as h:
            self.hang = str(h)
        finally:
            # never leave a thread or a task behind
            for k, q in self.cmdq.items():
                if k not in self.finish_sent:
                    q.put(("fin", 0, 0))
            if self.hang:
                for t in self.task.values():
                    t.cancel()
            pend = [t for t in self.task.values() if not t.done()]
            if pend:
                await asyncio.wait(pend, timeout=0.3)
                self.stuck = sorted(c for c, t in self.task.items() if not t.done())
                for t in pend:
                    t.cancel()
                await asyncio.wait(pend, timeout=1)
        if self.hang is None:
            self.final_monitors()

    def final_obs(self):
        out = []
        for c in range(self.ncalls):
            t = self.task.get(c)
            if t is None or not t.done() or c not in self.outcome:
                out += [7, 0, 0]
            else:
                k, v = self.outcome[c]
                out += [k, v, self.post.get(c, 0)]
            out.append(self.prev[c] if c in self.started else -1)
        return out

    def final_monitors(self):
        st = self.lim.statistics()
        if self.stuck:
            self.mon.append(f"callers {self.stuck} never finished although every function returned "
                            f"(limiter: {st.borrowed_tokens} borrowed, {st.tasks_waiting} waiting)")
        if st.borrowed_tokens != 0 or st.tasks_waiting != 0:
            self.mon.append(f"after every call ended the limiter has borrowed_tokens={st.borrowed_tokens}, "
                            f"tasks_waiting={st.tasks_waiting}")
        for c, t in self.task.items():
            if not t.done() or c not in self.outcome:
                continue
            k, v = self.outcome[c]
            effective = walk(self.chain_of(c))
            if c in self.spawn_failed or c in self.armed and k == 9:
                # Thread.start() failed: RuntimeError out of run_sync, nothing run, the caller goes on
                if c in self.started:
                    self.mon.append(f"call {c}: thread start failed but its function ran")
                if self.post.get(c, 0) != (1 if effective else 0):
                    self.mon.append(f"call {c} (thread start failed): checkpoint after the call cancelled={self.post.get(c)} "
                                    f"but the caller's scopes are {'cancelled' if effective else 'not cancelled'}")
                self.flags.add("spawn_failed")
                continue
            if c in self.native:
                # native Task.cancel(): the caller ends with CancelledError whatever abandon_on_cancel says; a result
                # that arrives (or had arrived but was not consumed yet) is dropped.  Documented scope, DESIGN 11.4.
                if k != 2:
                    self.mon.append(f"call {c} was natively cancelled but run_sync delivered {(k, v)}")
                if c in self.finish_sent:
                    self.flags.add("result_dropped_native")
                continue
            if c in self.finish_sent:
                kind, val = self.finish_sent[c]
                want = self.finish_want[c]
                dropped_ok = self.abandon[c] and c in self.cancel_before_finish
                if dropped_ok:
                    # abandon_on_cancel=True and a visible scope was cancelled while the function ran: at the settled points
                    # of a script the future is cancelled at once, so the caller MUST have ended cancelled (the "either
                    # outcome" of the dequeue race exists only in the monitor-only early-cancel scenario, which has no
                    # finish command after the cancellation)
                    if k == 2:
                        self.flags.add("result_dropped_abandoned")
                    elif self.racy is None:
                        self.mon.append(f"call {c} (abandon_on_cancel=True) was cancelled while its function ran but "
                                        f"run_sync still delivered {(k, v)}")
                elif k == 2:
                    if not self.abandon[c]:
                        self.mon.append(f"call {c} (abandon_on_cancel=False) ended cancelled: the result of its function "
                                        f"({KINDS[kind]} {val}) was dropped")
                    else:
                        self.mon.append(f"call {c} (abandon_on_cancel=True) ended cancelled although its function "
                                        f"finished with {KINDS[kind]} {val} and no cancellation preceded the finish")
                elif (k, v) != want:
                    self.mon.append(f"call {c}: function finished with {KINDS[kind]} {val} but run_sync delivered {(k, v)} "
                                    f"instead of {want}")
                else:
                    self.flags.add("result_" + KINDS[kind])
                    if k == 5:
                        self.flags.add("function_cancellederror_propagated")
                    if not self.abandon[c] and c in self.cancel_before_finish:
                        self.flags.add("deferred_cancel_result_returned")
                        if k != 5 and self.post.get(c) != 1:
                            self.mon.append(f"call {c}: cancellation requested during the shielded call was not "
                                            f"delivered at the caller's next checkpoint")
                # k == 5: the function's own CancelledError propagates like a cancellation, no checkpoint is reached
                if k not in (2, 5) and self.post.get(c, 0) != (1 if effective else 0):
                    self.mon.append(f"call {c}: checkpoint after the call cancelled={self.post.get(c)} but the "
                                    f"caller's scopes are {'cancelled' if effective else 'not cancelled'}")
                if kind == 3:
                    exp = self.rt_expect[c]
                    got = self.rt_got.get(c)
                    if exp and got != "cancelled":
                        self.mon.append(f"from_thread.run(awaiting coroutine) in function {c} returned {got!r} although the "
                                        f"scopes visible from the handed scope are cancelled")
                    elif not exp and got != 2 * val + 1:
                        self.mon.append(f"from_thread.run(awaiting coroutine) in function {c} gave {got!r} instead of "
                                        f"{2 * val + 1} (handed scope not cancelled)")
                    else:
                        self.flags.add("rt_in_finish_cancelled" if exp else "rt_in_finish_value")
            else:
                if k != 2:
                    self.mon.append(f"call {c} delivered {(k, v)} but its function never finished")
                elif not effective:
                    self.mon.append(f"call {c} ended cancelled but no visible scope was cancelled")
                elif c in self.started:
                    # a started function always gets a finish command (script or cleanup) before the run ends
                    self.mon.append(f"call {c}: its function started, never got a finish command, yet the run ended")
                else:
                    self.flags.add("cancelled_before_start")
        self.mon += self.rt_bad
        ws, idle = self.pool()
        lost = [w for w in ws if w not in idle]
        if lost:
            self.leak = (f"{len(lost)} of {len(ws)} worker threads are neither idle nor running a function after every "
                         f"call ended (never reusable, never pruned)")
        else:
            self.flags.add("pool_all_idle_at_end")

    def execute(self):
        import anyio
        from anyio._backends import _asyncio as A

        old = A.WorkerThread.MAX_IDLE_TIME
        old_start = A.WorkerThread.start
        run = self

        def start(worker, *a, **kw):
            # per-call "Thread.start() fails" (harness-side patch of the class attribute, nothing in /repo is touched)
            cur = asyncio.current_task()
            for c in run.armed:
                if run.task.get(c) is cur:
                    raise RuntimeError(SPAWN_MSG)
            return old_start(worker, *a, **kw)

        if self.prune:
            A.WorkerThread.MAX_IDLE_TIME = 0
        A.WorkerThread.start = start
        try:
            anyio.run(self.main, backend_options={"use_uvloop": self.uv})
        finally:
            A.WorkerThread.MAX_IDLE_TIME = old
            A.WorkerThread.start = old_start
        self.outs += self.final_obs()
        if self.mon or self.hang or self.leak:
            FAILED.append(self)
        return self

    def model_case(self):
        return [self.total if self.total else DEFAULT_TOTAL, 1 if self.prune else 0, self.ncalls, 1] + self.ops

    def replay(self):
        d = {"total": self.total, "prune": self.prune, "uvloop": self.uv, "ncalls": self.ncalls, "ops": self.ops,
             "ops_readable": readable(self.ops)}
        if self.hang and self.current_op:
            d["hanging_op"] = readable(list(self.current_op))
        if self.racy is not None:
            d["racy"] = getattr(self.racy, "desc", None)
        return d


# ---------------------------------------------------------------------------------------------------
# script generation
# ---------------------------------------------------------------------------------------------------

def random_chooser(rng: random.Random, nsteps: int, profile: dict):
    cnt = [0]

    def choose(r: Run):
        if cnt[0] >= nsteps:
            return None
        cnt[0] += 1
        en = r.enabled()
        if not en:
            return None
        ws = []
        for (code, a, b, d) in en:
            w = profile.get(code, 1.0)
            if code == 3:
                running = a in r.started and a not in r.finish_sent
                if running:
                    w *= 3.0
                if a not in r.task:
                    w *= 0.4
            if code == 7 and walk(r.chain_of(a)):
                w *= 3.0
            if code == 1 and len(r.live_exec()) >= r.cur_total:
                w *= 1.5          # more calls than tokens
            if code == 6:
                w /= float(NKINDS)
                if b == 6 and walk(r.chain_of(a)):
                    w *= 3.0
            if code == 8:
                w /= 4.0
            if code == 12 and (r.task[a].done() or walk(r.chain_of(a))):
                w *= 3.0
            ws.append(w)
        if sum(ws) <= 0:
            return None
        code, a, b, d = rng.choices(en, ws)[0]
        if code == 6:
            d = rng.randrange(0, 40)
        return (code, a, b, d)

    return choose


def random_run(rng: random.Random, uv: bool) -> Run:
    total = rng.choice([0, 1, 1, 1, 2, 2, 3])
    prune = rng.random() < 0.2
    ncalls = rng.choice([2, 3, 4, 5, 6])
    profile = {0: rng.choice([0.5, 1.5]), 1: 3.0, 3: rng.choice([0.7, 2.0]), 6: rng.choice([1.5, 3.0]),
               7: 1.2, 8: rng.choice([0.0, 0.0, 0.5]), 10: rng.choice([0.0, 0.3, 0.8]), 11: rng.choice([0.0, 0.3]),
               12: rng.choice([0.5, 1.2])}
    r = Run(total, prune, uv, ncalls, chooser=random_chooser(rng, rng.choice([6, 10, 14, 20, 28]), profile))
    return r.execute()


def plan_chooser(plan):
    """follow a list of intended ops, skipping those the implementation does not enable"""
    it = iter(plan)

    def choose(r: Run):
        en = r.enabled()
        keys = {(c, a, b) if c != 6 else (c, a, b) for (c, a, b, d) in en}
        for (c, a, b, d) in it:
            if (c, a, b) in keys:
                return (c, a, b, d)
            r.skipped += 1        # counted and reported in the evidence (plans are deliberately over-approximate)
            keys = {(c2, a2, b2) for (c2, a2, b2, d2) in r.enabled()}
        return None

    return choose


def directed_plans():
    """two calls; every combination of limiter size, abandon flags, scope shapes, cancellation moments, finish order"""
    import itertools

    plans = []
    shapes = [[], [0], [1], [0, 0], [1, 0], [0, 1]]     # shields, outermost first (Scope ops push inwards)
    kinds = itertools.cycle(range(6))
    for total, ab0, ab1, shape, cmoment, order in itertools.product(
            (1, 2, 0), (0, 1), (0, 1), shapes, ("none", "before", "running_inner", "running_outer", "waiting1"), (0, 1)):
        if cmoment != "none" and not shape and cmoment != "waiting1":
            continue
        p = [(0, 0, sh, 0) for sh in shape]
        n = len(shape)
        if cmoment == "before":
            p.append((3, 0, 0, 0))
        p.append((1, 0, ab0, 0))
        p += [(0, 1, 0, 0), (1, 1, ab1, 0)]
        p.append((7, 0, 0, 0))
        if cmoment == "running_inner":
            p.append((3, 0, 0, 0))
        if cmoment == "running_outer":
            p.append((3, 0, n - 1, 0))
        if cmoment == "waiting1":
            p.append((3, 1, 0, 0))
        p += [(7, 0, 0, 0), (7, 1, 0, 0)]
        first, second = (0, 1) if order == 0 else (1, 0)
        p.append((6, first, next(kinds), 11 + first))
        p.append((7, second, 0, 0))
        p.append((6, second, next(kinds), 21 + second))
        plans.append((total, p))
    # exit paths and payloads added after the audit (section 4.2): thread start failure, native cancellation in the wait
    # queue / while running, the function's own CancelledError, BaseException, from_thread.run under every handed chain,
    # the abandoned thread calling from_thread.run (F42 on the thread boundary)
    for total, ab0, ab1, variant in itertools.product((1, 2), (0, 1), (0, 1), range(8)):
        if variant == 0:      # thread start fails for the first call; the second one must still work
            p = [(11, 0, 0, 0), (0, 0, 0, 0), (1, 0, ab0, 0), (1, 1, ab1, 0), (12, 1, 0, 0), (6, 1, 3, 7)]
        elif variant == 1:    # ... for the second call (only if it needs a new thread)
            p = [(1, 0, ab0, 0), (11, 1, 0, 0), (1, 1, ab1, 0), (6, 0, 0, 1), (6, 1, 1, 2)]
        elif variant == 2:    # native cancel of a running call, then a further call under the same limiter
            p = [(0, 0, 0, 0), (1, 0, ab0, 0), (1, 1, ab1, 0), (10, 0, 0, 0), (12, 0, 0, 0), (7, 0, 0, 0), (0, 2, 0, 0),
                 (1, 2, 0, 0), (6, 0, 3, 4), (6, 1, 0, 5), (6, 2, 4, 6)]
        elif variant == 3:    # native cancel while waiting for the limiter (total=1) / running (total=2)
            p = [(1, 0, ab0, 0), (1, 1, ab1, 0), (10, 1, 0, 0), (6, 0, 7, 3), (6, 1, 0, 4)]
        elif variant == 4:    # F42: the caller is cancelled away, then the thread calls from_thread.run / check_cancelled
            p = [(0, 0, 0, 0), (1, 0, ab0, 0), (12, 0, 0, 0), (3, 0, 0, 0), (12, 0, 0, 0), (7, 0, 0, 0), (6, 0, 3, 9),
                 (1, 1, ab1, 0), (6, 1, 6, 2)]
        elif variant == 5:    # the function lets check_cancelled()'s CancelledError propagate, with and without cancellation
            p = [(0, 0, 1, 0), (0, 0, 0, 0), (1, 0, ab0, 0), (0, 1, 0, 0), (1, 1, ab1, 0), (3, 0, 0, 0), (6, 0, 6, 8),
                 (6, 1, 6, 9)]
        elif variant == 6:    # cancelled scope hidden by an inner shield: round trip and check_cancelled both unaffected
            p = [(0, 0, 0, 0), (0, 0, 1, 0), (1, 0, ab0, 0), (3, 0, 1, 0), (12, 0, 0, 0), (7, 0, 0, 0), (6, 0, 3, 3),
                 (1, 1, ab1, 0), (6, 1, 7, 1)]
        else:                 # lower the total below the number of borrowers: nothing new may start until the excess drained
            p = [(1, 0, ab0, 0), (1, 1, ab1, 0), (1, 2, 0, 0), (8, 0, 0, 0), (1, 3, 0, 0), (6, 0, 0, 1), (8, 1, 0, 0),
                 (6, 1, 0, 2), (6, 2, 0, 3), (6, 3, 0, 4)]
        plans.append((total, p))
    return plans


def exhaustive_runs(total: int, ncalls: int, depth: int, uv: bool, budget: int):
    """all op sequences (restricted alphabet) up to `depth` that the implementation enables, by replay"""
    results = []
    count = [0]

    def allowed(o, r):
        c, a, b, d = o
        if c == 0:
            return len(r.shields.get(a, [])) < 1 and b == 0
        # restricted alphabet (stated in the evidence as `exhaustive_alphabet`): at most one enclosing scope, unshielded;
        # finish kinds return / raise / propagate-check_cancelled; no total_tokens changes, no armed start failure, no
        # RunAsync (those are covered by the directed family and the random walks)
        if c == 6:
            return b in (0, 1, 6)
        if c in (8, 11, 12):
            return False
        return True

    def rec(prefix):
        if count[0] >= budget or plenty():
            return
        count[0] += 1
        r = Run(total, False, uv, ncalls, script=list(prefix))
        r.execute()
        if len(prefix) // 4 >= depth or r.hang:
            results.append(r)
            return
        en = [o for o in r.enabled_at_end if allowed(o, r)]
        if not en:
            results.append(r)
            return
        results.append(r)
        for o in en:
            rec(prefix + list(o))

    rec([])
    return results


# ---------------------------------------------------------------------------------------------------
# races that cannot be made deterministic (monitors only)
# ---------------------------------------------------------------------------------------------------

def racy_early_cancel(n: int, abandon: bool):
    """The caller's scope is cancelled while the caller sits in the limiter's shielded checkpoint, i.e. before the call
    scope exists.  abandon=False: deterministic on the loop side (the function must run, its result be returned, the
    cancellation be delivered afterwards).  abandon=True: a genuine race between the worker dequeuing the item and the
    future being cancelled; either way the token must come back and nothing may hang."""

    async def scenario(r: Run):
        import anyio

        for c in range(n):
            r.shields[c] = [False]; r.cc[c] = [False]
            r.scopes[c] = [anyio.CancelScope()]
            r.abandon[c] = abandon
            r.cmdq[c] = queue.Queue()
            r.cmdq[c].put(("fin", 0, 100 + c))          # the function returns at once if it ever starts
            r.finish_sent[c] = (0, 100 + c)
            r.finish_want[c] = (0, 100 + c)
            r.task[c] = asyncio.create_task(r.caller(c))
            for _ in range(2):                              # caller: checkpoint(); acquire -> shielded yield
                await asyncio.sleep(0)
            r.cc[c][0] = True
            r.scopes[c][0].cancel()
            r.cancel_before_finish.add(c)
            await r.until(r.task[c].done, f"early-cancelled caller {c} never finished")
            if r.lim.borrowed_tokens != 0:
                r.mon.append(f"early-cancelled call {c} (abandon={abandon}): borrowed_tokens={r.lim.borrowed_tokens} after it ended")
            if not abandon and r.outcome.get(c) != (0, 100 + c):
                r.mon.append(f"early-cancelled shielded call {c}: outcome {r.outcome.get(c)} instead of the function's result")
            if not abandon and r.post.get(c) != 1:
                r.mon.append(f"early-cancelled shielded call {c}: pending cancellation not delivered at the next checkpoint")
            if abandon and c in r.started:
                r.flags.add("early_cancel_function_ran")
            if abandon and c not in r.started:
                r.flags.add("early_cancel_item_skipped")
        await r.until(lambda: not r.texec, "functions of early-cancelled calls never returned")
        # every worker - whether it ran the function or skipped the cancelled item - must come back to the idle deque
        deadline = time.monotonic() + 1.5
        while time.monotonic() < deadline:
            ws, idle = r.pool()
            if all(w in idle for w in ws):
                break
            await asyncio.sleep(0.001)
        r.landed |= set(r.started)

    scenario.desc = {"scenario": "racy_early_cancel", "n": n, "abandon": abandon,
                     "history": "per call: caller task started in a fresh CancelScope; after two loop cycles (caller in the "
                                "limiter's shielded checkpoint) the scope is cancelled; the thread function, if it starts at "
                                "all, returns at once"}
    return scenario


def racy_early_native_cancel(n: int):
    """Native Task.cancel() while the caller sits in the limiter's shielded checkpoint (token held, call scope not yet
    entered; model: NativeCancel in PLimYield).  Deterministic on the loop side: CancelledError out of run_sync, the token
    is given back by `except BaseException: release_on_behalf_of`, no item is ever queued, no function runs."""

    async def scenario(r: Run):
        for c in range(n):
            r.shields[c] = []; r.cc[c] = []; r.scopes[c] = []
            r.abandon[c] = bool(c % 2)
            r.cmdq[c] = queue.Queue()
            r.cmdq[c].put(("fin", 0, 100 + c))
            r.task[c] = asyncio.create_task(r.caller(c))
            for _ in range(2):                              # caller: checkpoint(); acquire -> shielded yield
                await asyncio.sleep(0)
            if r.lim.borrowed_tokens != 1:
                r.mon.append(f"early native cancel {c}: expected the caller to hold its token in the shielded checkpoint, "
                             f"borrowed_tokens={r.lim.borrowed_tokens}")
            r.native.add(c)
            r.task[c].cancel()
            await r.until(r.task[c].done, f"natively cancelled caller {c} never finished")
            for _ in range(3):
                await asyncio.sleep(0)
            if r.lim.borrowed_tokens != 0:
                r.mon.append(f"early native cancel {c}: borrowed_tokens={r.lim.borrowed_tokens} after the caller ended")
            if r.outcome.get(c) != (2, 0):
                r.mon.append(f"early native cancel {c}: outcome {r.outcome.get(c)} instead of CancelledError")
            if c in r.started or c in r.texec:
                r.mon.append(f"early native cancel {c}: the function ran although the caller never entered the call scope")
            r.flags.add("native_cancel_in_limiter_checkpoint")
        ws, idle = r.pool()
        if len(ws) != 0:
            r.mon.append(f"early native cancel: {len(ws)} worker threads were created although no call entered the call scope")

    scenario.desc = {"scenario": "racy_early_native_cancel", "n": n,
                     "history": "per call: caller task started; after two loop cycles (caller in the limiter's shielded "
                                "checkpoint, token held) Task.cancel()"}
    return scenario


# ---------------------------------------------------------------------------------------------------
# the check
# ---------------------------------------------------------------------------------------------------

def shrink(r: Run, msg: str, budget: int = 40) -> Run:
    """drop script ops while a monitor message of the same kind still appears"""
    if r.racy is not None or r.hang:
        return r
    key = re.sub(r"\d+", "#", msg)[:40]
    best = r
    ops = list(r.ops)
    i = len(ops) - 4
    while i >= 0 and budget > 0:
        cand = ops[:i] + ops[i + 4:]
        budget -= 1
        try:
            rr = Run(r.total, r.prune, r.uv, r.ncalls, script=cand)
            rr.strict = True
            rr.execute()
            FAILED.pop() if FAILED and FAILED[-1] is rr else None
            bad = cand != rr.ops[:len(cand)]
        except Exception:  # noqa: BLE001  (a script that is no longer executable)
            bad = True
        if not bad and any(re.sub(r"\d+", "#", m)[:40] == key for m in rr.mon):
            ops = cand
            best = rr
        i -= 4
    return best


# ---------------------------------------------------------------------------------------------------
# F51 (known finding): from_thread call-back landing after the loop's last iteration
# ---------------------------------------------------------------------------------------------------

F51_PREDICATE = "from_thread_landed_after_loop_end"


def known_finding_entry(predicate: str):
    """known_findings.json is only ever read (VERIF_KNOWN_FINDINGS overrides the path, as in c15.py)"""
    import os
    from pathlib import Path

    path = Path(os.environ.get("VERIF_KNOWN_FINDINGS") or (core.VERIF / "known_findings.json"))
    try:
        data = json.loads(path.read_text())
    except Exception:  # noqa: BLE001
        return None
    for f in data.get("findings", []):
        if f.get("property") == "C14" and f.get("status") == "known" \
                and (f.get("match") or {}).get("predicate") == predicate:
            return f
    return None


def loop_end_scenarios():
    """Runs harness/c14_loopend.py (4 subprocesses: from_thread.run_sync / run on the stock loop and on uvloop), each with a hard
    timeout; returns (results, problems) - problems are harness-level failures (no answer)."""
    import subprocess

    script = str(core.VERIF / "harness" / "c14_loopend.py")
    procs = []
    for kind in ("run_sync", "run"):
        for uv in (0, 1):
            procs.append((kind, uv, subprocess.Popen([core.PY, script, kind, str(uv)], env=core.impl_env(),
                                                     stdout=subprocess.PIPE, stderr=subprocess.DEVNULL, text=True)))
    results, problems = [], []
    for kind, uv, p in procs:
        try:
            out, _ = p.communicate(timeout=45)
        except subprocess.TimeoutExpired:
            p.kill()
            problems.append(f"loop-end scenario {kind}/uvloop={uv}: no answer within 45 s")
            continue
        line = next((ln for ln in out.splitlines() if ln.startswith("{")), None)
        if line is None:
            problems.append(f"loop-end scenario {kind}/uvloop={uv}: no result (exit code {p.returncode})")
            continue
        results.append(json.loads(line))
    return results, problems


def judge_loop_end(rep, results, problems):
    """control phases must behave; the after_end phase is F51: stuck => KNOWN-FINDING if (and only if) the predicate is
    listed in known_findings.json, RunFinishedError => fine (fixed), anything else => VIOLATION"""
    entry = known_finding_entry(F51_PREDICATE)
    summary = {"runs": len(results), "stuck": 0, "refused_with_RunFinishedError": 0, "known_entry": bool(entry),
               "reached_call_in_every_stuck_run": True}
    for msg in problems:
        rep.violation(msg, {"kind": "harness", "scenario": "c14_loopend"}, no_input=True)
    for r in results:
        tag = f"from_thread.{r['kind']} on {'uvloop' if r['uvloop'] else 'stock asyncio'}"
        replay = {"kind": "directed", "scenario": "harness/c14_loopend.py " + r["kind"] + " " + str(int(r["uvloop"])),
                  "result": r}
        if r.get("error"):
            rep.violation(f"loop-end scenario ({tag}) failed: {r['error']}", replay)
            continue
        ph = {p["when"]: p for p in r["phases"]}
        if ph["during"]["outcome"] != ["returned", "value"]:
            rep.violation(f"{tag} called from the thread while the loop runs gave {ph['during']['outcome']} instead of the value",
                          replay)
        if ph["after_close"]["outcome"] != ["raised", "RunFinishedError"]:
            rep.violation(f"{tag} called after loop.close() gave {ph['after_close']['outcome']} instead of RunFinishedError", replay)
        if not ph["after_end"].get("abandoned"):
            rep.violation(f"loop-end scenario ({tag}): the call was not abandoned as intended", replay)
            continue
        oc = ph["after_end"]["outcome"]
        if not ph["after_end"].get("reached_call"):
            # not F51: the abandoned worker never got as far as from_thread.run/run_sync - untagged
            rep.violation(f"loop-end scenario ({tag}): the abandoned worker never reached the call-back (outcome {oc})", replay)
        elif oc[0] == "stuck":
            summary["stuck"] += 1
            if entry:
                rep.known_finding(f"{entry['what']} [{entry['id']}, predicate {F51_PREDICATE}]")
            else:
                rep.violation(f"{tag} from an abandoned worker thread, handed over after the loop's last iteration and before "
                              f"close(), waits for ever: neither a value nor RunFinishedError (predicate {F51_PREDICATE} is "
                              f"not listed as a known finding)", replay)
        elif oc == ["raised", "RunFinishedError"]:
            summary["refused_with_RunFinishedError"] += 1
        else:
            rep.violation(f"{tag} from an abandoned worker thread after the loop's last iteration gave {oc}", replay)
    return summary


def clean(outs):
    return [x if isinstance(x, int) and not isinstance(x, bool) else 9999 for x in outs]


def check(tier: str) -> int:
    FAILED.clear()
    rep = core.Report("C14", tier)
    rep.assumptions = core.TRUSTED_BASE_COMMON + [
        "PARTIAL (boundary property): the OS thread running the user's function is an oracle - its interactions with the loop "
        "(item dequeued, _report_result landing via call_soon_threadsafe, check_cancelled()) are environment ops chosen freely; "
        "theorems hold for every choice",
        "model boundary/Threads.v hand-written from _asyncio.py (AsyncIOBackend.run_sync_in_worker_thread, WorkerThread._report_result/run, AsyncIOBackend.check_cancelled, CapacityLimiter); cancel scopes abstracted to the "
        "caller's chain of (cancel_called, shield) flags; cancellation reaches a caller suspended in sleep(0) when it resumes "
        "(FIFO loops: the _deliver_cancellation retry precedes the task's step)",
        "not exhibited by the model, exercised here with REAL threads and monitors only: preemptive interleavings inside the "
        "thread function, the GIL, queue.Queue/call_soon_threadsafe delivery, context-variable copying, the VALUES of "
        "from_thread.run / from_thread.run_sync round trips (whether an awaiting from_thread.run is cancelled IS modelled: "
        "ThreadRunAsync, C14_from_thread_run_spec), the race 'worker dequeues the item' vs 'future cancelled' (abandon_on_cancel=True, "
        "early cancel; both outcomes are in the model: ThreadStart -> WExec or WSkip/ThreadReturn, only the choice is the runtime's), idle-worker pruning by wall-clock age (only MAX_IDLE_TIME=0 'prune everything' is modelled), "
        "worker shutdown at the end of the root task",
        "real threads are not steppable: each script step waits for a definite effect (function signalled start / caller done / "
        "worker back in the idle deque) with a 5 s timeout; a timeout is reported as a failure, never waited out",
    ]
    rep.assumptions += [
        "KNOWN FINDING F51 (known_findings.json, predicate from_thread_landed_after_loop_end; Coq "
        "C14_from_thread_landed_after_loop_end_refuted): from_thread.run()/run_sync() from an abandoned worker thread handed "
        "over after the loop's last iteration and before close() waits for ever.  Reproduced deterministically by "
        "harness/c14_loopend.py (subprocess, hard timeout, os._exit) on stock asyncio and uvloop; printed as KNOWN-FINDING "
        "only while the predicate is listed, otherwise a VIOLATION; the positive theorem C14_from_thread_run_spec carries the "
        "hypothesis `ended s = false`",
        "documented scope (DESIGN 11.4): AnyIO shields do not stop a native Task.cancel().  The model has the op NativeCancel; "
        "the strong bound 'functions of abandon_on_cancel=False calls <= total' is proved under the boolean hypothesis "
        "no_native_cancel_while_running and refuted without it (C14_native_cancel_defeats_non_abandon); the harness generates "
        "it on real threads and records it as observation native_cancel_defeats_non_abandon - every over-grant that is not "
        "explained by a native cancellation of that very caller while its function ran is a VIOLATION",
        "the limiter bound is checked without any sticky exemption: whenever borrowed_tokens <= total_tokens at the time of "
        "the check, executing non-abandoned functions must be <= total_tokens; a step that starts with more borrowers than "
        "the new total must not add a borrower (C14_no_grant_while_full)",
    ]
    proofs_ok = core.proof_stage(rep, "props/C14.v")
    exe = core.build_driver("threads", "Threads")
    rng = random.Random(core.seed())

    runs: list[Run] = []
    corpus_dir = core.VERIF / "corpus" / "C14"
    n_corpus = 0
    racy: list[Run] = []
    model_only = []        # (name, raw model case, expected output): witnesses evaluated by the model alone
    if corpus_dir.exists():
        for f in sorted(corpus_dir.glob("*.json")):
            c = json.loads(f.read_text())
            n_corpus += 1
            if "model_raw_case" in c:
                model_only.append((f.name, c["model_raw_case"], c["model_expected"]))
            if c.get("kind") == "racy_early_native_cancel":
                for uv in (False, True):
                    racy.append(Run(1, False, uv, 0, racy=racy_early_native_cancel(c["n"])).execute())
                continue
            if c.get("kind") == "racy_early_cancel":
                for uv in (False, True):
                    racy.append(Run(2, False, uv, 0, racy=racy_early_cancel(c["n"], bool(c["abandon"]))).execute())
                continue
            if "ops" not in c:
                continue                      # model-only witness (and/or a pointer to a directed scenario)
            plan = [tuple(c["ops"][i:i + 4]) for i in range(0, len(c["ops"]), 4)]
            # ops the (unchanged) implementation does not enable at that point are skipped, cf. plan_chooser
            runs.append(Run(c["total"], bool(c["prune"]), bool(c.get("uvloop")), c["ncalls"],
                            chooser=plan_chooser(plan)).execute())
            if runs[-1].skipped and not c["what"].startswith("kills mutant"):
                rep.notes.append(f"corpus {f.name}: {runs[-1].skipped} op(s) were not enabled and skipped")
    # directed family (small scope, all combinations)
    plans = directed_plans()
    if tier == "quick":
        plans = plans[rng.randrange(3)::3]
    for i, (total, p) in enumerate(plans):
        if plenty():
            break
        runs.append(Run(total, False, i % 8 == 0, 4, chooser=plan_chooser(p)).execute())
    n_directed = len(plans)
    # random walks
    n_random = 600 if tier == "quick" else 7000
    for i in range(n_random):
        if plenty():
            break
        runs.append(random_run(rng, uv=(i % 6 == 0)))
    # exhaustive small scope by replay
    if tier == "quick":
        ex_spec = [(1, 2, 3, False, 700)]
    else:
        ex_spec = [(1, 2, 5, False, 9000), (2, 2, 4, True, 3000)]
    ex = []
    ex_truncated = False
    for (tot_, nc_, depth_, uv_, budget_) in ex_spec:
        part = exhaustive_runs(tot_, nc_, depth_, uv_, budget_)
        ex_truncated |= len(part) >= budget_
        ex += part
    runs += ex

    # races: monitors only
    for uv in ((False, True) if not plenty() else ()):
        racy.append(Run(2, False, uv, 0, racy=racy_early_cancel(12 if tier == "quick" else 60, False)).execute())
        racy.append(Run(2, False, uv, 0, racy=racy_early_cancel(25 if tier == "quick" else 150, True)).execute())
        racy.append(Run(1, False, uv, 0, racy=racy_early_native_cancel(10 if tier == "quick" else 60)).execute())

    le_results, le_problems = loop_end_scenarios()

    cases = [r.model_case() for r in runs]
    expected = [clean(r.outs) for r in runs]
    model_outs = core.run_driver(exe, cases)
    disagreements = []
    for r, c, e, m in zip(runs, cases, expected, model_outs):
        if r.hang:
            continue
        if e != m:
            k = next((i for i in range(min(len(e), len(m))) if e[i] != m[i]), min(len(e), len(m)))
            disagreements.append({**r.replay(), "impl": e, "model": m, "first_diff_step": k // 8})
    model_only_bad = []
    if model_only:
        got = core.run_driver(exe, [c for (_, c, _) in model_only])
        model_only_bad = [n for (n, _, e), g in zip(model_only, got) if g != e]
    rejected = sum(1 for m, r in zip(model_outs, runs) for i in range(0, len(r.ops) // 4 * 8, 8) if i < len(m) and m[i] == 9)

    sample_n = 30 if tier == "quick" else 300
    idx = [i for i in range(len(cases)) if not runs[i].hang]
    rng.shuffle(idx)
    idx = idx[:sample_n]
    vm_ok, vm_log = core.coq_eval_cases("c14", "Threads", [cases[i] for i in idx], [model_outs[i] for i in idx])
    vm_vs_impl = sum(1 for i in idx if model_outs[i] == expected[i])

    # ---- decide ----
    hits = [(r, msg) for r in runs + racy for msg in r.mon]
    hangs = [r for r in runs + racy if r.hang]
    leaks = [r for r in runs + racy if r.leak]
    seen_kinds = set()
    for r, msg in sorted(hits, key=lambda h: len(h[0].ops)):
        kind = re.sub(r"\d+", "#", msg)[:40]
        if kind in seen_kinds or len(seen_kinds) >= 4:
            continue
        seen_kinds.add(kind)
        rs = shrink(r, msg)
        m2 = next((m for m in rs.mon if re.sub(r"\d+", "#", m)[:40] == kind), msg)
        rep.violation(m2, {"kind": "monitor", **rs.replay(), "racy_scenario": r.racy is not None,
                           "all_messages": rs.mon[:6]})
    for r in hangs[:3]:
        rep.violation("step effect not observed within the timeout: " + r.hang,
                      {"kind": "hang", **r.replay(), "racy_scenario": r.racy is not None})
    for r in leaks[:2]:
        rep.violation("worker pool: " + r.leak, {"kind": "monitor", **r.replay(), "racy_scenario": r.racy is not None})
    loop_end_summary = judge_loop_end(rep, le_results, le_problems)
    tie_broken = []
    if not proofs_ok:
        tie_broken.append("proof obligation: " + str(rep.coverage.get("proof_failure", {}).get("where")))
    if disagreements:
        tie_broken.append("correspondence Threads.run_case vs anyio.to_thread.run_sync")
    if rejected:
        tie_broken.append(f"model rejected {rejected} ops the implementation performed")
    if not vm_ok:
        tie_broken.append("vm_compute sample disagrees with the extracted model")
    if model_only_bad:
        tie_broken.append(f"model witnesses of the corpus no longer evaluate as recorded: {model_only_bad}")
    if tie_broken and not hits and not hangs and not leaks:
        d = min(disagreements, key=lambda d: len(d["ops"])) if disagreements else None
        rep.violation("; ".join(tie_broken), {"kind": "tie", "broken": tie_broken, "case": d}, no_input=True)

    flags: dict[str, int] = {}
    for r in runs + racy:
        for f in r.flags:
            flags[f] = flags.get(f, 0) + 1
    # recorded facts that are NOT violations (documented scope / design decisions), each with a corpus witness
    obs_text = {
        "native_cancel_defeats_non_abandon":
            "DESIGN 11.4 / C14_native_cancel_defeats_non_abandon: a native Task.cancel() of an abandon_on_cancel=False caller "
            "whose function runs releases its token at once; more functions of non-abandon calls than total_tokens then "
            "execute (witness corpus/C14/obs_native_cancel_defeats_non_abandon.json)",
        "native_cancel_interrupts_non_abandon_call":
            "same scope: the natively cancelled non-abandon caller ends before its function finished, the result is dropped",
        "abandoned_thread_check_cancelled_raises_but_from_thread_run_is_not_cancelled":
            "after abandonment (caller gone) from_thread.check_cancelled() still raises (plain _parent_scope walk) while a "
            "from_thread.run() coroutine is attached to the exited call scope, which has no visible parent since fix 1940035 "
            "(F42): it is neither cancelled nor spinning (witness corpus/C14/f42_abandoned_thread_from_thread_run.json)",
    }
    observations = {}
    for r in runs + racy:
        for k, n in r.observations.items():
            observations.setdefault(k, {"count": 0, "runs": 0, "meaning": obs_text.get(k, "")})
            observations[k]["count"] += n
            observations[k]["runs"] += 1
    observations["from_thread_run_cancelled_under_cancelled_uninterruptible_caller"] = {
        "runs": flags.get("rt_cancelled", 0) + flags.get("rt_in_finish_cancelled", 0),
        "meaning": "from_thread.run(coroutine that waits) from the thread of an abandon_on_cancel=False call whose enclosing "
                   "scope is (effectively) cancelled raises CancelledError (asyncio.CancelledError, a BaseException) in the "
                   "thread instead of returning the value; from_thread.run_sync and non-waiting coroutines return normally.  "
                   "Expected result = walk of the scopes visible from the handed scope (C14_from_thread_run_spec); judged "
                   "against that, not exempted (witness corpus/C14/obs_from_thread_run_cancelled.json)"}
    observations["StopIteration_is_wrapped_in_RuntimeError"] = {
        "runs": flags.get("result_StopIteration", 0),
        "meaning": "deviation from 'raises exactly the exception of the function': PEP 479, a Future cannot carry StopIteration"}
    interesting = {"limiter_wait", "cancel_while_running_abandon", "cancel_while_running_shielded",
                   "cancel_while_waiting_limiter", "cc_true", "result_dropped_abandoned", "deferred_cancel_result_returned"}
    distinct = len({tuple(c) for c, r in zip(cases, runs) if r.flags & interesting})
    opcount: dict[str, int] = {}
    for r in runs:
        for i in range(0, len(r.ops), 4):
            opcount[OPN[r.ops[i]]] = opcount.get(OPN[r.ops[i]], 0) + 1
    sizes: dict[str, int] = {}
    for r in runs:
        key = f"total={r.total or 'default40'}"
        sizes[key] = sizes.get(key, 0) + 1
    rep.coverage.update({
        "trusted_base": rep.assumptions,
        "evaluations": len(runs) + len(racy),
        "programs": len(runs) + len(racy),
        "traces_validated_against_impl": len(runs) - len(disagreements) - len([r for r in runs if r.hang]),
        "disagreements_checked": len(disagreements),
        "distinct_nontrivial": distinct,
        "rule": "scripts of Scope/Call/CancelCaller/FinishCall(kind,value)/CheckCancelled/SetTotal executed with REAL worker "
                "threads on the stock asyncio loop and on uvloop; thread functions gated by queues the coordinator feeds; every "
                "step waits for its observable effect; directed family = all combinations of limiter size (1,2,default), "
                "abandon flags, scope shapes, cancellation moment and finish order for two calls; random walks over the ops the "
                "implementation enables (2-6 calls, limiter 1..3 or default, more calls than tokens, prune on/off); exhaustive "
                "replay of all enabled sequences to a fixed depth; non-trivial = reaches a limiter wait, a cancellation while "
                "running/waiting, a raising check_cancelled, a dropped or a deferred result",
        "directed_cases": n_directed,
        "random_cases": n_random,
        "exhaustive_small_scope_cases": len(ex),
        "exhaustive_scopes": [{"total": t_, "calls": n_, "depth": d_, "uvloop": u_} for (t_, n_, d_, u_, _) in ex_spec],
        "exhaustive_truncated_by_budget": ex_truncated,
        "racy_monitor_only_runs": len(racy),
        "corpus_cases": n_corpus,
        "known_finding_F51_loop_end_scenarios": loop_end_summary,
        "corpus_model_witnesses": len(model_only),
        "uvloop_cases": sum(1 for r in runs + racy if r.uv),
        "reached": flags,
        "observations_recorded_not_violations": observations,
        "plan_ops_skipped_because_not_enabled": sum(r.skipped for r in runs),
        "exhaustive_alphabet": "Scope (<=1 per call, unshielded), Call (abandon on/off), CancelCaller, CheckCancelled, "
                               "NativeCancel, FinishCall kinds return/raise/propagate-check_cancelled",
        "op_distribution": opcount,
        "limiter_sizes": sizes,
        "max_live_functions_seen": max((r.max_live for r in runs), default=0),
        "from_thread_callback_exceptions_delivered": sum(r.cb_exc_delivered for r in runs),
        "vm_compute_sample": len(idx),
        "vm_compute_ok": vm_ok,
        "vm_compute_sample_equal_to_impl": vm_vs_impl,
        "model_rejected_ops": rejected,
        "monitor_hits": len(hits),
        "hangs": len(hangs),
        "samples": [{**runs[i].replay(), "outs": expected[i][:48]} for i in idx[:2]],
    })
    for need in ("limiter_wait", "cancel_while_running_abandon", "cancel_while_running_shielded",
                 "cancel_while_waiting_limiter", "cancel_before_call", "cancel_hidden_by_shield", "cc_true", "cc_false",
                 "cc_true_shielded", "result_dropped_abandoned", "deferred_cancel_result_returned", "worker_reused",
                 "two_live_functions", "result_raise", "result_StopIteration", "result_from_thread.run",
                 "result_from_thread.run_sync", "result_contextvar", "set_total", "lowered_below_borrowed",
                 "result_BaseException", "result_propagate check_cancelled", "function_cancellederror_propagated",
                 "spawn_failed", "native_cancel_waiting_limiter", "native_cancel_running_non_abandon",
                 "native_cancel_running_abandon", "native_cancel_in_limiter_checkpoint",
                 "result_falsy exception", "result_from_thread.run_sync callback raises",
                 "result_from_thread.run callback raises",
                 "obs_native_cancel_defeats_non_abandon", "rt_cancelled", "rt_completed", "rt_in_finish_cancelled",
                 "rt_after_abandon_not_cancelled"):
        if not flags.get(need):
            rep.notes.append(f"generator self-check: predicate {need} never reached")
    return rep.finish()
