"""C20 — async lru_cache: correspondence of prims/Lru.v with anyio.functools.lru_cache on SchedLoop, plus
model-independent history monitors (value faithful, single flight, no internal error, bounded retention,
expired recomputed, LRU order / retention, cache_info accounting, currsize <= maxsize) and the known-finding
protocol: every monitor hit is explained by exactly one of F3 / F8 / F30 / F31 / F32 / F41 from predicates computed on
the IMPLEMENTATION-observed history (never from the model's ghost flags), or it is a VIOLATION.  The explanations are
per hit and quantitative: a second flight in another entries dict needs an OBSERVED cache_clear() that discarded one of
the two dicts; an inflated count (currsize > counted live entries) is explained one unit per observed event (dead
counted placeholder, count carried into a new loop, miss counted in a discarded dict, miss counted on another call's
placeholder) and anything beyond is unexplained."""

from __future__ import annotations

import asyncio
import json
import random
from asyncio import CancelledError

import core

DRIVERS = [("lru", "Lru")]

OPS = {"Call": 0, "WrappedReturns": 1, "WrappedRaises": 2, "CancelCaller": 3, "Resume": 4, "Tick": 5, "Clear": 6,
       "CallX": 7, "NewLoop": 8}
OPN = {v: k for k, v in OPS.items()}
EXC_CLASSES = [ValueError, KeyError, LookupError]   # what the wrapped function may raise (KeyError on purpose)
NFLAGS = 6
HDR = 5 + NFLAGS + 1    # result kind, value, hits, misses, currsize, flags, number of dict items

# which boolean predicate of prims/Lru.v stands for which attribution class of a monitor hit
PRED = {"F3": "evicts_inflight", "F8": "evicts_waited", "F30": "stale_count_other_loop",
        "F31": "uncounted_placeholder", "F32": "maxsize0_no_single_flight", "F41": "dead_placeholder_counted"}
_KNOWN = None


def known_predicates():
    """predicate name -> entry of /verif/known_findings.json (status 'known', property C20).  The file is the single
    source: a hit attributed to a predicate that is not listed there is a VIOLATION."""
    global _KNOWN
    if _KNOWN is None:
        _KNOWN = {}
        try:
            data = json.loads((core.VERIF / "known_findings.json").read_text())
        except Exception:  # noqa: BLE001
            data = {}
        for e in data.get("findings", []):
            if e.get("property") == "C20" and e.get("status") == "known" and e.get("match", {}).get("predicate"):
                _KNOWN[e["match"]["predicate"]] = e
    return _KNOWN


def known_text(cls: str) -> str:
    e = known_predicates()[PRED[cls]]
    return f"{e.get('what', '')} [{e.get('id', cls)}, predicate {PRED[cls]}]"


SCOPE_CANCELLED = object()


def readable(ops):
    return [(OPN[ops[i]], ops[i + 1], ops[i + 2]) for i in range(0, len(ops), 3)]


def opt_code(x):
    """Python-level maxsize / ttl -> codec (0 = None, n+1 = n); negative maxsize is clamped by the code under test."""
    return 0 if x is None else max(x, 0) + 1


# ---------------------------------------------------------------------------------------------------------
# the catalogue of calls (mirrors Lru.call_of) and the harness' own notion of "equal arguments"
NAMES = ["x", "y", "a", "b"]
MAXCODE = 16 + 6 * 20


def call_of(a: int):
    """code -> (args, kwargs in call order)"""
    from decimal import Decimal
    from fractions import Fraction

    if a < 16:
        v = a // 2
        return ((float(v) if a % 2 else v),), {}
    b = a - 16
    v, t, f = b % 4, (b // 4) % 5, b // 20
    x = [v, float(v), (bool(v) if v <= 1 else v), Decimal(v), Fraction(v)][t]
    if f == 0:
        return (x,), {}
    if f == 1:
        return (), {"x": x}
    if f == 2:
        return (2,), {"y": x}
    if f == 3:
        return (), {"a": x, "b": 1}
    if f == 4:
        return (), {"b": 1, "a": x}
    return (x, 1), {}


def call_class(a: int, typed: bool):
    """Equal arguments in the sense of the property: same positional values, same keyword names and values in the same
    order (as functools.lru_cache: f(a=1, b=2) and f(b=2, a=1) are different calls), and - if typed - the same types
    of positional AND keyword values.  Values are compared with ==."""
    args, kw = call_of(a)
    cls = (tuple(int(v) for v in args), tuple((n, int(v)) for n, v in kw.items()))
    if typed:
        cls += (tuple(type(v) for v in args), tuple(type(v) for v in kw.values()))
    return cls


_CANON = {}


def canon(typed: bool):
    """code -> least code of the catalogue with equal arguments (= the model's key_of), cross-checked against the
    equality of the stdlib's functools._make_key on the same calls"""
    if typed not in _CANON:
        import functools

        first, out, oracle = {}, {}, []
        for a in range(MAXCODE):
            out[a] = first.setdefault(call_class(a, typed), a)
            args, kw = call_of(a)
            k = functools._make_key(args, kw, typed)
            # the stdlib returns a bare int / str for a single positional argument of exactly that type (documented:
            # "such types may be cached separately even when typed is false"); AnyIO always builds the tuple
            oracle.append(tuple(k) if isinstance(k, list) else (k,))
        bad = [(a, b) for a in range(MAXCODE) for b in range(a)
               if (oracle[a] == oracle[b] and hash(oracle[a]) == hash(oracle[b])) != (out[a] == out[b])]
        _CANON[typed] = (out, bad)
    return _CANON[typed]


def expected_tuple(a: int, typed: bool):
    """the key tuple functools.py builds for this call (lines 149-157)"""
    from anyio.functools import initial_missing

    args, kw = call_of(a)
    key = tuple(args)
    if kw:
        key += (initial_missing,) + sum(kw.items(), ())
    if typed:
        key += tuple(type(v) for v in args)
        if kw:
            key += (initial_missing,) + tuple(type(v) for v in kw.values())
    return key


class LruRun:
    """Executes a flat op list against ONE real lru_cache-wrapped coroutine function, possibly over several
    consecutive event loops."""

    def __init__(self, maxsize, ttl, ackpt: bool, typed: bool, ncall: int):
        self.maxsize, self.ttl, self.ackpt, self.typed, self.ncall = maxsize, ttl, ackpt, typed, ncall
        self.effmax = None if maxsize is None else max(maxsize, 0)
        self.world = None
        self._sess = None
        self._tuples = None
        self.ops: list[int] = []
        self.outs: list[int] = []
        self.step_obs: list[list[int]] = []
        self.mon: list[str] = []          # every monitor message
        self.hits: list[tuple] = []       # (kind, key, message, info)
        self.flags: set[str] = set()
        self.stepno = 0
        self.nextval = 1
        self.crash = None
        self.valid = True
        # ---- bookkeeping of the observed history
        self.stage = {}        # caller -> 'entry' | 'lock' | 'wrapped' | 'hitck' while blocked inside a call
        self.wfut = {}         # caller -> future its wrapped-function execution waits on
        self.curcall = {}      # caller -> record of the call in progress
        self.execs = []        # log kept by the wrapped function itself
        self.calls = []        # finished and running calls
        self.running = {}      # key -> running executions
        self.cancel_req = set()
        self.activity = []     # (step, key) of every call begin / progress
        self.stored_at = {}    # value -> (key, step, vtime) of the execution that produced it
        self.keep = []         # dict / lock objects whose id() we use
        self.counted = set()   # id(lock) of placeholders a miss has counted in currsize
        self.ref_order: list[int] = []    # reference recency order of the current dict (least recently used first)
        self.has_dict_pub = False         # a caching call was made in this loop since the last effective cache_clear
        self.exp_hits = 0      # cache_info accounting expected from the observed history
        self.exp_misses = 0
        self.acct_reported = False
        self.cs_reported = False
        # ---- implementation-observed predicates (mirror the model's ghost flags, for the correspondence)
        self.fi = self.fw = self.fu = self.fd = self.fp = self.fb = False
        # ---- explanation data
        self.evict_class = {}  # key -> 'F3' | 'F30' | 'F41': a referenced placeholder of that key was popped by a miss
        self.f8_keys = set()   # keys whose completed entry was popped / expired while a caller waited on it
        self.evicted_any_inflight = None   # class of the first such eviction in this run
        self.inflight_evictions = []       # (step, id(dict), class) of every such eviction
        self.uncounted_evictions = []      # (step, id(dict)) of every eviction of an uncounted, unreferenced placeholder
        self.excess_log = []               # (step, id(current dict), currsize - counted live entries, units of that
                                           #   which observed events account for, class of the first) after each step
        self.stale_pos = {}                # (id(dict), key) -> 'F31' | 'F41': computed on a leftover placeholder, which
                                           #   keeps the position of the aborted / failed call
        # ---- observed causes of an inflated count (currsize > counted live entries of the current dict); every event
        #      accounts for ONE unit of inflation, anything beyond their number is unexplained
        self.discarded = set()             # id(dict) of every entries dict an observed, effective cache_clear() discarded
        self.phantom = 0                   # units of currsize that count nothing of the current dict: the stale count a
                                           #   new loop started with + misses counted in a discarded dict (F30)
        self.dead_events = []              # (step, id(dict)): an execution ended without a result and left its own counted
                                           #   placeholder in the dict (F41)
        self.dbl_events = []               # (step, id(dict), class): a miss was counted while the key's entry was the
                                           #   placeholder of ANOTHER call (second flight after F3 / F8 / ...)

    # ------------------------------------------------------------------ monitor hits and their explanation
    def hit(self, kind: str, key, msg: str, info=None):
        self.mon.append(msg)
        self.hits.append((kind, key, msg, info or {}))

    def explain(self, h):
        """The known finding (exactly one) of which monitor hit h is a consequence, judged from what was observed on
        the implementation in this history, else None."""
        kind, key, _, info = h
        if kind == "double_flight" and self.effmax == 0:
            return "F32"
        if kind == "double_flight" and info.get("cross_dict"):
            # the two flights run in different entries dicts AND an observed cache_clear() during a flight discarded
            # one of the two (info is evaluated when the second flight starts); a dict that changed for any other
            # reason is no known finding
            return "F30"
        if kind in ("double_flight", "reuse", "keyerror"):
            if key in self.evict_class:
                return self.evict_class[key]
            if key in self.f8_keys:
                return "F8"
            return None
        if kind == "exceeds":
            # every eviction of an uncounted placeholder (F31) and every eviction of a placeholder whose computation
            # went on (F3 / its cause) lets ONE more result in; anything beyond that is not explained
            d, step, excess = info["dict"], info["step"], info["excess"]
            n31 = sum(1 for (s, dd) in self.uncounted_evictions if dd == d and s <= step)
            inflight = [c for (s, dd, c) in self.inflight_evictions if dd == d and s <= step]
            if excess <= n31:
                return "F31"
            if excess <= n31 + len(inflight):
                return inflight[0]
            return None
        if kind == "retention":
            return info.get("cause")
        return None

    def attributed(self, h):
        """the attribution class of hit h if its predicate is a KNOWN finding of known_findings.json, else None"""
        cls = self.explain(h)
        if cls is not None and PRED[cls] in known_predicates():
            return cls
        return None

    def unexplained(self):
        return [h for h in self.hits if self.attributed(h) is None]

    def known_classes(self):
        return {c for c in (self.attributed(h) for h in self.hits) if c}

    # ------------------------------------------------------------------ set-up
    def __enter__(self):
        from anyio.functools import lru_cache

        run = self

        async def wrapped(*args, **kwargs):
            c = run.cid_of[id(asyncio.current_task())]
            call = run.curcall.get(c)
            k = call["key"]
            if (args, list(kwargs.items())) != (call["args"], list(call["kwargs"].items())):
                run.hit("value", k, f"the wrapped function was called with {args} {kwargs} instead of "
                                    f"{call['args']} {call['kwargs']}")
            dobj = call.get("dictobj") if call else None
            if dobj is None and run.effmax != 0:
                dobj = run.cur_dictobj()      # started within the Call step: the call's dict is the current one
            ex = {"caller": c, "key": k, "start": run.stepno, "end": None, "outcome": None, "dict": id(dobj) if dobj is not None else None}
            others = run.running.setdefault(k, [])
            if others:
                run.flags.add("double_flight")
                run.hit("double_flight", k,
                        f"single flight: caller {c} starts the wrapped function for key {k} while caller "
                        f"{others[0]['caller']} is still executing it",
                        {"cross_dict": all(o["dict"] != ex["dict"] and
                                           (o["dict"] in run.discarded or ex["dict"] in run.discarded) for o in others),
                         "other_dict": any(o["dict"] != ex["dict"] for o in others)})
            others.append(ex)
            run.execs.append(ex)
            fut = run.world.loop.create_future()
            run.wfut[c] = fut
            try:
                v = await fut
                ex["outcome"] = ("ret", v)
                run.stored_at[v] = (k, run.stepno, run.world.loop.time())
                return v
            except CancelledError:
                ex["outcome"] = ("cancel", None)
                raise
            except BaseException as e:  # noqa: BLE001
                ex["outcome"] = ("exc", e)
                raise
            finally:
                ex["end"] = run.stepno
                others.remove(ex)
                run.wfut.pop(c, None)

        self.cached = lru_cache(maxsize=self.maxsize, typed=self.typed, always_checkpoint=self.ackpt,
                                ttl=self.ttl)(wrapped)
        self.start_loop(0.0)
        return self

    def start_loop(self, vtime: float):
        from puppet import World

        self.world = World()
        self.world.loop._vtime = vtime
        self._sess = self.world.session()
        self._sess.__enter__()
        for c in range(self.ncall):
            self.world.spawn(c)
        self.cid_of = {id(p.task): c for c, p in self.world.puppets.items()}

    def end_loop(self):
        self.world.close()
        self._sess.__exit__(None, None, None)

    def __exit__(self, *a):
        self.end_loop()

    # ------------------------------------------------------------------ keys
    def hkey(self, a: int) -> int:
        """The class of call code a under the harness' own notion of 'equal arguments', as the model key number."""
        return canon(self.typed)[0][a]

    def dkey(self, t) -> int:
        """model key of a key tuple found in the real entries dict (-1: not a tuple the documented scheme builds)"""
        if self._tuples is None:
            self._tuples = {}
            for a in range(MAXCODE):
                self._tuples.setdefault(expected_tuple(a, self.typed), self.hkey(a))
        try:
            return self._tuples.get(t, -1)
        except TypeError:
            return -1

    # ------------------------------------------------------------------ observation
    def cur_dictobj(self):
        from anyio.functools import lru_cache_items

        try:
            d = lru_cache_items.get(None)
        except Exception:  # noqa: BLE001
            return None
        if not d:
            return None
        return d.get(self.cached)

    def snap(self, d):
        """{model key: (real key, entry)} of an entries dict, in order."""
        if d is None:
            return {}
        return {self.dkey(t): (t, e) for t, e in list(d.items())}

    def observe_dict(self):
        out = []
        d = self.cur_dictobj()
        items = list(d.items()) if d is not None else []
        for t, (v, lock, exp) in items:
            k = self.dkey(t)
            if lock is not None:
                st = lock.statistics()
                out += [k, 0, 2 * st.tasks_waiting + (1 if st.locked else 0), 1 if id(lock) in self.counted else 0]
            else:
                out += [k, 1, v if isinstance(v, int) else -1, 0 if exp is None else int(exp) + 1]
        return [len(items)] + out

    def busy(self):
        return [c for c, p in self.world.puppets.items() if not p.at_decision]

    def enabled(self):
        en = []
        w = self.world
        idle = True
        for c, p in w.puppets.items():
            if p.at_decision:
                en.append(("call", c))
            else:
                idle = False
                if w.runnable(p):
                    en.append((4, c))
                en.append((3, c))
                f = self.wfut.get(c)
                if self.stage.get(c) == "wrapped" and f is not None and not f.done():
                    en.append((1, c))
                    en.append((2, c))
        en.append((5, 0))
        en.append((6, 0))
        if idle:
            en.append((8, 0))
        return en

    def op_enabled(self, code, x) -> bool:
        en = self.enabled()
        if code in (0, 7):
            return ("call", x) in en and x < self.ncall
        if code in (5, 6, 8):
            return (code, 0) in en
        return (code, x) in en

    def ref_touch(self, k):
        if k in self.ref_order:
            self.ref_order.remove(k)
        self.ref_order.append(k)

    def unexpired(self, entry) -> bool:
        exp = entry[2]
        return exp is None or self.world.loop.time() < exp

    def run_other_handles(self):
        """One round of the ready callbacks that are not task steps (cancel-scope delivery)."""
        w = self.world
        tasks = {id(p.task) for p in w.puppets.values()}
        for h in list(w.loop.ready_handles()):
            owner = getattr(h._callback, "__self__", None)
            if id(owner) in tasks or isinstance(owner, asyncio.Task):
                continue
            if type(h._callback).__name__ == "TaskStepMethWrapper":
                continue
            if h in w.loop._ready:
                w.loop.run_handle(h)

    def live_excess(self):
        """currsize minus the number of counted LIVE entries (results + placeholders of running computations) of the
        current dict: > 0 means the wrapper-level count is inflated."""
        d = self.cur_dictobj()
        live = 0
        if d is not None:
            running_locks = {id(cl.get("lockobj")) for c, cl in self.curcall.items()
                             if self.stage.get(c) == "wrapped" and cl.get("lockobj") is not None}
            for _, (v, lock, _e) in list(d.items()):
                if lock is None:
                    live += 1
                elif id(lock) in self.counted and id(lock) in running_locks:
                    live += 1
        return self.cached.cache_info().currsize - live

    def excess_bound(self):
        """(number of units of inflation of the current dict's count that observed events account for, class of the
        first such event)"""
        d = id(self.cur_dictobj())
        comps = []
        if self.phantom > 0:
            comps.append(("F30", self.phantom))
        nd = sum(1 for (_s, dd) in self.dead_events if dd == d)
        if nd:
            comps.append(("F41", nd))
        comps += [(c, 1) for (_s, dd, c) in self.dbl_events if dd == d and c is not None]
        return sum(n for _c, n in comps), (comps[0][0] if comps else None)

    def inflation_cause(self):
        """None: the count is not inflated; a class: it is, by no more than the observed events of known findings account
        for; '?': it is inflated by more than that"""
        e = self.live_excess()
        if e <= 0:
            return None
        b, cls = self.excess_bound()
        return cls if e <= b else "?"

    # ------------------------------------------------------------------ one op
    def do(self, code: int, x: int = 0, y: int = 0):
        w = self.world
        self.stepno += 1
        info0 = self.cached.cache_info()
        self.cs0 = info0.currsize
        nexec0 = len(self.execs)
        cause0 = self.inflation_cause()
        self.waiting0 = {(cl["key"], id(cl.get("dictobj"))) for c, cl in self.curcall.items()
                         if self.stage.get(c) == "lock"}
        out = None
        actor = None
        call = None
        dobj = None
        before = {}
        cur0 = self.cur_dictobj()
        if code in (0, 7):
            actor = x
            args, kwargs = call_of(y)
            cached = self.cached
            k = self.hkey(y)
            call = {"caller": x, "key": k, "code": y, "args": args, "kwargs": kwargs,
                    "begin": self.stepno, "T": w.loop.time(), "end": None,
                    "result": None, "exec": None, "blocked": False, "overlap": None, "dictobj": None,
                    "lockobj": None, "scope_cancelled": code == 7}
            before = self.snap(cur0)
            flying = [e for e in self.running.get(k, []) if cur0 is not None and e["dict"] == id(cur0)]
            if flying:
                call["overlap"] = flying[0]
            if self.effmax == 0 and self.running.get(k):
                self.fb = True
                self.flags.add("bypass_concurrent")
            self.curcall[x] = call
            self.calls.append(call)
            self.activity.append((self.stepno, k))
            if code == 0:
                async def cmd(p):
                    return await cached(*args, **kwargs)
            else:
                self.cancel_req.add(x)
                self.flags.add("call_in_cancelled_scope")

                async def cmd(p):
                    from anyio import CancelScope

                    with CancelScope() as sc:
                        sc.cancel()
                        return await cached(*args, **kwargs)
                    return SCOPE_CANCELLED
            out = w.act(x, cmd)
            if self.effmax != 0:
                self.has_dict_pub = True
                dobj = self.cur_dictobj()
                call["dictobj"] = dobj
                self.keep.append(dobj)
        elif code == 1:
            self.wfut[x].set_result(y)
        elif code == 2:
            exc = EXC_CLASSES[y % len(EXC_CLASSES)](f"wrapped-{self.stepno}")
            self.curcall[x]["injected"] = exc
            self.wfut[x].set_exception(exc)
        elif code == 3:
            w.puppets[x].task.cancel()
            self.cancel_req.add(x)
            st = self.stage.get(x)
            self.flags.add({"lock": "cancel_lock_wait", "wrapped": "cancel_in_wrapped", "entry": "cancel_entry",
                            "hitck": "cancel_hit_checkpoint"}.get(st, "cancel_other"))
        elif code == 4:
            actor = x
            call = self.curcall[x]
            dobj = call["dictobj"]
            before = self.snap(dobj)
            self.activity.append((self.stepno, call["key"]))
            out = w.resume(x)
        elif code == 5:
            w.loop.advance(1.0)
        elif code == 6:
            self.flags.add("clear")
            if self.busy():
                self.flags.add("clear_in_flight")
            if self.has_dict_pub:
                if self.busy():
                    self.fp = True
                self.exp_hits = self.exp_misses = 0
                self.has_dict_pub = False
                self.ref_order = []
                self.phantom = 0
            self.cached.cache_clear()
            if cur0 is not None and self.cur_dictobj() is not cur0:
                self.discarded.add(id(cur0))       # (cur0 stays alive in self.keep: its id is not reused)
                self.keep.append(cur0)
        else:
            self.flags.add("new_loop")
            if info0.currsize != 0:
                self.fp = True
                self.flags.add("new_loop_stale_count")
            self.phantom = max(info0.currsize, 0)  # nothing of the old count is in the new loop's dict
            vt = w.loop.time()
            self.end_loop()
            self.start_loop(vt)
            w = self.world
            self.has_dict_pub = False
            self.ref_order = []
            self.stage.clear()
            self.wfut.clear()
            self.curcall.clear()
        self.run_other_handles()
        # ---- classify what happened to the acting caller
        info1 = self.cached.cache_info()
        self.cs1 = info1.currsize
        rk, rv = 5, 0
        started = False
        finished = False
        if actor is not None:
            if out is not None and out[0] == "ok" and out[1] is SCOPE_CANCELLED:
                out = ("exc", CancelledError())
            started = len(self.execs) > nexec0 and self.execs[-1]["caller"] == actor
            if started and call["exec"] is None:
                call["exec"] = self.execs[-1]
                if self.effmax != 0:
                    self.exp_misses += 1
            after = self.snap(dobj)
            k = call["key"]
            if code in (0, 7) and dobj is not None:
                if k in after and after[k][1][1] is not None:
                    call["lockobj"] = after[k][1][1]
                elif k in before and before[k][1][1] is not None:
                    call["lockobj"] = before[k][1][1]      # its placeholder is already gone again
                if call["lockobj"] is None:
                    # not under the key the documented scheme builds: look for the lock the task stands in
                    task = w.puppets[actor].task
                    for _t, (_v, lk, _e) in list(dobj.items()):
                        if lk is not None and (self.blocked_in_lock(actor, lk) and lk.statistics().tasks_waiting
                                               or getattr(lk, "_owner_task", None) is task):
                            call["lockobj"] = lk
                            break
                self.keep.append(call["lockobj"])
            if out is None:
                rk, rv = 9, 0
            elif out[0] == "blocked":
                rk, rv = 1, 0
                call["blocked"] = True
                if started:
                    self.stage[actor] = "wrapped"
                elif code in (0, 7) and self.ackpt and self.effmax != 0 and k in before \
                        and before[k][1][1] is None and self.unexpired(before[k][1]):
                    # a completed, unexpired entry was there: the call is in the hit checkpoint
                    self.stage[actor] = "hitck"
                    self.flags.add("hit_checkpoint")
                    call["hit_counted"] = True
                    self.exp_hits += 1
                elif code == 7:
                    lk = call["lockobj"]
                    queued = lk is not None and lk.statistics().tasks_waiting > 0 and not started
                    # since /repo c2fb7fb always suspended in checkpoint_if_cancelled() at the lock entry, whatever the
                    # state of the lock ('entry'); 'lock' only if the task really stands in the lock's queue
                    self.stage[actor] = "lock" if (queued and self.blocked_in_lock(actor, lk)) else "entry"
                elif code == 0:
                    self.stage[actor] = "lock"
                    if call["overlap"] is not None:
                        self.flags.add("contended_wait")
                if self.stage.get(actor) == "lock":
                    self.check_independence(actor, call)
            else:
                finished = True
                st_prev = self.stage.pop(actor, None)
                self.curcall.pop(actor, None)
                call["end"] = self.stepno
                call["stage_at_end"] = st_prev
                rk, rv = self.finish_call(actor, call, out, cause0)
                if rk == 0 and call["exec"] is None and not call.get("hit_counted"):
                    self.exp_hits += 1
                if rk == 0 and self.effmax == 0:
                    self.exp_misses += 1
            self.after_actor_step(code, actor, call, dobj, before, after, started, finished, rk, cause0)
        self.excess_log.append((self.stepno, id(self.cur_dictobj()), self.live_excess()) + self.excess_bound())
        if self.effmax is not None and info1.currsize > self.effmax and not self.cs_reported:
            self.cs_reported = True
            self.hit("currsize", None, f"bounded retention: cache_info() reports currsize={info1.currsize} > "
                                       f"maxsize={self.effmax}")
        obs = ([rk, rv, info1.hits, info1.misses, info1.currsize] +
               [int(b) for b in (self.fi, self.fw, self.fu, self.fd, self.fp, self.fb)] + self.observe_dict())
        self.ops += [code, x, y]
        self.outs += obs
        self.step_obs.append(obs)
        if info1.maxsize != self.effmax or info1.ttl != self.ttl:
            self.hit("cacheinfo", None, f"cache_info reports maxsize={info1.maxsize} ttl={info1.ttl}")
        if (info1.hits, info1.misses) != (self.exp_hits, self.exp_misses) and not self.acct_reported:
            self.acct_reported = True
            self.hit("accounting", None, f"cache_info accounting: hits={info1.hits} misses={info1.misses} but the "
                                         f"history has {self.exp_hits} calls served from the cache and "
                                         f"{self.exp_misses} executions")
        return rk, rv

    def blocked_in_lock(self, c, lk) -> bool:
        try:
            return any(t is self.world.puppets[c].task for (t, _f) in lk._waiters)
        except Exception:  # noqa: BLE001
            return False

    # ------------------------------------------------------------------ evictions, recency, predicates
    def referenced(self, lock, but=None) -> bool:
        """some call in progress holds this lock or is suspended in its acquire()"""
        for c, cl in self.curcall.items():
            if self.stage.get(c) in ("lock", "wrapped") and cl.get("lockobj") is lock:
                return True
        return False

    def after_actor_step(self, code, actor, call, dobj, before, after, started, finished, rk, cause0):
        if self.effmax == 0 or dobj is None:
            return
        k = call["key"]
        is_cur = dobj is self.cur_dictobj()
        # callers that were suspended in lock.acquire() of this dict when the step began
        waiting_keys = {kk for (kk, d) in self.waiting0 if d == id(dobj)}
        # ---- reference recency order of the current dict
        if is_cur:
            if code in (0, 7):
                if call.get("hit_counted") or (finished and rk == 0 and call["exec"] is None):
                    self.ref_touch(k)
                elif k not in self.ref_order:
                    self.ref_order.append(k)
                elif k in before and before[k][1][1] is None and not self.unexpired(before[k][1]):
                    self.ref_touch(k)              # expired: recomputed now, which is a use (F15)
                    self.flags.add("expiry_recompute")
            elif finished and rk == 0:
                if call["exec"] is None and not call.get("hit_counted"):
                    self.ref_touch(k)              # waited for the flight and reused its result
                elif call["exec"] is not None and k not in self.ref_order:
                    self.ref_order.append(k)       # stored after its placeholder had gone
        if code in (0, 7) and k in after and after[k][1][1] is not None and (k not in before or before[k][1][1] is None):
            call["installed"] = True       # this call put the placeholder there (new key, or expired value replaced)
        # ---- a miss that computes on a leftover placeholder (installed by a call that was aborted or failed): the
        #      entry keeps the position of that earlier call
        if started and k in before and before[k][1][1] is not None:
            lk0 = before[k][1][1]
            others = [c2 for c2, cl in self.curcall.items() if c2 != actor and cl.get("lockobj") is lk0
                      and self.stage.get(c2) in ("lock", "wrapped")]
            if not call.get("installed") and not others:
                self.stale_pos[(id(dobj), k)] = "F41" if id(lk0) in self.counted else "F31"
        # ---- a miss counted in a dict that an observed cache_clear() had discarded: that unit of currsize counts nothing
        #      of the current dict
        if started and not is_cur and id(dobj) in self.discarded and self.cs1 > self.cs0:
            self.phantom += 1
        # ---- a miss counted while the key's entry is the placeholder of another call: the key is counted twice
        #      (also when that placeholder is the very item the miss pops)
        if started and k in before and before[k][1][1] is not None and call.get("lockobj") is not None \
                and before[k][1][1] is not call["lockobj"]:
            self.dbl_events.append((self.stepno, id(dobj), self.evict_class.get(k) or ("F8" if k in self.f8_keys else None)))
        # ---- the placeholder a miss has just counted
        if started:
            if k in after and after[k][1][1] is not None:
                self.counted.add(id(after[k][1][1]))
                self.keep.append(after[k][1][1])
        # ---- entries the miss of the acting caller popped
        popped = [(kk, e) for kk, (_t, e) in before.items() if kk not in after]
        if started and k not in after and k not in before:
            # installed and popped again within this step: its own, referenced placeholder
            popped.append((k, (None, call, None)))
        for kk, e in popped:
            if not started:
                self.flags.add("removal_outside_miss")
                continue
            if is_cur:
                expected = self.ref_order[0] if self.ref_order else None
                if expected is not None and kk != expected:
                    self.hit("lru_order", kk, f"LRU order: the miss of caller {actor} evicted key {kk} although key "
                                              f"{expected} is the least recently used (recency {self.ref_order})")
                if kk in self.ref_order:
                    self.ref_order.remove(kk)
            lock = e[1]
            if lock is not None:
                own = lock is call or lock is call.get("lockobj")
                if own or self.referenced(lock):
                    self.fi = True
                    # F3 proper, or the consequence of a count inflated by observed F30 / F41 / F8 events; when the
                    # count was inflated by MORE than those events account for, the eviction is no known finding
                    cls = "F3" if cause0 is None else (None if cause0 == "?" else cause0)
                    self.evict_class.setdefault(kk, cls)
                    if self.evicted_any_inflight is None:
                        self.evicted_any_inflight = cls
                    self.inflight_evictions.append((self.stepno, id(dobj), cls))
                    self.flags.add("evict_inflight")
                elif id(lock) not in self.counted:
                    self.fu = True
                    self.uncounted_evictions.append((self.stepno, id(dobj)))
                    self.flags.add("evict_uncounted_placeholder")
                else:
                    self.flags.add("evict_dead_counted_placeholder")
            else:
                self.flags.add("evict_value")
                if kk in waiting_keys:
                    self.fw = True
                    self.f8_keys.add(kk)
                    self.flags.add("evict_waited")
        # ---- ttl replacement
        if code in (0, 7) and k in before and k in after and before[k][1][1] is None and after[k][1][1] is not None:
            if not self.unexpired(before[k][1]):
                self.flags.add("ttl_expiry_replaced")
                if k in waiting_keys:
                    self.fw = True
                    self.f8_keys.add(k)
                    self.flags.add("evict_waited")
            else:
                self.flags.add("replacement_without_expiry")
        # ---- a call aborted while entering the lock leaves a placeholder that no miss has counted
        if (code == 7 and self.stage.get(actor) == "entry") or (finished and rk == 2 and call.get("stage_at_end") == "lock"):
            if k in after and after[k][1][1] is not None and id(after[k][1][1]) not in self.counted:
                self.fu = True
                self.flags.add("aborted_at_lock_entry")
        # ---- a computation ended without a result and left its counted placeholder behind
        if finished and call["exec"] is not None and rk in (2, 3):
            if k in after and after[k][1][1] is not None and id(after[k][1][1]) in self.counted:
                self.fd = True
                self.flags.add("dead_placeholder_counted")
                if after[k][1][1] is call.get("lockobj"):
                    self.dead_events.append((self.stepno, id(dobj)))

    # ------------------------------------------------------------------ monitors evaluated when a call finishes
    def finish_call(self, c, call, out, cause0):
        kind, val = out
        k = call["key"]
        ex = call["exec"]
        call["result"] = out
        dobj = call["dictobj"]
        if kind == "ok":
            if not isinstance(val, int):
                self.hit("value", k, f"value faithful: caller {c} key {k} got {val!r}")
                return 8, 0
            src = self.stored_at.get(val)
            if src is None or src[0] != k:
                self.hit("value", k, f"value faithful: caller {c} asked for key {k} and got {val}, which the wrapped "
                                     f"function never returned for that key")
            elif ex is not None:
                if ex["outcome"] != ("ret", val):
                    self.hit("value", k, f"value faithful: caller {c} key {k}: own execution ended with "
                                         f"{ex['outcome']} but the call returned {val}")
            else:
                # served from the cache / from somebody else's flight
                self.flags.add("hit")
                if call["blocked"] and call["overlap"] is not None:
                    self.flags.add("reuse_first_result")
                # the entry was read at the lookup (hit, possibly followed by the checkpoint) or, for a caller
                # that waited for the flight, at its resumption
                read_step = call["begin"] if call.get("hit_counted") else self.stepno
                call["read_step"] = read_step
                latest = max((e for e in self.execs if e["key"] == k and e["outcome"] and e["outcome"][0] == "ret"
                              and e["end"] <= read_step and e["dict"] == (id(dobj) if dobj is not None else None)),
                             key=lambda e: e["end"], default=None)
                if latest is not None and latest["outcome"][1] != val:
                    self.hit("stale", k, f"stale value: caller {c} key {k} was served {val} although the latest "
                                         f"completed execution returned {latest['outcome'][1]}")
                if self.ttl is not None and src[1] < call["begin"] and call["T"] >= src[2] + self.ttl:
                    self.hit("expired", k, f"expired entry served: caller {c} key {k} called at t={call['T']} and was "
                                           f"served {val} computed at t={src[2]} (ttl={self.ttl})")
            if ex is not None and ex["outcome"] == ("ret", val):
                self.flags.add("miss_completed")
                self.check_reuse(c, call)
                self.check_retention(c, call, cause0)
            return 0, val
        e = val
        if isinstance(e, CancelledError):
            if c not in self.cancel_req:
                self.hit("cancel", k, f"caller {c} got CancelledError without a cancel request")
            self.cancel_req.discard(c)
            if ex is not None:
                self.check_reuse(c, call)
            return 2, 0
        self.cancel_req.discard(c)
        if ex is not None and ex["outcome"] == ("exc", e) and e is call.get("injected"):
            self.flags.add("wrapped_raised")
            self.check_reuse(c, call)
            return 3, EXC_CLASSES.index(type(e))
        if isinstance(e, KeyError):
            self.flags.add("internal_keyerror")
            self.hit("keyerror", k, f"internal error: caller {c} key {k} got {e!r} which the wrapped function did not raise")
            return 4, 0
        if isinstance(e, RuntimeError):
            self.hit("internal", k, f"internal error: caller {c} key {k} got {e!r}")
            return 6, 0
        self.hit("internal", k, f"internal error: caller {c} key {k} got unexpected {e!r}")
        return 8, 0

    def check_independence(self, c, call):
        """calls with different arguments do not block one another: a caller queued on a lock shares it only with
        calls that have equal arguments"""
        lk = call.get("lockobj")
        if lk is None or not self.blocked_in_lock(c, lk):
            return
        for c2, cl in self.curcall.items():
            if c2 != c and cl.get("lockobj") is lk and cl["key"] != call["key"]:
                self.flags.add("blocked_by_other_arguments")
                self.hit("independence", call["key"],
                         f"independence: caller {c} {call['args']} {call['kwargs']} is queued on the lock of the call "
                         f"of caller {c2} {cl['args']} {cl['kwargs']}, which has different arguments")
                return

    def check_reuse(self, c, call):
        """later callers reuse the first result: c started an execution of its own although the flight that was
        in progress (in the same entries dict) when it called has meanwhile completed successfully."""
        ov = call["overlap"]
        ex = call["exec"]
        if self.effmax == 0 or ov is None or ex is None:
            return
        if ov["outcome"] and ov["outcome"][0] == "ret" and ov["end"] <= ex["start"]:
            v = ov["outcome"][1]
            if self.ttl is not None and self.world.loop.time() >= self.stored_at[v][2] + self.ttl:
                return
            self.hit("reuse", call["key"],
                     f"single flight / reuse: caller {c} key {call['key']} called while caller {ov['caller']} was "
                     f"computing, that flight returned {v}, and {c} executed the wrapped function again")

    def check_retention(self, c, call, cause0):
        """LRU lower bound: a key survives (in the same entries dict) while fewer than maxsize distinct other keys have
        been used since its last use.  The argument behind it: a key is popped only when it is the oldest item and
        currsize >= maxsize; if currsize equals the number of counted items (no phantom count F30, no dead counted
        placeholder F41), maxsize - 1 other counted items plus the evictor's key were all installed or refreshed after
        it.  Failures, cancellations and cache_clear() are therefore NOT excluded: when they inflate the count the hit
        is attributed to F30 / F41 from the observed state, a leftover placeholder of an aborted call (its later
        computation keeps the stale position) to F31, an in-flight / waited eviction to F3 / F8."""
        k = call["key"]
        dobj = call["dictobj"]
        if self.effmax == 0 or dobj is None:
            return
        if self.ttl is not None:
            # a recomputation is legitimate when the latest value of the key had expired when the call began
            done = [e for e in self.execs if e["key"] == k and e["outcome"] and e["outcome"][0] == "ret"
                    and e["end"] < call["begin"] and e["dict"] == id(dobj)]
            if done:
                v = max(done, key=lambda e: e["end"])["outcome"][1]
                if call["T"] >= self.stored_at[v][2] + self.ttl:
                    return
        t1 = None
        for prev in self.calls:
            if prev is call or prev["key"] != k or prev["end"] is None or prev["end"] >= call["begin"]:
                continue
            if prev["dictobj"] is not dobj:
                continue
            if prev["result"] and prev["result"][0] == "ok":
                # the position of the entry dates from the install / last move_to_end, i.e. not before the
                # beginning of the last successful call
                t1 = prev["begin"] if t1 is None else max(t1, prev["begin"])
        if t1 is None:
            return
        others = {kk for (s, kk) in self.activity if s >= t1 and kk != k}
        others |= {cc["key"] for cc in self.calls if cc["key"] != k and cc["begin"] <= t1 and
                   (cc["end"] is None or cc["end"] >= t1)}
        if self.effmax is None or len(others) < self.effmax:
            # attribution, bounded by what was actually observed on the implementation:
            #  - the count was inflated (currsize > counted live entries of this dict) at some step since the key's
            #    last use: the cache was "full" too early -> F30 (stale / phantom count) or F41 (dead placeholder);
            #  - the key (or the entry it displaced) was computed on a leftover placeholder and kept its stale position
            #    -> F31 / F41;  - the key's own placeholder was popped by a miss while in flight -> its class
            #    every unit of inflation must be accounted for by ONE observed event (dead counted placeholder, count
            #    carried into a new loop, miss counted in a discarded dict, key counted twice by a second flight)
            cause = None
            why = ""
            infl = [(e, b, cl) for (s, d, e, b, cl) in self.excess_log if s >= t1 and d == id(dobj) and e > 0]
            worst = max(infl, key=lambda x: x[0] - x[1], default=None)
            if worst is not None and worst[0] > worst[1]:
                why = (f"; currsize exceeded the counted live entries by {worst[0]}, of which the observed dead "
                       f"placeholders / discarded-dict counts / second flights account for {worst[1]}")
            else:
                if infl:
                    cause = next((cl for (_e, _b, cl) in infl if cl is not None), None)
                if cause is None:
                    cause = self.stale_pos.get((id(dobj), k))
                if cause is None and k in self.evict_class:
                    cause = self.evict_class[k]
            self.hit("retention", k, f"LRU retention: key {k} was recomputed by caller {c} although only "
                                     f"{len(others)} other keys were used since its last use (maxsize={self.effmax}){why}",
                     {"cause": cause})

    # ------------------------------------------------------------------ end of case
    def settle(self, c, finish=True):
        """run caller c's call forward: up to the wrapped function, and if `finish` to its end"""
        w = self.world
        for _ in range(8):
            p = w.puppets[c]
            if p.at_decision:
                return
            f = self.wfut.get(c)
            if self.stage.get(c) == "wrapped" and f is not None and not f.done():
                if not finish:
                    return
                self.do(1, c, self.fresh())
            if w.runnable(p):
                self.do(4, c, 0)
            else:
                return

    def quiesce(self):
        """Drive every caller out of its call, then probe every key once (a hit proves the key was retained)."""
        w = self.world
        for _ in range(400):
            busy = self.busy()
            if not busy:
                break
            progressed = False
            for c in busy:
                p = w.puppets[c]
                if p.at_decision:
                    continue
                f = self.wfut.get(c)
                if self.stage.get(c) == "wrapped" and f is not None and not f.done():
                    self.do(1, c, self.fresh())
                    progressed = True
                if w.runnable(p):
                    self.do(4, c, 0)
                    progressed = True
            if not progressed:
                self.do(3, busy[0], 0)
        cur = self.cur_dictobj()
        keys = []
        for cl in self.calls:
            if cl["key"] not in keys and cl["dictobj"] is cur and cur is not None:
                keys.append(cl["key"])
        if self.effmax != 0:
            for k in reversed(keys):
                self.probe(0, k)       # the key number is the least call code of its class
        self.retention_bound()
        if w.loop.errors:
            self.hit("loop", None, f"loop errors: {w.loop.errors[:2]}")

    def fresh(self):
        v = self.nextval
        self.nextval += 1
        return v

    def probe(self, c, a):
        rk, _ = self.do(0, c, a)
        for _ in range(6):
            if rk != 1:
                return
            if self.stage.get(c) == "wrapped":
                self.do(1, c, self.fresh())
            rk, _ = self.do(4, c, 0)

    def retention_bound(self):
        """At most maxsize results retained: a value served at step t' that was produced at step te <= t was in the
        cache during [te, t']; at no time may more than maxsize keys of one entries dict be provably retained."""
        if self.effmax is None or self.effmax == 0:
            return
        per = {}
        for cl in self.calls:
            if cl["result"] and cl["result"][0] == "ok" and cl["exec"] is None and cl["dictobj"] is not None:
                src = self.stored_at.get(cl["result"][1])
                if src is not None:
                    per.setdefault(id(cl["dictobj"]), []).append((src[1], cl.get("read_step", cl["end"]), cl["key"]))
        for did, iv in per.items():
            for t in sorted({b for (_, b, _) in iv}):
                ks = {k for (a, b, k) in iv if a <= t <= b}
                if len(ks) > self.effmax:
                    self.flags.add("exceeds_maxsize")
                    self.hit("exceeds", None, f"bounded retention: keys {sorted(ks)} were all retained at step {t} "
                                              f"(maxsize={self.effmax})",
                             {"dict": did, "step": t, "excess": len(ks) - self.effmax})
                    return

    def case(self):
        return [opt_code(self.maxsize), opt_code(self.ttl), int(self.ackpt), int(self.typed), self.ncall] + self.ops

    def cfg(self):
        return {"maxsize": self.maxsize, "ttl": self.ttl, "always_checkpoint": self.ackpt, "typed": self.typed,
                "ncall": self.ncall}


# ---------------------------------------------------------------------------------------------------------
def new_run(cfg):
    return LruRun(cfg["maxsize"], cfg["ttl"], cfg["always_checkpoint"], cfg["typed"], cfg["ncall"])


def run_script(cfg, flat_ops, quiesce=True, strict=False):
    with new_run(cfg) as r:
        r.enabled_at_end = []
        try:
            for i in range(0, len(flat_ops), 3):
                if not r.op_enabled(flat_ops[i], flat_ops[i + 1]):
                    r.valid = False
                    if strict:
                        break
                    continue
                if flat_ops[i] == 1:
                    r.nextval = max(r.nextval, flat_ops[i + 2] + 1)
                r.do(flat_ops[i], flat_ops[i + 1], flat_ops[i + 2])
            r.enabled_at_end = r.enabled()
            if quiesce:
                r.quiesce()
        except Exception as e:  # noqa: BLE001  (the harness could not drive this implementation)
            r.crash = f"{type(e).__name__}: {e}"
            r.valid = False
        return r


def pick_code(rng: random.Random, nkeys: int, typed: bool, pkw: float) -> int:
    """a call code: mostly one positional int/float, sometimes keyword / mixed forms with values of other types"""
    v = rng.randrange(nkeys)
    if rng.random() >= pkw:
        return 2 * v + (1 if rng.random() < (0.3 if typed else 0.1) else 0)
    return 16 + (rng.randrange(6) * 5 + rng.randrange(5)) * 4 + min(v, 3)


def key_case(rng: random.Random):
    """Directed family for the key construction: calls whose arguments are equal and hash-equal but of different
    types (int, float, bool, Decimal, Fraction), passed positionally, by keyword, mixed and with two keywords in
    both orders; typed on/off; some in flight at the same time (independence), some in sequence (right value)."""
    cfg = {"maxsize": rng.choice([None, 4, 8]), "ttl": None, "always_checkpoint": rng.random() < 0.25,
           "typed": rng.random() < 0.7, "ncall": 4}
    with new_run(cfg) as r:
        r.flags.add("directed_keys")
        w = r.world
        try:
            v = rng.randrange(2)
            forms = rng.sample(range(6), rng.choice([1, 2, 2]))
            for _ in range(rng.choice([6, 10, 14])):
                idle = [c for c, p in w.puppets.items() if p.at_decision]
                if not idle or rng.random() < 0.25:
                    busy = r.busy()
                    if busy:
                        r.settle(rng.choice(busy))
                    continue
                c = rng.choice(idle)
                a = 16 + (rng.choice(forms) * 5 + rng.randrange(5)) * 4 + (v if rng.random() < 0.8 else rng.randrange(4))
                r.do(0, c, a)
                if rng.random() < 0.5:
                    r.settle(c)
                else:
                    r.settle(c, finish=False)
            r.quiesce()
        except Exception as e:  # noqa: BLE001
            r.crash = f"{type(e).__name__}: {e}"
            r.valid = False
        return r


def random_cfg(rng: random.Random):
    return {
        "maxsize": rng.choice([None, 0, 1, 1, 2, 2, 3, -1] if rng.random() < 0.5 else [1, 2, 3]),
        "ttl": rng.choice([None, None, None, 0, 1, 2, 3]),
        "always_checkpoint": rng.random() < 0.4,
        "typed": rng.random() < 0.3,
        "ncall": rng.choice([2, 3, 4, 4]),
    }


def random_case(rng: random.Random, nsteps: int):
    cfg = random_cfg(rng)
    nkeys = rng.choice([1, 2, 3, 4])
    wts = {"call": 6, 1: 5, 2: rng.choice([0.3, 1.5]), 3: rng.choice([0.2, 1, 3]), 4: 7,
           5: (rng.choice([0.5, 2]) if cfg["ttl"] is not None else 0.05), 6: rng.choice([0.1, 0.1, 0.6]),
           8: rng.choice([0.0, 0.0, 0.5])}
    px = rng.choice([0.0, 0.0, 0.15, 0.4])
    pkw = rng.choice([0.0, 0.15, 0.5])
    with new_run(cfg) as r:
        try:
            for _ in range(nsteps):
                en = r.enabled()
                c, x = rng.choices(en, [wts[e[0]] for e in en])[0]
                if c == "call":
                    r.do(7 if rng.random() < px else 0, x, pick_code(rng, nkeys, cfg["typed"], pkw))
                elif c == 1:
                    r.do(1, x, r.fresh())
                elif c == 2:
                    r.do(2, x, rng.randrange(3))
                else:
                    r.do(c, x, 0)
            r.quiesce()
        except Exception as e:  # noqa: BLE001
            r.crash = f"{type(e).__name__}: {e}"
            r.valid = False
        return r


def directed_case(rng: random.Random):
    """Directed family: one flight of key A with callers queued on it, other keys used meanwhile, the flight then
    returns / raises / is cancelled, the waiters run, further keys are added until something is evicted, and every
    key is probed.  Reaches 'most recent use went through the lock-wait path' and 'failure with waiters queued'."""
    m = rng.choice([None, 2, 2, 3, 4])
    cfg = {"maxsize": m, "ttl": rng.choice([None, None, 5]), "always_checkpoint": rng.random() < 0.3,
           "typed": False, "ncall": 4}
    with new_run(cfg) as r:
        r.flags.add("directed")
        w = r.world
        try:
            keys = list(range(6))
            rng.shuffle(keys)
            a_key, others = keys[0], keys[1:]
            order = rng.random() < 0.5
            nb = rng.randrange(0, (m or 3))
            if order:
                for kb in others[:nb]:
                    r.do(0, 1, 2 * kb)
                    r.settle(1)
            r.do(0, 0, 2 * a_key)                      # the flight of A
            r.settle(0, finish=False)
            if not order:
                for kb in others[:nb]:
                    r.do(0, 1, 2 * kb)
                    r.settle(1)
            for kb in others[:nb]:
                if rng.random() < 0.4:                 # hits on the other keys while A is in flight
                    r.do(0, 1, 2 * kb)
                    r.settle(1)
            waiters = [2] if rng.random() < 0.6 else [2, 3]
            for c in waiters:
                r.do(0, c, 2 * a_key)
            how = rng.choice(["ret", "ret", "ret", "exc", "cancel"])
            if 0 in r.wfut and r.stage.get(0) == "wrapped":
                if how == "ret":
                    r.do(1, 0, r.fresh())
                elif how == "exc":
                    r.do(2, 0, rng.randrange(3))
                else:
                    r.do(3, 0, 0)
            extra = 1 if rng.random() < 0.3 else None  # somebody else slips in between
            if w.runnable(w.puppets[0]):
                r.do(4, 0, 0)
            if extra is not None and w.puppets[1].at_decision:
                r.do(0, 1, 2 * rng.choice(others[:nb] or [others[0]]))
                r.settle(1)
            for c in waiters:
                r.settle(c)
            for kc in others[nb:nb + rng.choice([1, 1, 2])]:
                r.do(0, 1, 2 * kc)                     # new keys: evictions
                r.settle(1)
            r.quiesce()
        except Exception as e:  # noqa: BLE001
            r.crash = f"{type(e).__name__}: {e}"
            r.valid = False
        return r


def ttl_case(rng: random.Random):
    """Directed ttl family: mostly sequential calls over a few keys with clock ticks in between, so that expired and
    unexpired entries coexist; reaches 'expired key recomputed, then a miss evicts, then the key is requested
    again' (F15) and hits just before / recomputations just after the expiry."""
    cfg = {"maxsize": rng.choice([2, 2, 3]), "ttl": rng.choice([1, 2, 2, 3]), "always_checkpoint": rng.random() < 0.25,
           "typed": False, "ncall": 3}
    nkeys = cfg["maxsize"] + rng.choice([1, 1, 2])
    with new_run(cfg) as r:
        r.flags.add("directed_ttl")
        w = r.world
        try:
            recent = []
            for _ in range(rng.choice([8, 12, 16, 20])):
                for _ in range(rng.choice([0, 0, 1, 1, 2])):
                    r.do(5, 0, 0)
                idle = [c for c, p in w.puppets.items() if p.at_decision]
                if not idle:
                    c = rng.choice(list(w.puppets))
                    r.settle(c)
                    continue
                c = rng.choice(idle)
                k = rng.choice(recent[-2:]) if recent and rng.random() < 0.45 else rng.randrange(nkeys)
                recent.append(k)
                r.do(7 if rng.random() < 0.08 else 0, c, 2 * k)
                if rng.random() < 0.85:
                    r.settle(c)
                else:
                    r.settle(c, finish=False)      # left in flight for a while
            r.quiesce()
        except Exception as e:  # noqa: BLE001
            r.crash = f"{type(e).__name__}: {e}"
            r.valid = False
        return r


def findings_case(rng: random.Random):
    """Directed family for F30 / F31 / F32 / F41: (a) two consecutive loops on one wrapper, (b) calls aborted while
    entering the lock (cancelled scope, native cancel in the shielded checkpoint, ttl-expired path) followed by
    ordinary traffic, (c) cache_clear() racing a flight, (d) maxsize=0 with concurrent equal calls,
    (e) failed / cancelled computations followed by retries and ordinary traffic."""
    fam = rng.choice("aabbccdee")
    ack = rng.random() < 0.35
    if fam == "d":
        cfg = {"maxsize": rng.choice([0, 0, -1]), "ttl": None, "always_checkpoint": ack, "typed": False, "ncall": 3}
    else:
        cfg = {"maxsize": rng.choice([1, 2, 2, 3]), "ttl": rng.choice([None, None, 2]) if fam == "b" else None,
               "always_checkpoint": ack, "typed": False, "ncall": 4}
    m = cfg["maxsize"]
    with new_run(cfg) as r:
        r.flags.add("directed_" + fam)
        try:
            def seq(c, k, x=False):
                r.do(7 if x else 0, c, 2 * k)
                r.settle(c)

            def together(k, callers, outcome="ret"):
                for c in callers:
                    r.do(0, c, 2 * k)
                for c in callers:
                    r.settle(c, finish=False)
                first = True
                for c in callers:
                    if r.stage.get(c) == "wrapped" and c in r.wfut and not r.wfut[c].done():
                        if first and outcome == "exc":
                            r.do(2, c, 0)
                        elif first and outcome == "cancel":
                            r.do(3, c, 0)
                        first = False
                    r.settle(c)
                for c in callers:
                    r.settle(c)

            if fam == "a":
                for k in range(rng.choice([m, m, m + 1])):
                    seq(0, k)
                r.do(8, 0, 0)
                if rng.random() < 0.4:
                    r.do(6, 0, 0)
                together(7, [0, 1, 2], rng.choice(["ret", "ret", "exc", "cancel"]))
                for k in [4, 5, 4, 6, 5]:
                    seq(rng.randrange(2), k)
                if rng.random() < 0.3:
                    r.do(8, 0, 0)
                    seq(0, 4)
                    seq(0, 4)
            elif fam == "b":
                n = rng.choice([1, 2, 3])
                for i in range(n):
                    how = rng.choice(["scope", "scope", "native"])
                    if how == "scope" or not ack:
                        r.do(7, i % 3, 2 * (10 + i))
                        r.settle(i % 3)
                    else:
                        r.do(0, i % 3, 2 * (10 + i))
                        if r.stage.get(i % 3) == "lock":
                            r.do(3, i % 3, 0)
                        r.settle(i % 3)
                if cfg["ttl"] is not None:
                    seq(0, 9)
                    r.do(5, 0, 0)
                    r.do(5, 0, 0)
                    seq(0, 9, x=True)
                for k in range(m + n + 1):
                    seq(3, k)
            elif fam == "c":
                r.do(0, 0, 2)
                r.settle(0, finish=False)
                if rng.random() < 0.7:
                    r.do(0, 1, 2)
                r.do(6, 0, 0)
                if rng.random() < 0.3:
                    r.do(6, 0, 0)
                end = rng.choice(["cancel", "exc", "ret"])
                if r.stage.get(0) == "wrapped":
                    r.do({"cancel": 3, "exc": 2, "ret": 1}[end], 0, r.fresh() if end == "ret" else 0)
                r.settle(0)
                r.settle(1)
                together(5, [0, 1, 2])
                for k in [6, 5, 7]:
                    seq(3, k)
            elif fam == "d":
                together(1, [0, 1, 2], rng.choice(["ret", "exc"]))
                r.do(7, 0, 2)
                r.settle(0)
                r.do(6, 0, 0)
                together(1, [0, 1])
            else:
                for i in range(rng.choice([1, 2])):
                    r.do(0, 0, 2 * i)
                    r.settle(0, finish=False)
                    if rng.random() < 0.5:
                        r.do(0, 1, 2 * i)
                    if r.stage.get(0) == "wrapped":
                        r.do(rng.choice([2, 3]), 0, 0)
                    r.settle(0)
                    r.settle(1)
                    if rng.random() < 0.6:
                        seq(2, i)              # retry of the same key
                for k in [4, 5, 4, 6, 4, 5]:
                    seq(3, k)
            r.quiesce()
        except Exception as e:  # noqa: BLE001
            r.crash = f"{type(e).__name__}: {e}"
            r.valid = False
        return r


def exhaustive_cases(cfg, nkeys: int, depth: int, with_clear=False):
    """All op sequences up to `depth` that the implementation enables (DFS by replay), callers used in order."""
    results = []

    def rec(prefix):
        r = run_script(cfg, prefix, quiesce=True)
        if len(prefix) // 3 >= depth:
            results.append(r)
            return
        used = {prefix[i + 1] for i in range(0, len(prefix), 3) if prefix[i] in (0, 7)}
        nxt = min(set(range(cfg["ncall"])) - used, default=None)
        nv = 1 + sum(1 for i in range(0, len(prefix), 3) if prefix[i] == 1)
        leaf = True
        for (c, x) in r.enabled_at_end:
            if c == "call":
                if x not in used and x != nxt:
                    continue        # symmetry: a fresh caller is the smallest unused one
                for k in range(nkeys):
                    leaf = False
                    rec(prefix + [0, x, 2 * k])
                if with_clear:
                    rec(prefix + [7, x, 0])
            elif c == 1:
                leaf = False
                rec(prefix + [1, x, nv])
            elif c == 2:
                leaf = False
                rec(prefix + [2, x, 0])
            elif c in (3, 4):
                leaf = False
                rec(prefix + [c, x, 0])
            elif c == 5 and cfg["ttl"] is not None:
                leaf = False
                rec(prefix + [5, 0, 0])
            elif c in (6, 8) and with_clear and prefix:
                leaf = False
                rec(prefix + [c, 0, 0])
        if leaf:
            results.append(r)

    rec([])
    return results


def shrink(cfg, ops):
    """Drop ops while some monitor still trips unexplained."""
    def bad(o):
        try:
            r = run_script(cfg, o, quiesce=True, strict=True)
        except Exception:  # noqa: BLE001
            return None
        if r.valid and r.unexplained():
            return r
        return None

    cur = list(ops)
    best = bad(cur)
    if best is None:
        return None
    changed = True
    while changed:
        changed = False
        for i in range(len(cur) - 3, -1, -3):
            cand = cur[:i] + cur[i + 3:]
            rr = bad(cand)
            if rr is not None:
                cur, best, changed = cand, rr, True
    return best


def split_steps(flat):
    out = []
    i = 0
    while i + HDR <= len(flat):
        n = HDR + 4 * flat[i + HDR - 1]
        out.append(flat[i:i + n])
        i += n
    return out


FAMILIES = (directed_case, ttl_case, findings_case, findings_case, key_case)


def check(tier: str) -> int:
    rep = core.Report("C20", tier)
    rep.assumptions = core.TRUSTED_BASE_COMMON + [
        "model prims/Lru.v hand-written from functools.py:100-217 with an embedded prims/Lock.v per placeholder; "
        "cancellation modelled as native Task.cancel() on a blocked caller plus calls issued inside an already "
        "cancelled scope; the wrapped function always suspends once (a non-suspending wrapped function is the special "
        "case WrappedReturns;Resume scheduled back to back); a new event loop starts only with no call in progress; "
        "calls are drawn from a catalogue of 136 shapes (positional / keyword / mixed / two keywords in both orders, "
        "values 0..3 as int, float, bool, Decimal, Fraction); the harness' notion of equal arguments is cross-checked "
        "against functools._make_key",
        "collections.OrderedDict semantics (assignment keeps position, move_to_end, popitem(last=False)) as modelled",
    ]
    proofs_ok = core.proof_stage(rep, "props/C20.v")
    exe = core.build_driver("lru", "Lru")

    rng = random.Random(core.seed())
    runs = []
    corpus_dir = core.VERIF / "corpus" / "C20"
    corpus_names = []
    for f in sorted(corpus_dir.glob("*.json")):
        c = json.loads(f.read_text())
        runs.append(run_script(c["cfg"], c["ops"]))
        corpus_names.append(f.name)
    n_corpus = len(runs)
    n_random = 350 if tier == "quick" else 9000
    for _ in range(n_random):
        runs.append(random_case(rng, rng.choice([6, 10, 16, 24, 40])))
    n_directed = 360 if tier == "quick" else 6000
    for i in range(n_directed):
        runs.append(FAMILIES[i % len(FAMILIES)](rng))
    base = {"ttl": None, "always_checkpoint": False, "typed": False}
    if tier == "thorough":
        ex = (exhaustive_cases(dict(base, maxsize=1, ncall=3), 2, 7)
              + exhaustive_cases(dict(base, maxsize=1, ncall=2, always_checkpoint=True), 2, 7)
              + exhaustive_cases(dict(base, maxsize=2, ncall=2, ttl=1), 2, 6)
              + exhaustive_cases(dict(base, maxsize=1, ncall=2), 1, 6, with_clear=True))
    else:
        ex = (exhaustive_cases(dict(base, maxsize=1, ncall=2), 2, 5)
              + exhaustive_cases(dict(base, maxsize=1, ncall=2), 1, 4, with_clear=True))
    exhaustive = len(ex)
    runs += ex

    cases = [r.case() for r in runs]
    expected = [r.outs for r in runs]
    model_outs = core.run_driver(exe, cases)
    disagreements = []
    rejected = 0
    for r, c, e, m in zip(runs, cases, expected, model_outs):
        ms = split_steps(m)
        rejected += sum(1 for s in ms if s[0] == 9)
        if e != m:
            k = next((i for i in range(min(len(ms), len(r.step_obs))) if ms[i] != r.step_obs[i]),
                     min(len(ms), len(r.step_obs)))
            disagreements.append({"cfg": r.cfg(), "ops": r.ops, "ops_readable": readable(r.ops),
                                  "first_diff_step": k,
                                  "impl_step": r.step_obs[k] if k < len(r.step_obs) else None,
                                  "model_step": ms[k] if k < len(ms) else None})

    sample_n = 40 if tier == "quick" else 400
    idx = list(range(n_corpus)) + rng.sample(range(n_corpus, len(cases)), min(sample_n, len(cases) - n_corpus))
    vm_ok, vm_log = core.coq_eval_cases("c20", "Lru", [cases[i] for i in idx], [expected[i] for i in idx])

    # ---- decide ----  (explanations come from what was observed on the implementation, per monitor hit)
    n_known = {k: 0 for k in PRED}
    viol = []
    for r in runs:
        if not r.hits:
            continue
        for cls in r.known_classes():
            n_known[cls] += 1
            rep.known_finding(known_text(cls))
        if r.unexplained():
            viol.append(r)
    any_tie = (not proofs_ok) or disagreements or rejected or any(r.crash for r in runs) or not vm_ok
    if any_tie and not viol:
        # a tie is broken and no monitor tripped on this batch: search further on the implementation alone
        srng = random.Random(core.seed() + 1)
        for i in range(1500 if tier == "quick" else 6000):
            r = (FAMILIES[(i // 2) % len(FAMILIES)](srng) if i % 2 == 0
                 else random_case(srng, srng.choice([10, 16, 24, 40])))
            if r.unexplained():
                viol.append(r)
                if len(viol) >= 3:
                    break
    viol.sort(key=lambda r: len(r.ops))
    for r in viol[:3]:
        small = shrink(r.cfg(), r.ops) or r
        un = small.unexplained()
        rep.violation(un[0][2], {"kind": "monitor", "cfg": small.cfg(), "ops": small.ops,
                                 "ops_readable": readable(small.ops), "monitor_hits": [h[2] for h in un[:5]],
                                 "implementation_observed": {
                                     "inflight_placeholder_evicted_keys": {str(k): v for k, v in small.evict_class.items()},
                                     "waited_entry_evicted_keys": sorted(small.f8_keys),
                                     "uncounted_placeholder_evicted": small.fu, "dead_placeholder_counted": small.fd,
                                     "stale_count": small.fp, "maxsize0_concurrent": small.fb},
                                 "replay": "python harness/c20.py <this file>"})
    tie_broken = []
    for ty in (False, True):
        if canon(ty)[1]:
            tie_broken.append(f"the harness' notion of equal arguments disagrees with functools._make_key "
                              f"(typed={ty}) on call codes {canon(ty)[1][:3]}")
    if not proofs_ok:
        tie_broken.append("proof obligation: " + str(rep.coverage.get("proof_failure", {}).get("where")))
    if disagreements:
        tie_broken.append("correspondence Lru.run_case vs anyio.functools.lru_cache")
    if rejected:
        tie_broken.append(f"model rejected {rejected} ops the implementation performed")
    crashed = [r for r in runs if r.crash]
    if crashed:
        tie_broken.append(f"harness could not drive the implementation in {len(crashed)} cases: {crashed[0].crash}")
    if not vm_ok and not disagreements:
        tie_broken.append("vm_compute sample disagrees with extracted model")
    if tie_broken and not viol:
        d = min(disagreements, key=lambda d: len(d["ops"])) if disagreements else None
        if d is None and crashed:
            cr = min(crashed, key=lambda r: len(r.ops))
            d = {"cfg": cr.cfg(), "ops": cr.ops, "ops_readable": readable(cr.ops), "crash": cr.crash}
        rep.violation("; ".join(tie_broken), {"kind": "tie", "broken": tie_broken, "case": d}, no_input=True)

    flags = {}
    for r in runs:
        for f in r.flags:
            flags[f] = flags.get(f, 0) + 1
    interesting = {"contended_wait", "evict_value", "evict_inflight", "evict_waited", "ttl_expiry_replaced",
                   "reuse_first_result", "cancel_lock_wait", "cancel_in_wrapped", "new_loop_stale_count",
                   "clear_in_flight", "call_in_cancelled_scope", "bypass_concurrent"}
    distinct = len({tuple(c) for c, r in zip(cases, runs) if r.flags & interesting})
    opcount = {}
    sizes = {}
    for r in runs:
        n = len(r.ops) // 3
        sizes[n // 10 * 10] = sizes.get(n // 10 * 10, 0) + 1
        for i in range(0, len(r.ops), 3):
            opcount[OPN[r.ops[i]]] = opcount.get(OPN[r.ops[i]], 0) + 1
    cfgdist = {}
    for r in runs:
        for key in (f"maxsize={r.maxsize}", f"ttl={r.ttl}", f"always_checkpoint={r.ackpt}", f"typed={r.typed}",
                    f"ncall={r.ncall}"):
            cfgdist[key] = cfgdist.get(key, 0) + 1
    rep.coverage.update({
        "trusted_base": rep.assumptions,
        "evaluations": len(runs),
        "programs": len(runs),
        "traces_validated_against_impl": len(runs) - len(disagreements),
        "disagreements_checked": len(disagreements),
        "distinct_nontrivial": distinct,
        "directed_cases": n_directed,
        "rule": "random walk over the ops the implementation enables (idle caller: call with one of <= 4 argument "
                "values, int or float, optionally inside an already cancelled scope; blocked caller: resume if its "
                "wake-up is queued, native cancel, resolve the future of its wrapped-function execution with a fresh "
                "value or an exception; tick of the virtual clock; cache_clear at any time; a new event loop on the "
                "same wrapper at quiescence), 2-4 callers, maxsize None/-1/0/1/2/3, ttl None/0/1/2/3, typed and "
                "always_checkpoint on/off, then quiescence and one probe call per key; plus exhaustive enumeration "
                "of all enabled op sequences to a fixed depth; plus directed families (one flight with waiters and "
                "other keys; ttl with ticks; two consecutive loops; calls aborted at the lock entry followed by "
                "traffic; cache_clear racing a flight; maxsize=0 with concurrent equal calls; failed computations "
                "followed by retries); monitor hits are explained per hit from predicates observed on the "
                "implementation's cache dict (never from the model)",
        "exhaustive_small_scope_cases": exhaustive,
        "corpus_cases": n_corpus,
        "corpus_files": corpus_names,
        "reached": flags,
        "op_distribution": opcount,
        "size_distribution": {f"{k}-{k + 9}": v for k, v in sorted(sizes.items())},
        "config_distribution": cfgdist,
        "vm_compute_sample": len(idx),
        "vm_compute_ok": vm_ok,
        "model_rejected_ops": rejected,
        "monitor_hits": sum(len(r.mon) for r in runs),
        "cases_with_monitor_hit": sum(1 for r in runs if r.mon),
        "known_finding_cases": n_known,
        "unexplained_monitor_cases": len(viol),
        "samples": [{"cfg": runs[i].cfg(), "ops": readable(runs[i].ops)[:30], "outs": runs[i].outs[:60]}
                    for i in idx[n_corpus:n_corpus + 2]],
    })
    if not vm_ok:
        rep.coverage["vm_compute_log"] = vm_log[-800:]
    for need in ("contended_wait", "evict_value", "evict_inflight", "evict_waited", "ttl_expiry_replaced",
                 "reuse_first_result", "cancel_lock_wait", "cancel_in_wrapped", "hit", "hit_checkpoint",
                 "expiry_recompute", "directed", "directed_ttl", "wrapped_raised", "internal_keyerror",
                 "double_flight", "exceeds_maxsize", "clear", "clear_in_flight", "new_loop", "new_loop_stale_count",
                 "call_in_cancelled_scope", "evict_uncounted_placeholder", "dead_placeholder_counted",
                 "bypass_concurrent", "directed_keys"):
        if not flags.get(need):
            rep.notes.append(f"generator self-check: predicate {need} never reached")
    return rep.finish()


def replay(path: str) -> int:
    """Re-run a replay / corpus file on the implementation and print what the monitors say."""
    c = json.loads(open(path).read())
    case = c.get("case") or c
    r = run_script(case["cfg"], case["ops"])
    print("cfg", r.cfg())
    for (name, x, y), obs in zip(readable(r.ops), r.step_obs):
        print(f"  {name}({x},{y}) -> {obs}")
    print("observed: inflight", r.fi, "waited", r.fw, "uncounted", r.fu, "dead", r.fd, "stale count", r.fp,
          "maxsize0 concurrent", r.fb, "crash", r.crash)
    for h in r.hits:
        print("MONITOR:", h[2], "  [class", r.explain(h), "- known finding:", r.attributed(h) is not None, "]")
    return 1 if r.unexplained() else 0


if __name__ == "__main__":
    import sys
    sys.exit(replay(sys.argv[1]))
