"""C16 - Buffered and text stream wrappers are transparent to chunking.

Correspondence of pure/Buffered.v with anyio.streams.buffered.BufferedByteReceiveStream and of pure/Text.v with
anyio.streams.text.TextReceiveStream / TextSendStream / TextStream (over CPython's codecs), plus history monitors that
do not use the model.  Every case runs inside ONE real AnyIO event loop (anyio.run around the whole batch), so awaits of
AnyIO primitives inside the wrappers work; the fake transports always have a chunk or EndOfStream ready, so on the
unchanged tree nothing suspends except the cancellation points the harness creates on purpose.
"""

from __future__ import annotations

import asyncio
import codecs
import itertools
import json
import random
import sys
import threading
import time

import core
import tiegen

DRIVERS = [("buffered", "Buffered"), ("text", "Text")]

A, B, D1, D2 = 97, 98, 59, 10          # alphabet of the exhaustive part: a, b, first and second delimiter byte


# ----------------------------------------------------------------------------------------------------------------
# Buffered: implementation side
# ----------------------------------------------------------------------------------------------------------------

_impl = {}


def impl():
    """Import the real classes once (from VERIF_REPO/src, first on sys.path) and define the fake transports."""
    if _impl:
        return _impl
    import anyio
    from anyio import DelimiterNotFound, EndOfStream, IncompleteRead
    from anyio.abc import ByteReceiveStream, ObjectReceiveStream, ObjectSendStream, ObjectStream
    from anyio.streams.buffered import BufferedByteReceiveStream
    from anyio.streams.text import TextReceiveStream, TextSendStream, TextStream
    from anyio.lowlevel import checkpoint

    class MidFeed:
        """While a receive call of the wrapper is parked in our receive(), "another task" calls feed_data(): the data
        queued in `midfeeds` (one entry per fetch) is fed to the owning BufferedByteReceiveStream before we answer."""

        owner = None
        scope = None          # cancel scope around the call that is in progress
        cancel_at = 0         # number of the fetch (1-based, within the current call) that gets cancelled; 0 = none
        fetches = 0

        async def cancel_point(self):
            """The only legitimate waiting point of the wrapper: a fetch.  The k-th fetch of a call under test is
            cancelled (the scope is cancelled now unless it already was) and the cancellation is delivered here."""
            self.fetches += 1
            if self.cancel_at and self.fetches == self.cancel_at:
                if not self.scope.cancel_called:
                    self.scope.cancel()
                await checkpoint()

        def wait(self):
            if self.midfeeds:
                f = self.midfeeds.pop(0)
                self.owner.feed_data(f)
                self.log.append(("f", f))

    class FakeByteStream(MidFeed, ByteReceiveStream):
        """Holds the chunk list; receive(max_bytes) hands out the first min(max_bytes, |chunk|) bytes of the next chunk."""

        def __init__(self, chunks, log):
            self.chunks = [bytes(c) for c in chunks]
            self.log = log
            self.bad_max = []
            self.splits = 0
            self.midfeeds = []

        async def receive(self, max_bytes: int = 65536) -> bytes:
            await self.cancel_point()
            self.wait()
            if max_bytes < 1:
                self.bad_max.append(max_bytes)
            if not self.chunks:
                raise EndOfStream
            c = self.chunks[0]
            piece, rest = c[:max_bytes], c[max_bytes:]
            if rest:
                self.chunks[0] = rest
                self.splits += 1
            else:
                self.chunks.pop(0)
            self.log.append(("p", piece))
            return piece

        async def aclose(self) -> None:
            pass

    class FakeObjectStream(MidFeed, ObjectReceiveStream):
        """An object stream of bytes: whole items, possibly empty ones."""

        def __init__(self, chunks, log):
            self.chunks = [bytes(c) for c in chunks]
            self.log = log
            self.bad_max = []
            self.splits = 0
            self.midfeeds = []

        async def receive(self) -> bytes:
            await self.cancel_point()
            self.wait()
            if not self.chunks:
                raise EndOfStream
            c = self.chunks.pop(0)
            self.log.append(("p", c))
            return c

        async def aclose(self) -> None:
            pass

    class Loopback(ObjectStream):
        """Transport of the text streams: send() appends one chunk, receive() pops one."""

        def __init__(self, chunks):
            self.chunks = [bytes(c) for c in chunks]
            self.sent = []

        async def receive(self) -> bytes:
            if not self.chunks:
                raise EndOfStream
            return self.chunks.pop(0)

        async def send(self, item) -> None:
            self.sent.append(bytes(item))
            self.chunks.append(bytes(item))

        async def send_eof(self) -> None:
            pass

        async def aclose(self) -> None:
            pass

    _impl.update(dict(
        anyio=anyio, EndOfStream=EndOfStream, IncompleteRead=IncompleteRead, DelimiterNotFound=DelimiterNotFound,
        FakeByteStream=FakeByteStream, FakeObjectStream=FakeObjectStream, Loopback=Loopback,
        Buffered=BufferedByteReceiveStream, CancelScope=anyio.CancelScope, Cancelled=anyio.get_cancelled_exc_class, TextReceiveStream=TextReceiveStream, TextSendStream=TextSendStream,
        TextStream=TextStream,
    ))
    return _impl


# ops of the buffered model: ("r", n) ("r", n, feeds-during-the-call) ("x", n) ("u", delim, m) ("u", delim, m, feeds-during-the-call) ("f", data)
# ("c", k, call): the call runs in a cancel scope; k = 0: the scope is cancelled before the call, k >= 1: its k-th fetch
# from the wrapped stream is cancelled.  In the flat (model) encoding k is the position where the cancellation was
# observed: 0 = at entry, nothing touched; j >= 1 = at the j-th fetch (an uncancelled completion in a cancelled scope is 1).
def buf_flat(kind, chunks, ops):
    out = [kind, len(chunks)]
    for c in chunks:
        out.append(len(c))
        out.extend(c)
    for o in ops:
        if o[0] == "c":
            pos, b = o[1], o[2]
            if b[0] == "r" and len(b) > 2 and b[2]:
                out += [9, pos, b[1], len(b[2])]
                for f in b[2]:
                    out.append(len(f))
                    out.extend(f)
            elif b[0] == "r":
                out += [5, pos, b[1]]
            elif b[0] == "x" and len(b) > 2 and b[2]:
                out += [11, pos, b[1], len(b[2])]
                for f in b[2]:
                    out.append(len(f))
                    out.extend(f)
            elif b[0] == "x":
                out += [6, pos, b[1]]
            else:
                out += [7, pos, b[2], len(b[1])]
                out.extend(b[1])
                fs = b[3] if len(b) > 3 else []
                out.append(len(fs))
                for f in fs:
                    out.append(len(f))
                    out.extend(f)
        elif o[0] == "r" and len(o) > 2 and o[2]:
            out += [8, o[1], len(o[2])]
            for f in o[2]:
                out.append(len(f))
                out.extend(f)
        elif o[0] == "r":
            out += [0, o[1]]
        elif o[0] == "x" and len(o) > 2 and o[2]:
            out += [10, o[1], len(o[2])]
            for f in o[2]:
                out.append(len(f))
                out.extend(f)
        elif o[0] == "x":
            out += [1, o[1]]
        elif o[0] == "u":
            if len(o) > 3 and o[3]:
                out += [4, o[2], len(o[1])]
                out.extend(o[1])
                out.append(len(o[3]))
                for f in o[3]:
                    out.append(len(f))
                    out.extend(f)
            else:
                out += [2, o[2], len(o[1])]
                out.extend(o[1])
        else:
            out += [3, len(o[1])]
            out.extend(o[1])
    return out


class BufRun:
    """One case: runs the ops on the real BufferedByteReceiveStream, records observations (codec format), monitors."""

    __slots__ = ("kind", "chunks", "ops", "outs", "mon", "flags", "resolved")

    def __init__(self, kind, chunks, ops):
        self.kind, self.chunks, self.ops = kind, chunks, ops
        self.outs = []
        self.mon = []
        self.flags = set()
        self.resolved = []               # the ops as the model is given them (cancellation positions resolved)

    async def run(self):
        await self.execute()
        return self

    async def execute(self):
        I = impl()
        CancelScope, Cancelled = I["CancelScope"], I["Cancelled"]()
        EndOfStream, IncompleteRead, DelimiterNotFound = I["EndOfStream"], I["IncompleteRead"], I["DelimiterNotFound"]
        events = []                      # ("p", piece handed out by the wrapped stream) / ("f", fed during a wait)
        wrapped = (I["FakeObjectStream"] if self.kind else I["FakeByteStream"])(self.chunks, events)
        s = I["Buffered"](wrapped)
        wrapped.owner = s
        outs = self.outs
        mon = self.mon
        flags = self.flags
        consumed = b""                   # results + consumed delimiters, in order
        arrived = b""                    # fed + received bytes, in order of arrival
        whole = b"".join(bytes(c) for c in self.chunks)
        for idx, o in enumerate(self.ops):
            cancel_k = None
            if o[0] == "c":
                cancel_k, o = o[1], tuple(o[2])
            buf0 = s.buffer
            np0 = len(events)
            rest0 = b"".join(wrapped.chunks)
            logical0 = buf0 + rest0
            t = o[0]
            code, val = 0, b""
            unused_feeds = 0
            was_cancelled = False
            wrapped.fetches = 0
            try:
                if t == "f":
                    s.feed_data(bytes(o[1]))
                    code = 5
                else:
                    if t == "r":
                        wrapped.midfeeds = [bytes(f) for f in o[2]] if len(o) > 2 else []
                        call = s.receive(o[1])
                    elif t == "x":
                        wrapped.midfeeds = [bytes(f) for f in o[2]] if len(o) > 2 else []
                        call = s.receive_exactly(o[1])
                    else:
                        wrapped.midfeeds = [bytes(f) for f in o[3]] if len(o) > 3 else []
                        call = s.receive_until(bytes(o[1]), o[2])
                    try:
                        if cancel_k is None:
                            val = await call
                        else:
                            scope = CancelScope()
                            wrapped.scope, wrapped.cancel_at = scope, max(cancel_k, 1)
                            try:
                                with scope:
                                    if cancel_k == 0:
                                        scope.cancel()
                                    try:
                                        val = await call
                                    except Cancelled:
                                        was_cancelled = True
                                        raise
                            finally:
                                wrapped.scope, wrapped.cancel_at = None, 0
                                await asyncio.sleep(0)      # let the loop drop the scope's cancelled call-backs
                            if was_cancelled:
                                code, val = 6, b""
                    finally:
                        unused_feeds = len(wrapped.midfeeds)
                        wrapped.midfeeds = []
            except EndOfStream:
                code = 1
            except IncompleteRead:
                code = 2
            except DelimiterNotFound:
                code = 3
            except ValueError:
                code = 4
            except Cancelled:
                code = 6
                mon.append(f"op {idx} {o}: cancellation exception outside a cancelled scope")
            except Exception as e:  # noqa: BLE001 - any other class is reported
                code = 8
                mon.append(f"op {idx} {o}: unexpected {type(e).__name__}: {e}")
            if cancel_k is None:
                self.resolved.append(o)
            else:
                # where the cancellation was observed: at entry (no fetch attempted) or at the fetch that raised it
                pos = cancel_k if cancel_k >= 1 else (wrapped.fetches if code == 6 else 1)
                self.resolved.append(("c", pos, o))
                flags.add("cancelled_call" if code == 6 else "call_in_cancelled_scope_completed")
                if code == 6 and events[np0:] and any(k == "p" and b for k, b in events[np0:]):
                    flags.add("cancelled_after_fetching_data")
                if code == 6 and cancel_k == 0 and buf0:
                    flags.add("cancelled_at_entry_with_buffered_data")
            if not isinstance(val, bytes):
                mon.append(f"op {idx} {o}: result is {type(val).__name__}, not bytes")
                val = bytes(val)
            buf1 = s.buffer
            outs.append(code)
            outs.append(len(val))
            outs.extend(val)
            outs.append(len(buf1))
            outs.extend(buf1)

            # ---------------- monitors (history only, no model) ----------------
            evs = events[np0:]
            pieces = [b for k, b in evs if k == "p"]
            got = b"".join(pieces)                              # read from the wrapped stream during the call
            fed_call = b"".join(b for k, b in evs if k == "f")
            if t == "r":
                # a receive() that had to wait was parked on an EMPTY buffer before anything was fed: the item it was
                # waiting for comes first (handed out contiguously), the data fed meanwhile follows the complete item
                arr_call = got + fed_call
            else:
                arr_call = b"".join(b for _, b in evs)          # everything that arrived during the call, in order
            midfed = any(k == "f" and b for k, b in evs)
            if t == "f":
                arrived += bytes(o[1])
                if evs:
                    mon.append(f"op {idx}: feed_data read from the wrapped stream")
                if buf0:
                    flags.add("feed_behind_buffered_data")
                flags.add("feed")
            else:
                arrived += arr_call
            delim = bytes(o[1]) if t == "u" else b""
            if code == 0:
                consumed += val + delim
            rest1 = b"".join(wrapped.chunks)
            logical1 = buf1 + rest1
            if t != "f" and code == 0 and not midfed and logical0 != val + delim + logical1:
                mon.append(f"op {idx} {o}: stream {logical0!r} != result {val!r} + delimiter {delim!r} + rest {logical1!r}")
            if t == "r" and code == 0 and not buf0 and fed_call:
                flags.add("feed_data_during_receive")
                item = got
                if len(item) > len(val):
                    flags.add("surplus_and_fed_data_after_receive")
                if val + buf1 != item + fed_call:
                    mon.append(f"op {idx} {o}: received item {item!r} split by fed data {fed_call!r}: handed out {val!r}, "
                               f"then the buffer holds {buf1!r} (expected {item[len(val):] + fed_call!r})")
            # M5 a failing call consumes nothing: what arrived meanwhile is in the buffer, in order, behind what was there
            if code in (1, 2, 3, 4, 6, 8):
                if buf1 != buf0 + arr_call:
                    expected = buf0 + arr_call
                    lost = expected[: len(expected) - len(buf1)] if buf1 and expected.endswith(buf1) else (expected if not buf1 else b"?")
                    shown = o if cancel_k is None else ("scope cancelled before the call" if cancel_k == 0 else f"fetch {cancel_k} cancelled", o)
                    mon.append(f"op {idx} {shown}: {'cancelled' if code == 6 else 'failing'} call: buffer {buf0!r} + arrived "
                               f"{arr_call!r} became {buf1!r}: bytes {lost!r} are lost")
                if not midfed and logical1 != logical0:
                    mon.append(f"op {idx} {o}: failing call changed the stream: {logical0!r} -> {logical1!r}")
            # M1 conservation / prefix property: handed out + delimiters, then the buffer, is exactly what arrived
            if consumed + buf1 != arrived:
                mon.append(f"op {idx} {o}: conservation broken: handed out+delimiters {consumed!r} + buffer {buf1!r} "
                           f"!= fed+received {arrived!r}")
            if t == "r":
                n = o[1]
                if n >= 1:
                    if code == 0:
                        if not (1 <= len(val) <= n):
                            if not self.kind and not buf0 and pieces == [b""] and val == b"":
                                flags.add("empty_chunk_of_a_contract_violating_byte_stream_passed_on")
                            else:
                                mon.append(f"op {idx}: receive({n}) returned {len(val)} bytes"
                                           + (" (empty item of the object stream passed on)" if b"" in pieces else ""))
                        if buf0 and (val != buf0[:n] or evs):
                            mon.append(f"op {idx}: receive({n}) with buffered data {buf0!r} returned {val!r} / touched the wrapped stream")
                        if not buf0 and self.kind and pieces and len(pieces[-1]) > n:
                            flags.add("object_surplus_kept")
                        if self.kind and b"" in pieces:
                            flags.add("empty_items_skipped_by_receive")
                    elif code == 1:
                        if logical0:
                            mon.append(f"op {idx}: receive({n}) raised EndOfStream with {logical0!r} still available")
                        flags.add("end_of_stream")
                        if self.kind and b"" in pieces:
                            flags.add("empty_items_then_end_of_stream")
                    elif not (code == 6 and cancel_k is not None):
                        mon.append(f"op {idx}: receive({n}) failed with code {code}")
                else:
                    if code == 0:
                        mon.append(f"op {idx}: receive({n}) returned {val!r} for a non-positive max_bytes")
                    flags.add("receive_non_positive_max_bytes")
            elif t == "x":
                n = o[1]
                if n >= 0:
                    if midfed:
                        flags.add("feed_data_during_receive_exactly")
                    if code == 0:
                        if len(val) != n:
                            mon.append(f"op {idx}: receive_exactly({n}) returned {len(val)} bytes"
                                       + (f" (data was fed during its wait: {fed_call!r})" if midfed else ""))
                        if len(pieces) > 1:
                            flags.add("exactly_several_reads")
                        # exactly the first n bytes in ARRIVAL order (buffered, then per fetch: fed data, chunk); the
                        # rest of what arrived stays buffered, in order
                        if val != (buf0 + arr_call)[:n] or buf1 != (buf0 + arr_call)[n:]:
                            mon.append(f"op {idx}: receive_exactly({n}) with buffer {buf0!r} and arrivals {arr_call!r} "
                                       f"(fed {fed_call!r}) returned {val!r} and left {buf1!r}: not the first {n} bytes "
                                       f"in arrival order followed by the rest")
                        if midfed and len(buf0) + len(got) + len(fed_call) > n:
                            flags.add("exactly_fed_data_beyond_count")
                    elif code == 2:
                        if len(logical0) >= n:
                            mon.append(f"op {idx}: receive_exactly({n}) raised IncompleteRead with {len(logical0)} bytes available")
                        if rest1:
                            mon.append(f"op {idx}: receive_exactly({n}) raised IncompleteRead although the wrapped stream still holds {rest1!r}")
                        flags.add("incomplete_read")
                        if got:
                            flags.add("failed_call_keeps_received_bytes_in_buffer")
                    elif not (code == 6 and cancel_k is not None):
                        mon.append(f"op {idx}: receive_exactly({n}) failed with code {code}")
                    if code == 0 and len(logical0) + len(fed_call) < n:
                        mon.append(f"op {idx}: receive_exactly({n}) succeeded with only {len(logical0) + len(fed_call)} bytes in the stream")
                else:
                    # "exactly n bytes or IncompleteRead": no byte string has a negative length, the call must fail
                    if code == 0:
                        mon.append(f"op {idx}: receive_exactly({n}) returned {val!r} (buffer {buf0!r} -> {buf1!r}) "
                                   f"instead of failing for a negative count")
                    flags.add("exactly_negative_count")
            elif t == "u" and len(delim) >= 1:
                m = o[2]
                # the stream in arrival order: what was buffered, what arrived during the call, what is still to come
                view = buf0 + arr_call + (rest1 if not unused_feeds else b"")
                first = view.find(delim)
                if midfed:
                    flags.add("feed_data_during_receive_until")
                if code == 0:
                    if (val + delim).find(delim) != len(val):
                        mon.append(f"op {idx}: receive_until({delim!r}) result {val!r} contains the delimiter")
                    if first != len(val):
                        mon.append(f"op {idx}: receive_until({delim!r}) returned {val!r} but the first delimiter of {view!r} is at {first}")
                    if pieces and len(buf0) + 1 - len(delim) > 0 and first < len(buf0) and first + len(delim) > len(buf0):
                        flags.add("delimiter_straddles_buffer_and_new_chunk")
                    if midfed and evs and first < len(buf0) + sum(len(b) for k, b in evs[:next((i for i, e in enumerate(evs) if e[0] == "p"), 0)]):
                        flags.add("delimiter_inside_data_fed_during_the_wait")
                    if len(val) + len(delim) > max(m, 0):
                        flags.add("delimiter_found_beyond_max_bytes")
                elif code == 3:
                    if 0 <= first and first + len(delim) <= m:
                        mon.append(f"op {idx}: DelimiterNotFound({m}) although {delim!r} occurs at {first} in {view!r}")
                    flags.add("delimiter_not_found")
                    if got:
                        flags.add("failed_call_keeps_received_bytes_in_buffer")
                elif code == 2:
                    # data fed during the very last wait (the one that met the end of the stream) is not searched
                    before_last = evs[:-1] if evs and evs[-1][0] == "f" else evs
                    seen = buf0 + b"".join(b for _, b in before_last)
                    if seen.find(delim) >= 0:
                        mon.append(f"op {idx}: IncompleteRead although {delim!r} occurs in {seen!r}")
                    if rest1:
                        mon.append(f"op {idx}: IncompleteRead with {rest1!r} still in the wrapped stream")
                    flags.add("until_incomplete")
                elif not (code == 6 and cancel_k is not None):
                    mon.append(f"op {idx}: receive_until failed with code {code}")
                if m <= 0:
                    flags.add("until_non_positive_max_bytes")
                # documented bound ("maximum number of bytes that will be read before raising"): the wrapped stream is
                # asked for more only while fewer than max_bytes bytes are buffered
                have = len(buf0)
                i = 0
                while i < len(evs):
                    if have >= m:
                        mon.append(f"op {idx}: receive_until(max_bytes={m}) read on with {have} bytes buffered and no delimiter")
                        break
                    if evs[i][0] == "f":
                        have += len(evs[i][1])
                        i += 1
                        if i < len(evs) and evs[i][0] == "p":
                            have += len(evs[i][1])
                            i += 1
                    else:
                        have += len(evs[i][1])
                        i += 1
            if not self.kind and wrapped.splits:
                flags.add("byte_stream_split_by_max_bytes")
                wrapped.splits = 0
            if wrapped.bad_max:
                mon.append(f"op {idx} {o}: wrapped byte stream asked for max_bytes={wrapped.bad_max}")
                wrapped.bad_max.clear()
        if whole != b"".join(b for k, b in events if k == "p") + b"".join(wrapped.chunks):
            mon.append("wrapped stream bookkeeping broken")

    def flat(self):
        return buf_flat(self.kind, self.chunks, self.resolved)

    @classmethod
    def enc_op(cls, o):
        if o[0] == "c":
            return ["c", o[1], cls.enc_op(o[2])]

        def enc(x):
            if isinstance(x, (list, tuple)) and x and isinstance(x[0], (list, tuple, bytes)):
                return [bytes(f).decode("latin-1") for f in x]             # feeds
            if isinstance(x, (list, tuple, bytes)):
                return bytes(x).decode("latin-1") if not (isinstance(x, (list, tuple)) and not x and False) else x
            return x
        out = [o[0]]
        for i, x in enumerate(o[1:], 1):
            if (o[0] == "u" and i == 3) or (o[0] == "r" and i == 2):
                out.append([bytes(f).decode("latin-1") for f in x])
            else:
                out.append(enc(x))
        return out

    def replay(self):
        return {"kind": "buffered", "wrapped": "object stream of bytes" if self.kind else "byte stream",
                "chunks": [bytes(c).decode("latin-1") for c in self.chunks],
                "ops": [self.enc_op(o) for o in self.ops],
                "ops_as_given_to_the_model": [self.enc_op(o) for o in self.resolved],
                "flat_case": self.flat(), "impl_observations": self.outs}


def buf_from_replay(c):
    """Rebuild a buffered case from a replay / corpus file (strings are latin-1)."""
    kind = 1 if str(c["wrapped"]).startswith("object") or c["wrapped"] == 1 else 0
    chunks = [list(x.encode("latin-1")) if isinstance(x, str) else list(x) for x in c["chunks"]]
    def dec(o):
        if o[0] == "c":
            return ("c", o[1], dec(o[2]))
        out = [o[0]]
        for i, x in enumerate(o[1:], 1):
            if (o[0] == "u" and i == 3) or (o[0] == "r" and i == 2):
                out.append([list(f.encode("latin-1")) if isinstance(f, str) else list(f) for f in x])
            elif isinstance(x, str):
                out.append(list(x.encode("latin-1")))
            else:
                out.append(x)
        return tuple(out)

    return BufRun(kind, chunks, [dec(o) for o in c["ops"]])


def text_from_replay(c):
    return TextRun(ENCODINGS.index(c["encoding"]), [list(x) for x in c["chunks"]], [tuple(o) for o in c["ops"]],
                   use_textstream=bool(c.get("textstream")))


def replay(path):
    """python harness/c16.py <replay.json>: re-run one stored case on the implementation and print the monitors."""
    c = json.loads(open(path).read())
    if c.get("kind") == "tie":
        c = (c.get("case") or {}).get("case") or {}
    impl()
    run = _impl["anyio"].run((buf_from_replay(c) if c.get("kind") == "buffered" else text_from_replay(c)).run)
    print("observations:", run.outs)
    for m in run.mon:
        print("MONITOR:", m)
    return 1 if run.mon else 0


def chunkings(data):
    """All ways to cut a non-empty sequence into non-empty consecutive chunks."""
    n = len(data)
    if n == 0:
        yield []
        return
    for mask in range(1 << (n - 1)):
        out, cur = [], [data[0]]
        for i in range(1, n):
            if mask >> (i - 1) & 1:
                out.append(cur)
                cur = []
            cur.append(data[i])
        out.append(cur)
        yield out


def buf_vocab(maxn, extra=False):
    ops = [("r", n) for n in range(1, maxn + 1)]
    ops += [("x", n) for n in range(-1 if True else 0, maxn + 1)]          # -1: must be refused, nothing consumed
    for d in ([D1], [D1, D2]):
        for m in range(1, maxn + 2):
            ops.append(("u", d, m))
    ops += [("f", [A]), ("f", [D1]), ("f", [D2, B])]
    if extra:
        ops += [("r", 0), ("u", [D1], 0), ("u", [D1, D2], -1), ("x", -2)]
    return ops


def with_empty_items(ch):
    """the chunking itself, and the chunking with one empty item inserted at every position (object streams only)"""
    yield ch
    for i in range(len(ch) + 1):
        yield ch[:i] + [[]] + ch[i:]


def buf_exhaustive(maxlen, maxn, seqlen, empties_upto=2, extra=False):
    """alphabet^<=maxlen x all chunkings (object kind: also with an empty item at any position, for streams up to
    empties_upto bytes) x both kinds x all op sequences of length 1..seqlen over the vocabulary."""
    vocab = buf_vocab(maxn, extra)
    seqs = []
    for k in range(1, seqlen + 1):
        seqs += [list(p) for p in itertools.product(vocab, repeat=k)]
    for ln in range(0, maxlen + 1):
        for data in itertools.product((A, B, D1, D2), repeat=ln):
            for ch in chunkings(list(data)):
                for ops in seqs:
                    yield 0, ch, ops
                for ch2 in (with_empty_items(ch) if ln <= empties_upto else [ch]):
                    for ops in seqs:
                        yield 1, ch2, ops


MID_FEEDS = [[], [A], [D1], [D2], [A, D1, B], [D1, D2]]


def buf_midfeed_exhaustive(maxlen):
    """receive_until with feed_data during its waits: streams up to maxlen x all chunkings x both kinds x
    delimiters ';' ';\n' x max_bytes 3, 9 x every list of 1 or 2 feeds over MID_FEEDS, alone or followed by one call"""
    feeds = [[f] for f in MID_FEEDS] + [[f, g] for f in MID_FEEDS for g in MID_FEEDS]
    firsts = [("u", d, m, fl) for d in ([D1], [D1, D2]) for m in (3, 9) for fl in feeds]
    seconds = [None, ("r", 3), ("u", [D1], 9), ("x", 1)]
    for ln in range(0, maxlen + 1):
        for data in itertools.product((A, B, D1, D2), repeat=ln):
            for ch in chunkings(list(data)):
                for kind in (0, 1):
                    for f in firsts:
                        for g in seconds:
                            yield kind, ch, [f] if g is None else [f, g]


def buf_receive_feed_exhaustive(maxlen):
    """receive(n) with feed_data during its waits: streams up to maxlen x all chunkings (object streams also with an empty
    item at every position: several fetches, one feed each) x both kinds x n 1..3 x every list of 1 or 2 feeds, alone,
    cancelled at the 2nd fetch, or followed by one call that shows the order of what is left"""
    feeds = [[f] for f in MID_FEEDS[1:]] + [[f, g] for f in MID_FEEDS for g in MID_FEEDS[1:]]
    afters = [None, ("r", 9), ("x", 2), ("u", [D1], 9)]
    for ln in range(0, maxlen + 1):
        for data in itertools.product((A, B, D1, D2), repeat=ln):
            for ch in chunkings(list(data)):
                for kind in (0, 1):
                    for ch2 in (with_empty_items(ch) if kind and ln <= 2 else [ch]):
                        for n in (1, 2, 3):
                            for fl in feeds:
                                for a in afters:
                                    yield kind, ch2, [("r", n, fl)] + ([a] if a else [])
                                if kind and len(ch2) > len(ch):
                                    yield kind, ch2, [("c", 2, ("r", n, fl)), ("r", 9)]


def buf_exactly_feed_exhaustive(maxlen):
    """receive_exactly(n) with feed_data during its waits: streams up to maxlen x all chunkings (so that the chunk a byte
    stream hands out is exactly / less than / an object item more than the `remaining` computed before the wait) x both
    kinds x with or without data already buffered x n 1..4 x every list of 1 or 2 feeds, alone, cancelled at the 2nd
    fetch, or followed by one call that shows the order of what is left"""
    feeds = [[f] for f in MID_FEEDS[1:]] + [[f, g] for f in MID_FEEDS for g in MID_FEEDS[1:]]
    befores = [None, ("f", [B])]
    afters = [None, ("r", 9), ("x", 2)]
    for ln in range(0, maxlen + 1):
        for data in itertools.product((A, B, D1, D2), repeat=ln):
            for ch in chunkings(list(data)):
                for kind in (0, 1):
                    for b in befores:
                        for n in (1, 2, 3, 4):
                            for fl in feeds:
                                for a in afters:
                                    yield kind, ch, [o for o in (b, ("x", n, fl), a) if o is not None]
                                yield kind, ch, [o for o in (b, ("c", 2, ("x", n, fl)), ("r", 9)) if o is not None]


def buf_cancel_exhaustive(maxlen):
    """calls in a cancel scope: cancelled before the call (k=0), at their first or second fetch; with or without data
    already buffered; alone or followed by a call that shows what is left"""
    befores = [None, ("f", [A, D1]), ("r", 1)]
    calls = [("r", 1), ("r", 3), ("x", 2), ("x", 3), ("u", [D1], 3), ("u", [D1, D2], 9), ("u", [D1], 9, [[A], [D1]])]
    afters = [None, ("r", 9), ("x", 1)]
    for ln in range(0, maxlen + 1):
        for data in itertools.product((A, B, D1, D2), repeat=ln):
            for ch in chunkings(list(data)):
                for kind in (0, 1):
                    for ch2 in (with_empty_items(ch) if kind and ln <= 1 else [ch]):
                        for b in befores:
                            for c in calls:
                                for k in (0, 1, 2):
                                    for a in afters:
                                        yield kind, ch2, [o for o in (b, ("c", k, c), a) if o is not None]


def buf_random(rng, n):
    for _ in range(n):
        kind = rng.randrange(2)
        ln = rng.choice([0, 1, 3, 6, 10, 16, 30])
        alphabet = rng.choice([(A, B, D1, D2), (A, D1, D2), tuple(range(256)), (D1, D2)])
        data = [rng.choice(alphabet) for _ in range(ln)]
        chunks = []
        i = 0
        while i < ln:
            k = rng.choice([1, 1, 2, 3, 5, 8])
            chunks.append(data[i:i + k])
            i += k
        if kind == 1 and rng.random() < 0.35:
            for _ in range(rng.choice([1, 1, 2, 3])):               # empty items of an object stream are legitimate
                chunks.insert(rng.randrange(len(chunks) + 1), [])
        elif rng.random() < 0.04:
            chunks.insert(rng.randrange(len(chunks) + 1), [])       # contract-violating byte stream (correspondence only)
        dl = rng.choice([1, 1, 2, 2, 3, 0])
        d = [rng.choice((D1, D2)) for _ in range(dl)] if rng.random() < 0.7 else [rng.choice(alphabet) for _ in range(dl)]
        ops = []
        for _ in range(rng.choice([1, 2, 3, 5, 8])):
            r = rng.random()
            if r < 0.3:
                n = rng.choice([1, 1, 2, 3, 4, 7, 100, 0, -1])
                if rng.random() < 0.3:
                    ops.append(("r", n, [[rng.choice(alphabet) for _ in range(rng.choice([0, 1, 2, 3]))]
                                         for _ in range(rng.choice([1, 2, 3]))]))
                else:
                    ops.append(("r", n))
            elif r < 0.55:
                n = rng.choice([0, 1, 2, 3, 4, 6, 9, 20, -1, -2])
                if rng.random() < 0.35:
                    ops.append(("x", n, [[rng.choice(alphabet) for _ in range(rng.choice([0, 1, 2, 3, 5]))]
                                         for _ in range(rng.choice([1, 2, 3]))]))
                else:
                    ops.append(("x", n))
            elif r < 0.9:
                m = rng.choice([0, 1, 2, 3, 4, 5, 8, 12, 40, -1])
                if rng.random() < 0.4:
                    pool = list(alphabet) + d
                    feeds = [[rng.choice(pool) for _ in range(rng.choice([0, 1, 2, 3, 5]))]
                             for _ in range(rng.choice([1, 2, 3]))]
                    ops.append(("u", d, m, feeds))
                else:
                    ops.append(("u", d, m))
            else:
                ops.append(("f", [rng.choice(alphabet) for _ in range(rng.choice([0, 1, 2, 4]))]))
            if ops[-1][0] != "f" and rng.random() < 0.15:
                ops[-1] = ("c", rng.choice([0, 0, 1, 2, 3]), ops[-1])
        yield kind, chunks, ops


def buf_big_case():
    """byte stream holding one chunk larger than the default max_bytes of receive(): receive_until gets it in pieces"""
    big = [A] * 65534 + [B, D1, D2] + [A] * 5000
    return 0, [big], [("u", [D1, D2], 100000), ("r", 10), ("x", 4000), ("u", [D1], 5000)]


# ----------------------------------------------------------------------------------------------------------------
# Text: implementation side
# ----------------------------------------------------------------------------------------------------------------

ENCODINGS = ["utf-8", "latin-1", "utf-16", "utf-16-le", "utf-16-be", "utf-32", "utf-32-le", "utf-32-be"]


def to_str(cps):
    return "".join(map(chr, cps))


class TextRun:
    """One case: enc, initial wire chunks, ops ("r",) / ("s", code points).  `expect` = strings whose concatenation a
    fully drained decode-only case must produce (round trip through a re-chunked wire), `sent_before` = number of
    send() calls that produced the bytes of such a case."""

    __slots__ = ("enc", "chunks", "ops", "outs", "mon", "flags", "known", "expect", "sent_before", "use_textstream", "sent_bytes")

    def __init__(self, enc, chunks, ops, expect=None, sent_before=0, use_textstream=False):
        self.enc, self.chunks, self.ops = enc, chunks, ops
        self.expect, self.sent_before, self.use_textstream = expect, sent_before, use_textstream
        self.outs, self.mon, self.flags, self.known = [], [], set(), []
        self.sent_bytes = []

    async def run(self):
        await self.execute()
        return self

    async def execute(self):
        I = impl()
        EndOfStream = I["EndOfStream"]
        name = ENCODINGS[self.enc]
        wire = I["Loopback"](self.chunks)
        if self.use_textstream:
            rs = ss = I["TextStream"](wire, encoding=name)
        else:
            rs = I["TextReceiveStream"](wire, encoding=name)
            ss = I["TextSendStream"](wire, encoding=name)
        outs, mon, flags = self.outs, self.mon, self.flags
        received = ""
        sent = []
        consumed_chunks = 0
        had_error = False
        initial = [bytes(c) for c in self.chunks]
        for idx, o in enumerate(self.ops):
            if o[0] == "r":
                before = len(wire.chunks)
                try:
                    v = await rs.receive()
                    if not isinstance(v, str):
                        mon.append(f"op {idx}: receive() returned {type(v).__name__}")
                        v = str(v)
                    outs.append(0)
                    outs.append(len(v))
                    outs.extend(map(ord, v))
                    if v == "":
                        mon.append(f"op {idx}: receive() returned an empty string")
                    received += v
                    if before - len(wire.chunks) > 1:
                        flags.add("receive_loops_over_chunks_without_output")
                except EndOfStream:
                    outs += [1, 0]
                    flags.add("end_of_stream")
                    # everything that was sent on the loop-back has now been offered to the decoder
                    if not had_error and not initial and sent:
                        want = "".join(sent)
                        if received != want:
                            mon.append(f"op {idx}: round trip ({name}): sent {sent!r} received {received!r}")
                        else:
                            flags.add("roundtrip_checked")
                except UnicodeDecodeError:
                    outs += [2, 0]
                    had_error = True
                    flags.add("decode_error")
                except UnicodeError:
                    outs += [3, 0]
                    had_error = True
                    flags.add("bom_missing_error")
                except Exception as e:  # noqa: BLE001
                    outs += [8, 0]
                    had_error = True
                    mon.append(f"op {idx}: receive() raised {type(e).__name__}: {e}")
            else:
                text = to_str(o[1])
                n0 = len(wire.sent)
                try:
                    await ss.send(text)
                    if len(wire.sent) != n0 + 1:
                        mon.append(f"op {idx}: send() made {len(wire.sent) - n0} transport sends")
                        b = b"".join(wire.sent[n0:])
                    else:
                        b = wire.sent[-1]
                    outs.append(4)
                    outs.append(len(b))
                    outs.extend(b)
                    sent.append(text)
                    self.sent_bytes.append(b)
                except UnicodeEncodeError:
                    outs += [5, 0]
                    flags.add("encode_error")
                    if len(wire.sent) != n0:
                        mon.append(f"op {idx}: failing send() wrote to the transport")
                except Exception as e:  # noqa: BLE001
                    outs += [8, 0]
                    mon.append(f"op {idx}: send() raised {type(e).__name__}: {e}")
        # decode-only cases: compare with CPython decoding the concatenation in one piece (independent of the split)
        if not sent and initial:
            whole = b"".join(initial)
            drained = not wire.chunks and self.outs[-2:] == [1, 0]
            try:
                one = codecs.getincrementaldecoder(name)().decode(whole)
                one_err = False
            except UnicodeError:
                one, one_err = None, True
            if drained:
                if had_error != one_err:
                    mon.append(f"decode({whole!r}) in one piece {'fails' if one_err else 'succeeds'} but chunked "
                               f"{'fails' if had_error else 'succeeds'} ({initial!r})")
                elif not had_error:
                    if received != one:
                        mon.append(f"chunked decoding of {initial!r} gives {received!r}, decoding the concatenation gives {one!r}")
                    flags.add("chunking_checked")
                    if any(len(c) for c in initial) and len(initial) > 1:
                        flags.add("split_input")
                    try:
                        if whole.decode(name) == one:
                            flags.add("whole_input_valid")
                    except UnicodeError:
                        flags.add("truncated_tail_dropped_at_eof")
            if self.expect is not None and drained and not had_error:
                want = "".join(self.expect)
                if received != want:
                    mon.append(f"round trip ({name}) through chunks {initial!r}: sent {self.expect!r} received {received!r}")
                else:
                    flags.add("roundtrip_rechunked_checked")

    def flat(self):
        out = [self.enc, len(self.chunks)]
        for c in self.chunks:
            out.append(len(c))
            out.extend(c)
        for o in self.ops:
            if o[0] == "r":
                out.append(0)
            else:
                out += [1, len(o[1])]
                out.extend(o[1])
        return out

    def replay(self):
        return {"kind": "text", "encoding": ENCODINGS[self.enc], "textstream": self.use_textstream,
                "chunks": [list(c) for c in self.chunks], "ops": [list(o) for o in self.ops],
                "flat_case": self.flat(), "impl_observations": self.outs}


CPS = [0x41, 0xE9, 0x20AC, 0x1F600, 0x7F, 0x80, 0x7FF, 0x800, 0xFFFF, 0x10000, 0x10FFFF, 0xD7FF, 0xE000, 0xFEFF, 0xFF, 0x100]
U8_BYTES = [0x00, 0x41, 0x7F, 0x80, 0x8F, 0x90, 0x9F, 0xA0, 0xBF, 0xC0, 0xC1, 0xC2, 0xDF, 0xE0, 0xE1, 0xEC, 0xED,
            0xEE, 0xEF, 0xF0, 0xF1, 0xF3, 0xF4, 0xF5, 0xFF]
U16_BYTES = [0x00, 0x41, 0xD8, 0xDB, 0xDC, 0xDF, 0xFE, 0xFF, 0x10, 0x11]


def drain_ops(nchunks):
    return [("r",)] * (nchunks + 1)


def split_variants(rng, data, limit):
    """chunkings of `data`: all of them when there are at most `limit`, else whole, single bytes and random ones"""
    n = len(data)
    if n == 0:
        return [[]]
    if (1 << (n - 1)) <= limit:
        return list(chunkings(list(data)))
    out = [[list(data)], [[b] for b in data]]
    for _ in range(limit - 2):
        mask = rng.getrandbits(n - 1)
        cur, res = [data[0]], []
        for i in range(1, n):
            if mask >> (i - 1) & 1:
                res.append(cur)
                cur = []
            cur.append(data[i])
        res.append(cur)
        out.append(res)
    return out


def text_plan(tier):
    """(code point alphabet, max string length, max number of chunkings per byte string)"""
    if tier == "quick":
        return [(CPS[:8], 2, 16)]
    return [(CPS, 2, 256), (CPS[:6], 3, 64)]


async def _trun(*a, **kw):
    return await TextRun(*a, **kw).run()


async def text_cases(rng, tier):
    """Generator of TextRun objects; returns through `stats` the exhaustive bounds."""
    quick = tier == "quick"
    # (1) round trip: real TextSendStream, then every re-chunking of the produced bytes into the real TextReceiveStream
    for (alpha, maxlen, limit) in text_plan(tier):
        for enc in range(len(ENCODINGS)):
            for ln in range(0, maxlen + 1):
                for cps in itertools.product(alpha, repeat=ln):
                    if enc == 1 and any(c > 255 for c in cps) and ln > 1:
                        continue
                    # one send per string of the split (1 or 2 sends)
                    for cut in ([ln] if ln < 2 else [ln, 1]):
                        strings = [list(cps[:cut])] + ([list(cps[cut:])] if cut < ln else [])
                        s = await _trun(enc, [], [("s", x) for x in strings] + drain_ops(len(strings)),
                                    use_textstream=(ln + enc) % 2 == 0)
                        yield s
                        if "encode_error" in s.flags:
                            continue
                        data = b"".join(s.sent_bytes)
                        for ch in split_variants(rng, list(data), limit):
                            yield await _trun(enc, ch, drain_ops(len(ch)), expect=[to_str(x) for x in strings],
                                          sent_before=len(strings))
    # (2) encode errors: lone surrogates, out-of-range for latin-1
    for enc in range(len(ENCODINGS)):
        for cps in ([0xD800], [0x41, 0xDFFF], [0x100], [0x41, 0x20AC, 0x42], [0xDBFF, 0xDC00]):
            yield await _trun(enc, [], [("s", cps), ("s", [0x41]), ("r",), ("r",)])
    # (3) invalid / arbitrary byte sequences, exhaustive over a representative byte alphabet
    n8 = 3 if quick else 4
    for ln in range(1, n8 + 1):
        for data in itertools.product(U8_BYTES, repeat=ln):
            yield await _trun(0, [list(data)], drain_ops(1))
            if ln > 1:
                yield await _trun(0, [[b] for b in data], drain_ops(ln))
                if ln == 3:
                    yield await _trun(0, [list(data[:1]), list(data[1:])], drain_ops(2))
                    yield await _trun(0, [list(data[:2]), list(data[2:])], drain_ops(2))
    for enc in (2, 3, 4):
        for ln in range(1, 5 + (0 if quick or enc != 2 else 1)):
            for data in itertools.product(U16_BYTES, repeat=ln):
                if quick and ln == 4 and (enc != 2 or data[0] not in (0x00, 0xD8, 0xDC, 0x41, 0xFF, 0xFE)):
                    continue
                yield await _trun(enc, [list(data)], drain_ops(1))
                if ln > 1:
                    yield await _trun(enc, [[b] for b in data], drain_ops(ln))
                    if ln < 5:
                        k = 1 + (sum(data) % (ln - 1))
                        yield await _trun(enc, [list(data[:k]), list(data[k:])], drain_ops(2))
    u32 = [0x00, 0x41, 0x10, 0x11, 0xD8, 0xFE, 0xFF]
    for enc in (5, 6, 7):
        for ln in (4,) if quick else (1, 2, 3, 4):
            for data in itertools.product(u32, repeat=ln):
                yield await _trun(enc, [list(data)], drain_ops(1))
                if ln == 4:
                    yield await _trun(enc, [list(data[:3]), list(data[3:])], drain_ops(2))
        boms = {5: [[0xFF, 0xFE, 0, 0], [0, 0, 0xFE, 0xFF], []], 6: [[]], 7: [[]]}[enc]
        for bom in boms:
            for data in itertools.product(u32, repeat=4):
                if quick and (data[0] + data[3]) % 3:
                    continue
                full = bom + list(data)
                yield await _trun(enc, [full], drain_ops(1))
                yield await _trun(enc, [[b] for b in full], drain_ops(len(full)))
    # (4) random: longer code point mixes, random splits, interleaved send/receive on the loop-back, garbage bytes
    nrand = 1500 if quick else 20000
    for i in range(nrand):
        enc = rng.randrange(len(ENCODINGS))
        r = rng.random()
        if r < 0.45:
            pool = [c for c in CPS if enc != 1 or c < 256] + [0x61, 0x62, 0x1F601]
            ops = []
            for _ in range(rng.choice([2, 4, 6, 10])):
                if rng.random() < 0.5:
                    ops.append(("s", [rng.choice(pool) for _ in range(rng.choice([0, 1, 2, 5]))]))
                else:
                    ops.append(("r",))
            ops += [("r",)] * (len(ops) + 1)
            yield await _trun(enc, [], ops, use_textstream=bool(i & 1))
        elif r < 0.8:
            pool = [c for c in CPS if enc != 1 or c < 256]
            text = to_str([rng.choice(pool) for _ in range(rng.choice([3, 6, 12, 30]))])
            try:
                data = list(text.encode(ENCODINGS[enc]))
            except UnicodeError:
                continue
            if rng.random() < 0.3 and data:
                data = data[: rng.randrange(len(data))]         # truncated tail
            ch = split_variants(rng, data, 3)[-1] if data else []
            if rng.random() < 0.2:
                ch.insert(rng.randrange(len(ch) + 1), [])
            yield await _trun(enc, ch, drain_ops(len(ch)))
        else:
            balph = U8_BYTES if enc < 2 else U16_BYTES
            data = [rng.choice(balph) for _ in range(rng.choice([2, 5, 8, 12]))]
            ch = split_variants(rng, data, 3)[-1]
            yield await _trun(enc, ch, drain_ops(len(ch)) + [("r",)])


# ----------------------------------------------------------------------------------------------------------------
# check
# ----------------------------------------------------------------------------------------------------------------

BUF_NEED = ["feed_data_during_receive", "surplus_and_fed_data_after_receive", "cancelled_call", "call_in_cancelled_scope_completed", "cancelled_after_fetching_data",
            "cancelled_at_entry_with_buffered_data", "feed_data_during_receive_until", "delimiter_inside_data_fed_during_the_wait", "empty_items_skipped_by_receive",
            "empty_items_then_end_of_stream", "exactly_negative_count", "receive_non_positive_max_bytes",
            "until_non_positive_max_bytes", "delimiter_straddles_buffer_and_new_chunk", "object_surplus_kept", "byte_stream_split_by_max_bytes",
            "incomplete_read", "delimiter_not_found", "until_incomplete", "end_of_stream", "feed_behind_buffered_data",
            "exactly_several_reads", "failed_call_keeps_received_bytes_in_buffer", "delimiter_found_beyond_max_bytes"]
TEXT_NEED = ["chunking_checked", "split_input", "roundtrip_checked", "roundtrip_rechunked_checked", "decode_error",
             "bom_missing_error", "encode_error", "receive_loops_over_chunks_without_output",
             "truncated_tail_dropped_at_eof", "end_of_stream"]


class Side:
    """Batches the cases of one model, diffs against the extracted driver, keeps the statistics."""

    def __init__(self, tag, exe, rng, sample_p):
        self.tag, self.exe, self.rng, self.sample_p = tag, exe, rng, sample_p
        self.batch = []
        self.n = 0
        self.agree = 0
        self.disagreements = []
        self.monitor_hits = []
        self.known = []
        self.flags = {}
        self.nontrivial = set()
        self.fuel = 0
        self.sample = []
        self.opcount = {}
        self.nkinds = {}

    def add(self, run):
        self.batch.append(run)
        if len(self.batch) >= 40000:
            self.flush()

    def flush(self):
        if not self.batch:
            return
        cases = [r.flat() for r in self.batch]
        model = core.run_driver(self.exe, cases, timeout=900)
        for r, c, m in zip(self.batch, cases, model):
            self.n += 1
            if r.outs == m:
                self.agree += 1
            elif len(self.disagreements) < 50:
                e = r.outs
                k = next((i for i in range(min(len(e), len(m))) if e[i] != m[i]), min(len(e), len(m)))
                self.disagreements.append({"case": r.replay(), "model": m, "first_diff_index": k})
            else:
                self.disagreements.append(None)
            if r.mon and len(self.monitor_hits) < 200:
                self.monitor_hits.append(r)
            elif r.mon:
                self.monitor_hits.append(None)
            for k in getattr(r, "known", ()):
                if k not in self.known:
                    self.known.append(k)
            if r.flags:
                for f in r.flags:
                    self.flags[f] = self.flags.get(f, 0) + 1
                self.nontrivial.add(hash(tuple(c)))
            if self.rng.random() < self.sample_p and len(c) < 400 and len(self.sample) < 1000:
                self.sample.append((c, r.outs, r))
            for o in r.ops:
                self.opcount[o[0]] = self.opcount.get(o[0], 0) + 1
            key = getattr(r, "kind", None) if self.tag == "buffered" else r.enc
            self.nkinds[key] = self.nkinds.get(key, 0) + 1
        self.batch = []


async def shrink_buf(run):
    """Drop ops / chunks while some monitor still trips."""
    best = run
    changed = True
    while changed:
        changed = False
        for i in range(len(best.ops)):
            cand = await BufRun(best.kind, best.chunks, best.ops[:i] + best.ops[i + 1:]).run()
            if cand.mon:
                best, changed = cand, True
                break
        if changed:
            continue
        for i in range(len(best.chunks)):
            cand = await BufRun(best.kind, best.chunks[:i] + best.chunks[i + 1:], best.ops).run()
            if cand.mon:
                best, changed = cand, True
                break
    return best


def check(tier: str) -> int:
    rep = core.Report("C16", tier)
    rep.assumptions = [a for a in core.TRUSTED_BASE_COMMON if "asyncio Task" not in a and "SchedLoop" not in a] + [
        "correspondence harness (Python): fake transports, canonicalisation, generators, monitors - differential testing, bounds but does not remove the model/code gap",
        "model pure/Buffered.v hand-written from streams/buffered.py:30-172 (HEAD incl. fixes F27-F29); the wrapped stream is data (chunk list): a byte stream hands out min(max_bytes,|chunk|) bytes of its next chunk, an object stream whole items (possibly empty); concurrency = feed_data() by another task during the waits of receive, receive_exactly and receive_until (one feed per fetch); cancellation of a call before it starts or at any fetch; a second concurrent reader and aclose() are not modelled",
        "tie T (Buffered): tools/translate_buffered.py (python ast -> coq/pure/BufGen.v; fail-closed tables in the script) regenerates receive / receive_exactly / receive_until on every run as programs of pure/BufImp.v; BufGenEq.v proves their interpretation equal to Buffered.step (state and result) for every state, argument, cancellation point and feed list. Trusted in it: the translator's tables, the reading of `await self.receive_stream.receive(..)` as BufImp.fetch (cancellation / data fed by other tasks during the wait / Buffered.pull), `self._closed` read as False, feed_data / buffer / the _buffer field checked literally. Not the only tie: the same model is co-simulated against the running code below",
        "tie T (Text): tools/translate_text.py regenerates TextReceiveStream.receive / TextSendStream.send as programs of pure/TextImp.v (constructors, delegating methods and method sets checked literally); TextGenEq.v proves their interpretation equal to Text.tstep. Trusted: the translator's tables; codecs as modelled in Text.v",
        "model pure/Text.v hand-written from streams/text.py:33-108; CPython 3.12 codecs (strict) are a modelled environment: utf-8/latin-1 automata proved against the encoders in Coq, utf-16/utf-32 (+BOM handling, -le/-be) validated by this harness against `codecs` only; native byte order little endian",
    ]
    if sys.byteorder != "little":
        rep.notes.append("big-endian host: the utf-16/utf-32 native-order part of the model does not apply")
    # the two model files first (the drivers are extracted from them), then the proof cone in the background while the
    # cases run: both are subprocess-bound, the decision below waits for it
    core.coq_make(["pure/Buffered.vo", "pure/Text.vo"])
    proof_result = {}

    def prove():
        # tie T: regenerate pure/BufGen.v from the source under test, then rebuild the cone of props/C16.v (under the
        # `tiegen` lock: a concurrent check against another tree cannot swap the generated file in between)
        t_rc, t_out, ok = tiegen.translate_and_prove(rep, "props/C16.v", ["translate_buffered.py", "translate_text.py"])
        proof_result.update(ok=ok, t_rc=t_rc, t_out=t_out)
    proof_thread = threading.Thread(target=prove)
    proof_thread.start()
    try:
        exe_b = core.build_driver("buffered", "Buffered")
        exe_t = core.build_driver("text", "Text")
    except Exception:
        proof_thread.join()
        raise
    rng = random.Random(core.seed())
    quick = tier == "quick"

    async def run_cases():
        # ------------------------------------------------ buffered ------------------------------------------------
        sb = Side("buffered", exe_b, rng, 0.0004 if quick else 0.00005)
        corpus_dir = core.VERIF / "corpus" / "C16"
        n_corpus = 0
        for f in sorted(corpus_dir.glob("*.json")) if corpus_dir.exists() else []:
            c = json.loads(f.read_text())
            if c.get("kind") == "buffered":
                sb.add(await buf_from_replay(c).run())
                n_corpus += 1
        bounds = []
        # (max stream length, max n, max op-sequence length, empty items for streams up to, extra invalid-argument ops)
        plan = [(3, 2, 2, 2, False)] if quick else [(4, 3, 2, 3, False), (2, 2, 3, 2, True)]
        t_ex0 = time.time()
        n_ex = 0
        for (maxlen, maxn, seqlen, emp, extra) in plan:
            for kind, ch, ops in buf_exhaustive(maxlen, maxn, seqlen, emp, extra):
                sb.add(await BufRun(kind, ch, ops).run())
                n_ex += 1
            bounds.append({"alphabet": "a b ; \\n", "stream_length_upto": maxlen, "chunkings": "all",
                           "empty_items": f"object stream: one empty item at every position, streams up to {emp} bytes",
                           "wrapped": ["byte stream", "object stream"],
                           "op_vocabulary": f"receive 1..{maxn}, receive_exactly -1..{maxn}, receive_until(';' | ';\\n', 1..{maxn + 1}), feed_data(a | ; | \\nb)"
                                            + (", receive(0), receive_until(max_bytes 0 | -1), receive_exactly(-2)" if extra else ""),
                           "op_sequences": f"all of length 1..{seqlen}"})
        mid_len = 2 if quick else 3
        for kind, ch, ops in buf_midfeed_exhaustive(mid_len):
            sb.add(await BufRun(kind, ch, ops).run())
            n_ex += 1
        bounds.append({"family": "feed_data during the waits of receive_until", "stream_length_upto": mid_len,
                       "chunkings": "all", "wrapped": ["byte stream", "object stream"],
                       "delimiters": "; and ;\\n", "max_bytes": "3, 9",
                       "feeds": "every list of 1 or 2 feeds over '' a ; \\n a;b ;\\n (one per fetch)",
                       "then": "nothing | receive(3) | receive_until(';', 9) | receive_exactly(1)"})
        for kind, ch, ops in buf_receive_feed_exhaustive(mid_len):
            sb.add(await BufRun(kind, ch, ops).run())
            n_ex += 1
        bounds.append({"family": "feed_data during the waits of receive", "stream_length_upto": mid_len,
                       "chunkings": "all; object streams also with an empty item at every position",
                       "wrapped": ["byte stream", "object stream"], "n": "1..3",
                       "feeds": "every list of 1 or 2 feeds over '' a ; \\n a;b ;\\n (one per fetch)",
                       "then": "nothing | receive(9) | receive_exactly(2) | receive_until(';', 9); cancelled at the 2nd fetch"})
        xf_len = 3 if quick else 4
        for kind, ch, ops in buf_exactly_feed_exhaustive(xf_len):
            sb.add(await BufRun(kind, ch, ops).run())
            n_ex += 1
        bounds.append({"family": "feed_data during the waits of receive_exactly", "stream_length_upto": xf_len,
                       "chunkings": "all", "wrapped": ["byte stream", "object stream"], "n": "1..4",
                       "before": "nothing | feed_data(b)",
                       "feeds": "every list of 1 or 2 feeds over '' a ; \\n a;b ;\\n (one per fetch)",
                       "then": "nothing | receive(9) | receive_exactly(2); cancelled at the 2nd fetch, then receive(9)"})
        can_len = 2 if quick else 3
        for kind, ch, ops in buf_cancel_exhaustive(can_len):
            sb.add(await BufRun(kind, ch, ops).run())
            n_ex += 1
        bounds.append({"family": "cancellation", "stream_length_upto": can_len, "chunkings": "all",
                       "wrapped": ["byte stream", "object stream"],
                       "before": "nothing | feed_data(a;) | receive(1)",
                       "cancelled_call": "receive 1|3, receive_exactly 2|3, receive_until(';',3), receive_until(';\\n',9), "
                                         "receive_until(';',9) with feeds a and ; during its waits",
                       "cancellation": "scope cancelled before the call | at the 1st fetch | at the 2nd fetch",
                       "then": "nothing | receive(9) | receive_exactly(1)"})
        t_ex = time.time() - t_ex0
        n_rand = 6000 if quick else 150000
        for kind, ch, ops in buf_random(rng, n_rand):
            sb.add(await BufRun(kind, ch, ops).run())
        sb.add(await BufRun(*buf_big_case()).run())
        sb.flush()

        # -------------------------------------------------- text --------------------------------------------------
        st = Side("text", exe_t, rng, 0.002 if quick else 0.0002)
        for f in sorted(corpus_dir.glob("*.json")) if corpus_dir.exists() else []:
            c = json.loads(f.read_text())
            if c.get("kind") == "text":
                st.add(await text_from_replay(c).run())
                n_corpus += 1
        async for run in text_cases(rng, tier):
            st.add(run)
        st.flush()

        return sb, st, bounds, n_ex, t_ex, n_rand, n_corpus

    impl()
    sb, st, bounds, n_ex, t_ex, n_rand, n_corpus = _impl["anyio"].run(run_cases)

    proof_thread.join()
    proofs_ok = bool(proof_result.get("ok"))
    tie_T, tie_T_broken = tiegen.describe(rep, proof_result.get("t_rc", 2), proof_result.get("t_out", ""), proofs_ok,
                                          ("pure/BufGen.v", "pure/BufGenEq.v", "pure/TextGen.v", "pure/TextGenEq.v"),
                                          {"exactly_loop_eq": "gen_exactly (loop body)", "until_loop_eq": "gen_until (loop body)",
                                           "loop_nc_eq": "gen_receive (skip-empty-items loop)", "tie_receive": "gen_receive",
                                           "tie_exactly": "gen_exactly", "tie_until": "gen_until",
                                           "recv_loop_eq": "gen_text_receive (loop body)", "tie_text_receive": "gen_text_receive",
                                           "tie_text_send": "gen_text_send"})
    tie_T["translator"] = "tools/translate_buffered.py (python ast -> coq/pure/BufGen.v), tools/translate_text.py (-> coq/pure/TextGen.v), fail closed"
    tie_T["equality_theorems"] = ("BufGenEq.v: tie_receive, tie_exactly, tie_until, gstep_eq_step, grun_eq_run; "
                                  "TextGenEq.v: tie_text_receive, tie_text_send (props C16_tie_*)")
    rep.coverage["tie_T"] = tie_T

    # kernel-checked sample (after the build has finished: it reads the .vo files)
    vm = {}

    def vm_eval(side, mod):
        smp = side.sample[: (40 if quick else 300)]
        ok, log = core.coq_eval_cases("c16" + side.tag, mod, [c for c, _, _ in smp], [o for _, o, _ in smp])
        vm[side.tag] = (ok, len(smp), log)

    vm_threads = [threading.Thread(target=vm_eval, args=a) for a in ((sb, "Buffered"), (st, "Text"))]
    for th in vm_threads:
        th.start()
    for th in vm_threads:
        th.join()

    # ------------------------------------------------ decision ------------------------------------------------
    hits = 0
    for side in (sb, st):
        shown = 0
        for r in side.monitor_hits:
            hits += 1
            if r is None or shown >= 4:
                continue
            shown += 1
            if side is sb and len(r.flat()) < 300:
                r = _impl["anyio"].run(shrink_buf, r)
            rep.violation(r.mon[0], dict(r.replay(), monitor_messages=r.mon[:5]))
        for k in side.known:
            rep.known_finding(k)
    tie_broken = []
    if not proofs_ok:
        tie_broken.append("proof obligation: " + str(rep.coverage.get("proof_failure", {}).get("where")))
        tie_broken += tie_T_broken
    if sb.disagreements:
        tie_broken.append("correspondence Buffered.run_case vs BufferedByteReceiveStream")
    if st.disagreements:
        tie_broken.append("correspondence Text.run_case vs TextReceiveStream/TextSendStream over codecs")
    for side in (sb, st):
        ok, n, log = vm[side.tag]
        if not ok and not side.disagreements:
            tie_broken.append(f"vm_compute sample ({side.tag}) disagrees with the implementation/extracted model")
    if tie_broken and not hits:
        d = next((x for x in sb.disagreements + st.disagreements if x), None)
        rep.violation("; ".join(tie_broken), {"kind": "tie", "broken": tie_broken, "case": d}, no_input=True)

    for need, side in ((BUF_NEED, sb), (TEXT_NEED, st)):
        for f in need:
            if not side.flags.get(f):
                rep.notes.append(f"generator self-check: predicate {f} never reached")
    nd = len([x for x in sb.disagreements]) + len([x for x in st.disagreements])
    rep.coverage.update({
        "trusted_base": rep.assumptions,
        "evaluations": sb.n + st.n,
        "programs": sb.n + st.n,
        "traces_validated_against_impl": sb.agree + st.agree,
        "disagreements_checked": nd,
        "distinct_nontrivial": len(sb.nontrivial) + len(st.nontrivial),
        "rule": "buffered: every byte string over {a,b,;,\\n} up to the bound x every chunking x both wrapped-stream kinds x every op "
                "sequence over the vocabulary, object streams also with an empty item at every position, receive_until with every "
                "list of 1-2 feed_data calls made while it waits (the fake wrapped stream feeds the REAL wrapper before it answers), "
                "negative / zero counts and max_bytes (exhaustive part), plus random longer streams / chunk sizes / byte values / "
                "n, max_bytes incl. 0 and negative, delimiters of length 0-3, empty chunks, one 70 kB chunk; text: every string "
                "over boundary code points up to the bound sent through the real TextSendStream and every re-chunking of the "
                "bytes through the real TextReceiveStream, every byte sequence over boundary bytes up to the bound (valid and "
                "invalid) in several splits, random interleaved send/receive on a loop-back; non-trivial = reaches at least one "
                "of the predicates listed under `reached`",
        "exhaustive": True,
        "exhaustive_bounds": {"buffered": bounds, "buffered_cases": n_ex, "buffered_wall_s": round(t_ex, 1),
                              "text": {"roundtrip_plan": [{"code_points": [hex(c) for c in a], "string_length_upto": m,
                                                           "chunkings": f"all when <= {l}, else whole/bytewise/random up to {l}"}
                                                          for (a, m, l) in text_plan(tier)],
                                       "sends": "1 or 2",
                                       "utf8_byte_alphabet": [hex(b) for b in U8_BYTES],
                                       "utf8_sequences_upto": 3 if quick else 4,
                                       "utf16_byte_alphabet": [hex(b) for b in U16_BYTES],
                                       "utf16_sequences_upto": "3 (utf-16, -le, -be), 4 for utf-16 with first byte in 00 41 D8 DC FE FF" if quick else "5 (utf-16), 4 (-le, -be)",
                                       "encodings": ENCODINGS}},
        "random_cases": {"buffered": n_rand + 1, "text": 1500 if quick else 20000},
        "corpus_cases": n_corpus,
        "cases_by_model": {"buffered": sb.n, "text": st.n},
        "reached": {"buffered": sb.flags, "text": st.flags},
        "op_distribution": {"buffered": sb.opcount, "text": st.opcount},
        "kind_distribution": {"buffered(0=byte,1=object)": sb.nkinds, "text(encoding index)": st.nkinds},
        "vm_compute_sample": {k: v[1] for k, v in vm.items()},
        "vm_compute_ok": all(v[0] for v in vm.values()),
        "monitor_hits": hits,
        "known_findings_hit": sb.known + st.known,
        "samples": [{"case": r.replay()} for _, _, r in (sb.sample[:1] + st.sample[:1])],
    })
    return rep.finish()


if __name__ == "__main__":
    sys.path[:0] = [f"{core.REPO}/src"]
    sys.exit(replay(sys.argv[1]))
