"""Shared check machinery for the S-machine properties C01-C08: decoding of observations, reference semantics,
property monitors on the implementation's observable history, and the generic check driver."""

from __future__ import annotations

import json
import random

import core
import sgen
import smachine as S

DRIVER = ("smachine", "Machine")


# ------------------------------------------------------------------------------------------------------------
# decoding of the flat per-step encoding (same layout as Machine.enc_res ++ Machine.observe)
# ------------------------------------------------------------------------------------------------------------

def decode_step(a: list[int], pos: int):
    k = a[pos]
    if k == 0:
        res = ("ret", a[pos + 1]); pos += 2
    elif k == 1:
        n = a[pos + 2]
        res = ("exc", bool(a[pos + 1]), a[pos + 3:pos + 3 + n]); pos += 3 + n
    elif k == 2:
        res = ("blocked",); pos += 1
    elif k == 3:
        res = ("none",); pos += 1
    elif k == 4:
        res = ("time", a[pos + 1], a[pos + 2]); pos += 3
    else:
        res = ("rejected",); pos += 1
    snap = {"now": a[pos]}
    nt = a[pos + 1]; pos += 2
    snap["tasks"] = {}
    for t in range(1, nt + 1):
        st, nc, must, cur, hs, hret, hexc = a[pos:pos + 7]; pos += 7
        snap["tasks"][t] = dict(state=st, ncancel=nc, must=must, cur=cur, hstatus=hs, hret=hret, hexc=hexc)
    ns = a[pos]; pos += 1
    snap["scopes"] = {}
    for c in range(1, ns + 1):
        fl, pend, dl, host, par, ntk, nch = a[pos:pos + 7]; pos += 7
        snap["scopes"][c] = dict(active=bool(fl & 1), cancelled=bool(fl & 2), caught=bool(fl & 4), shield=bool(fl & 8),
                                 chandle=bool(fl & 16), thandle=bool(fl & 32), pending=pend, deadline=dl, host=host,
                                 parent=par, ntasks=ntk, nchildren=nch)
    ng = a[pos]; pos += 1
    snap["groups"] = {}
    for g in range(1, ng + 1):
        ntk, nex, fut, exsum = a[pos:pos + 4]; pos += 4
        snap["groups"][g] = dict(ntasks=ntk, nexcs=nex, fut=fut, exsum=exsum)
    nr = a[pos]; pos += 1
    snap["ready"] = a[pos:pos + nr]; pos += nr
    ntm = a[pos]; pos += 1
    snap["timers"] = [(a[pos + 2 * i], a[pos + 2 * i + 1]) for i in range(ntm)]; pos += 2 * ntm
    return res, snap, pos


def decode_run(ops: list[int], outs: list[int]):
    steps = []
    pos = 0
    for i in range(0, len(ops), 4):
        if pos >= len(outs):
            break
        res, snap, pos = decode_step(outs, pos)
        steps.append((tuple(ops[i:i + 4]), res, snap))
    return steps


# ------------------------------------------------------------------------------------------------------------
# reference semantics on snapshots (independent of the Coq model and of the implementation's own predicates)
# ------------------------------------------------------------------------------------------------------------

def ref_eff_cancelled(snap, c: int):
    """Returns the nearest cancelled scope reachable from c without crossing a shield, else 0.  A scope that has
    been left (API misuse: CancelScope.__exit__ on a scope that still contains tasks) no longer connects what is inside
    it to its former ancestors: the walk stops there (the implementation's walks do the same since the F42 fix)."""
    seen = 0
    start = c
    while c and seen < 200:
        sc = snap["scopes"][c]
        if sc["cancelled"]:
            return c                     # the scope's own flag counts even if it has been left
        if sc["shield"] or (c != start and not sc["active"]):
            return 0                     # ... but nothing above a shielded or a left scope is visible
        c = sc["parent"]
        seen += 1
    return 0


def ref_visible_cancelled_set(snap, c: int):
    """All cancelled scopes on the path from c upward until (and including) the first shielded scope."""
    out = []
    seen = 0
    start = c
    while c and seen < 200:
        sc = snap["scopes"][c]
        if sc["cancelled"]:
            out.append(c)
        if sc["shield"] or (c != start and not sc["active"]):
            break                        # nothing above a shielded or a left scope is visible (see ref_eff_cancelled)
        c = sc["parent"]
        seen += 1
    return out


def ref_eff_deadline(snap, c: int):
    """(kind, value): kind 0 = +inf, 1 = -inf, 2 = finite."""
    best = None
    seen = 0
    while c and seen < 200:
        sc = snap["scopes"][c]
        if sc["deadline"] >= 0:
            best = sc["deadline"] if best is None else min(best, sc["deadline"])
        if sc["cancelled"]:
            return (1, 0)
        if sc["shield"]:
            break
        c = sc["parent"]
        seen += 1
    return (0, 0) if best is None else (2, best)


def cancel_origins(res):
    if res[0] != "exc":
        return []
    return [x - 1000 for x in res[2] if 1000 <= x < 2000]


# ------------------------------------------------------------------------------------------------------------
# property monitors on the observable history
# ------------------------------------------------------------------------------------------------------------

SIMPLE_WAITS = (S.YIELD, S.SLEEP, S.HWAIT, S.CKIF)


def is_cancel_code(x):
    return 1000 <= x < 2000


class History:
    """Walks a decoded run, keeps what a careful observer of the program would know, and evaluates the property
    clauses of C01-C08 on it.  Nothing here consults the Coq model."""

    def __init__(self, steps, real=False):
        self.steps = steps
        self.real = real            # history from a real (unstepped) loop: no ready-queue / timer view
        self.viol: dict[str, list[str]] = {}
        self.flags: set[str] = set()

    def v(self, pid: str, msg: str, tag: str | None = None):
        # tag = predicate name of a known finding (known_findings.json): the check prints KNOWN-FINDING for it
        self.viol.setdefault(pid, []).append(msg + (f" [kf:{tag}]" if tag else ""))

    def run(self):
        steps = self.steps
        empty = {"now": 0, "tasks": {}, "scopes": {}, "groups": {}, "ready": [], "timers": []}
        prev = empty
        pending: dict[int, tuple] = {}            # task -> (op, step, snapshot before, held before)
        held: dict[int, tuple | None] = {}        # program register: None | (is_group, leaf codes)
        members: dict[int, list[int]] = {}        # gid -> children ever spawned
        child_group: dict[int, int] = {}
        via_start: dict[int, int] = {}            # child -> starter
        self._via_start = via_start
        start_child: dict[int, int] = {}          # starter -> child of its pending start()
        started_val: dict[int, int] = {}
        finished_with: dict[int, tuple] = {}      # child -> ("ret", v) | ("exc", held)
        expected: dict[int, list[int]] = {}       # gid -> error leaves that must surface from the block
        left_at: dict[int, int] = {}
        group_scope: dict[int, int] = {}
        base_scope: dict[int, int] = {}
        tainted_groups: set[int] = set()
        vis_acc: dict[int, set] = {}              # cancelled scopes visible from t's current scope at any step since t last ran
        self._vis_acc = vis_acc
        start_joining: set[int] = set()         # starters that were interrupted and now wait for the child to end
        uncancelled_by_program: set[int] = set()
        native_out: dict[int, int] = {}          # task -> native cancel requests not yet uncancelled by the program
        self._tainted = tainted_groups
        self._start_errors = {}
        self._user_wrapped = set()
        self._failed_group_scopes = set()
        self._f23_reported = set()
        self._dirty_finish = set()
        self._late_started = set()
        self._native_in_gexit = set()
        self._gexit_interrupted = set()   # hosts: the host has been interrupted inside this __aexit__
        self._gexit_cut = {}              # host -> (step, visible cancelled outer scope, where the host is parked)
        self._native_before_start = set()
        self._to_group_errors = {}
        self._req_vis = {}
        self._native_events = []          # (step, task): native Task.cancel() requests
        self._native_raised = []          # (step, task): a native CancelledError surfaced in the task
        self._prog_uncancel = []          # (step, task): the program called uncancel()
        self._routed_exact = {}
        self._own_cancel_finish = set()
        self._group_scope = group_scope
        pre_started_end: set[int] = set()
        enter_info: dict[int, tuple] = {}         # sid -> (task, ncancel at entry, step)
        ext_events: list[tuple] = []              # (step, task): native cancel / uncancel
        self._ext_events = ext_events
        shield_events: list[int] = []             # steps at which a shield flag was assigned
        exited: dict[int, int] = {}
        explicit_cancel: set[int] = set()
        failat_scopes: set[int] = set()

        self._cur_snap = None
        for i, (op, res, snap) in enumerate(steps):
            c, a, b, d = op
            self._cur_snap = snap
            completions = []                      # (task, op, result, snapshot before op start, held before)
            if c < 30:
                t = a
                hb = held.get(t)
                if c == S.HOLD:
                    held[t] = (False, [2000 + b])
                elif c == S.WRAP:
                    held[t] = (True, (hb[1] if hb else []) + [2000 + b])
                elif c == S.DROP:
                    held[t] = None
                elif c == S.CANCEL:
                    explicit_cancel.add(b)
                elif c == S.SETSHIELD:
                    shield_events.append(i)
                elif c == S.UNCANCEL:
                    ext_events.append((i, t))
                    self._prog_uncancel.append((i, t))
                    # a program that calls uncancel() itself may consume requests AnyIO made (and will compensate
                    # later): the lower bound on cancelling() is only meaningful for programs that never do that
                    uncancelled_by_program.add(t)
                elif c == S.GEXIT:
                    self._gexit_cut.pop(t, None)
                    self._gexit_interrupted.discard(t)
                    errs = [x for x in (hb[1] if hb else []) if not is_cancel_code(x)]
                    expected.setdefault(b, []).extend(errs)
                    gs_b = group_scope.get(b)
                    if errs and res[0] == "blocked" and gs_b and b not in tainted_groups and gs_b in snap["scopes"] \
                            and snap["scopes"][gs_b]["active"]:
                        # the body failed: from now on (also for tasks started during the exit checkpoint of an empty
                        # group) everything in the group has to be cancelled
                        self.flags.add("body_error_in_exit")
                        self._failed_group_scopes.add(gs_b)
                        if not ref_eff_cancelled(snap, gs_b):
                            self.v("C02", f"step {i}: the body of group {b} failed with {errs} and the host is waiting in __aexit__, but "
                                          f"the group's scope {gs_b} is not (effectively) cancelled: tasks started in the group from "
                                          f"now on are not cancelled")
                    if hb and hb[0] and any(is_cancel_code(x) for x in hb[1]):
                        self._user_wrapped.add(b)       # the program itself put a cancellation into a group
                elif c == S.FINISH:
                    finished_with[t] = ("exc", hb) if hb is not None else ("ret", b)
                    if hb and hb[0] and any(is_cancel_code(x) for x in hb[1]) and t in child_group:
                        self._user_wrapped.add(child_group[t])
                    if t in base_scope and prev["tasks"][t]["cur"] != base_scope[t] and t in child_group:
                        tainted_groups.add(child_group[t])    # ended with scopes still open: API misuse
                        self._dirty_finish.add(t)
                    if hb and not hb[0] and len(hb[1]) == 1 and t in base_scope and hb[1][0] == 1000 + base_scope[t]:
                        self._own_cancel_finish.add(t)        # its handle scope absorbs this: the task "returns"
                    if t in via_start and t not in started_val:
                        pre_started_end.add(t)
                        self.flags.add("child_ended_before_started")
                for g_, la in left_at.items():
                    if t in members.get(g_, []) and la < i:
                        self.v("C01", f"step {i}: task {t} of group {g_} acts after the group block was left at step {la}")
                if c == S.SPAWN and res[0] == "ret":
                    members.setdefault(b, []).append(res[1])
                    child_group[res[1]] = b
                if c == S.START and res[0] == "blocked":
                    ch = len(snap["tasks"])
                    members.setdefault(b, []).append(ch)
                    child_group[ch] = b
                    via_start[ch] = t
                    start_child[t] = ch
                if c == S.STARTED and res[0] == "exc" and list(res[2]) == [3000] and t in via_start \
                        and (t not in started_val or t in self._late_started):
                    self.v("C07", f"step {i}: started() of child {t} raised RuntimeError although no earlier started() call of this "
                                  f"child had reached a waiting start() (the caller was cancelled before the first call): a repeated "
                                  f"started() is an error only if the caller has NOT been cancelled in the meantime")
                if c == S.STARTED and res[0] == "ret" and t in via_start and t not in started_val:
                    started_val[t] = b
                    st_ = via_start[t]
                    if not (st_ in pending and pending[st_][0][0] == S.START and start_child.get(st_) == t
                            and st_ not in start_joining and (2000 + st_) not in prev["ready"]
                            and not prev["tasks"][st_]["must"]):
                        self._late_started.add(t)      # the caller had already been interrupted / was gone
                if res[0] == "blocked":
                    pending[t] = (op, i, prev, hb)
                    if c == S.CKIF:
                        self.flags.add("ckif_spin")
                        if not ref_eff_cancelled(prev, prev["tasks"][t]["cur"]):
                            self.v("C08", f"step {i}: checkpoint_if_cancelled suspended although the scope of task {t} is not effectively cancelled")
                elif c != S.FINISH:
                    if c == S.CKIF and res[0] == "ret":
                        self.flags.add("ckif_pass")
                        if ref_eff_cancelled(prev, prev["tasks"][t]["cur"]):
                            self.v("C08", f"step {i}: checkpoint_if_cancelled returned normally in an effectively cancelled scope (task {t})")
                    if c in (S.YIELD, S.SHIELDCK, S.SLEEP, S.HWAIT) and not self.real:
                        self.v("C08", f"step {i}: {S.OPNAMES[c]} by task {t} completed without yielding to the event loop")
                    completions.append((t, op, res, prev, hb))
            elif c == S.NATIVECANCEL:
                ext_events.append((i, a))
                self._native_events.append((i, a))
                if prev["tasks"].get(a, {}).get("state", 9) == 0:
                    self._native_before_start.add(a)      # Task.cancel() by a third party before the task's first step
                if a in pending and pending[a][0][0] == S.GEXIT and prev["tasks"][a]["state"] == 2 \
                        and (2000 + a) not in prev["ready"] and not prev["tasks"][a]["must"]:
                    self._native_in_gexit.add(a)      # interrupts the host inside __aexit__ (join or checkpoint)
                if prev["tasks"].get(a, {}).get("state", 9) < 3:
                    native_out[a] = native_out.get(a, 0) + 1
            elif c == S.EXTCANCEL:
                explicit_cancel.add(a)
            elif c in (S.RUNSTEP, S.RUNWAKE):
                t = a
                for g_, la in left_at.items():
                    if t in members.get(g_, []) and la < i:
                        self.v("C01", f"step {i}: task {t} of group {g_} runs a step after the group block was left at step {la}")
                was_idle = prev["tasks"][t]["state"] == 1
                if prev["tasks"][t]["state"] == 0 and snap["tasks"][t]["state"] == 1:
                    base_scope[t] = snap["tasks"][t]["cur"]
                origins = cancel_origins(res)
                if was_idle:
                    if res[0] == "exc":
                        held[t] = (res[1], list(res[2]))
                        if 1000 in res[2]:
                            self._native_raised.append((i, t))
                        self.check_containment(t, origins, prev, i, shield_events)
                elif prev["tasks"][t]["state"] == 2 and t in pending:
                    op0, i0, snap0, hb0 = pending[t]
                    if op0[0] in SIMPLE_WAITS and origins:
                        self.check_containment(t, origins, prev, i, shield_events)
                    if op0[0] == S.SHIELDCK and any(o > 0 for o in origins):
                        self.v("C08", f"step {i}: cancel_shielded_checkpoint of task {t} was interrupted by AnyIO cancellation {origins}")
                        self.v("C04", f"step {i}: task {t} received the AnyIO cancellation {origins} inside cancel_shielded_checkpoint(), "
                                      f"which is a shielded scope for the duration of its yield: code inside a shielded scope is "
                                      f"never interrupted")
                    if op0[0] == S.CKIF:
                        # every re-check of the spin of checkpoint_if_cancelled, not only its entry (F46)
                        vis = ref_eff_cancelled(prev, prev["tasks"][t]["cur"])
                        if res[0] == "blocked":
                            self.flags.add("ckif_respin")
                            if not vis:
                                msg = (f"step {i}: task {t} is run inside checkpoint_if_cancelled and suspends again although no "
                                       f"cancelled scope is visible from its current scope {prev['tasks'][t]['cur']} any more: it "
                                       f"spins on sleep(0) with nothing left to deliver")
                                self.v("C08", msg)
                                self.v("C03", msg)
                        elif res[0] == "ret":
                            self.flags.add("ckif_spin_released")
                            if vis:
                                self.v("C08", f"step {i}: the spin of checkpoint_if_cancelled of task {t} returned normally although "
                                              f"scope {vis} is cancelled and visible from its current scope")
                    if res[0] != "blocked":
                        del pending[t]
                        start_joining.discard(t)
                        completions.append((t, op0, res, snap0, hb0))
                    elif op0[0] == S.START:
                        start_joining.add(t)
            elif c == S.RUNDELIVER and not self.real:
                if a in exited and (3000 + a) in snap["ready"] and snap["ready"].count(3000 + a) >= prev["ready"].count(3000 + a) \
                        and snap["scopes"][a]["ntasks"] == 0 and snap["scopes"][a]["nchildren"] == 0:
                    self.v("C05", f"step {i}: delivery callback of scope {a} re-scheduled itself although the scope was left at step {exited[a]}")
            elif c == S.RUNTASKDONE:
                t = a
                g_ = child_group.get(t)
                fw = finished_with.get(t)
                errs = [x for x in (fw[1][1] if fw and fw[0] == "exc" and fw[1] else []) if not is_cancel_code(x)]
                to_starter = False
                if self.real and t in pre_started_end and g_ is not None:
                    # on a real loop the history does not show whether the starter was still waiting when the child
                    # ended (no ready-queue view): whether the error went to start() or to the group is unknown
                    tainted_groups.add(g_)
                if t in pre_started_end:
                    st = via_start[t]
                    still_waiting = st in pending and pending[st][0][0] == S.START and start_child.get(st) == t \
                        and st not in start_joining \
                        and prev["tasks"][st]["state"] == 2 and (2000 + st) not in prev["ready"] and not prev["tasks"][st]["must"]
                    to_starter = still_waiting
                    if to_starter:
                        self.flags.add("child_outcome_to_starter")
                        if t not in self._dirty_finish:
                            if t in self._own_cancel_finish or (fw and fw[0] == "ret"):
                                self._routed_exact[t] = (i, [3000])
                            elif fw and fw[0] == "exc" and fw[1]:
                                self._routed_exact[t] = (i, sorted(fw[1][1]))
                        gs = group_scope.get(g_)
                        if gs and snap["scopes"][gs]["cancelled"] and not prev["scopes"][gs]["cancelled"]:
                            self.v("C07", f"step {i}: group {g_} was cancelled because child {t} ended before calling started()")
                gs0 = group_scope.get(g_) if g_ is not None else None
                if gs0 and not errs and not to_starter and g_ not in tainted_groups and t not in self._dirty_finish \
                        and gs0 in prev["scopes"] and not prev["scopes"][gs0]["cancelled"] and snap["scopes"][gs0]["cancelled"] \
                        and ref_eff_cancelled(prev, gs0):
                    # the child merely ended cancelled while an enclosing scope's cancellation was visible to the group:
                    # nobody cancelled the group's OWN scope, nothing failed
                    self.v("C04", f"step {i}: the scope {gs0} of group {g_} became cancelled when child {t} ended with a "
                                  f"cancellation, although the cancellation came from the enclosing scope {ref_eff_cancelled(prev, gs0)} "
                                  f"and nothing failed: cancel_called / cancelled_caught of a scope nobody cancelled")
                if g_ is not None and errs and not to_starter and g_ in left_at and g_ not in tainted_groups:
                    self.v("C02", f"step {i}: child {t} of group {g_} raised {errs} after the group's block had already finished at step {left_at[g_]}: the error can no longer surface")
                if g_ is not None and errs and not to_starter:
                    expected.setdefault(g_, []).extend(errs)
                    self.flags.add("member_error")
                    gs = group_scope.get(g_)
                    if gs and g_ not in tainted_groups and snap["scopes"][gs]["active"]:
                        self._failed_group_scopes.add(gs)
                        if not ref_eff_cancelled(snap, gs):
                            self.v("C02", f"step {i}: child {t} of group {g_} failed with {errs} but the group's scope {gs} is not (effectively) cancelled afterwards: the remaining tasks are not cancelled")
                    if t in via_start:
                        self._start_errors.setdefault(g_, []).extend(errs)
                        if t not in started_val:
                            self._to_group_errors[t] = list(errs)      # pre-started() failure that went to the group
                    if t in via_start and t not in started_val:
                        self.flags.add("unstarted_child_error_to_group")

            for (t, op0, r, snap0, hb0) in completions:
                c0, _a0, b0, d0 = op0
                if self.real and c0 == S.SLEEP and b0 != 0 and r[0] == "ret" and t in snap0["tasks"] \
                        and snap0["tasks"][t]["cur"] and ref_eff_cancelled(snap0, snap0["tasks"][t]["cur"]):
                    self.v("C03", f"step {i}: task {t} slept through a whole sleep({b0}) although its scope {snap0['tasks'][t]['cur']} was effectively cancelled before the sleep began")
                if r[0] == "exc":
                    held[t] = (r[1], list(r[2]))
                    if 1000 in r[2]:
                        self._native_raised.append((i, t))
                if c0 in (S.EXIT, S.GEXIT) and r[0] == "ret" and r[1] == 1:
                    held[t] = None
                if c0 == S.GNEW and r[0] == "ret":
                    members.setdefault(r[1], [])
                    expected.setdefault(r[1], [])
                    group_scope[r[1]] = len(snap["scopes"])
                if c0 == S.ENTER and r[0] == "ret":
                    enter_info[b0] = (t, snap0["tasks"][t]["ncancel"], i)
                if c0 in (S.FAILAT, S.NEWSCOPE) and r[0] == "ret" and r[1] in snap["scopes"]:
                    got_sh = bool(snap["scopes"][r[1]]["shield"])
                    if got_sh != bool(d0):
                        self.v("C04", f"step {i}: scope {r[1]} was created with shield={bool(d0)} through the public constructor but reports shield={got_sh}: code inside it is {'not ' if d0 else ''}protected from outer cancellation")
                        self.v("C06", f"step {i}: scope {r[1]} was created with shield={bool(d0)} through a timeout helper but reports shield={got_sh}: its block is {'not ' if d0 else ''}cut off from the deadlines (and cancellation) of the enclosing scopes")
                    want_dl = -1 if b0 < 0 else b0
                    if snap["scopes"][r[1]]["deadline"] != want_dl:
                        self.v("C06", f"step {i}: scope {r[1]} was created with deadline {want_dl} but reports {snap['scopes'][r[1]]['deadline']}")
                if c0 == S.FAILAT and r[0] == "ret":
                    enter_info[r[1]] = (t, snap0["tasks"][t]["ncancel"], i)
                    failat_scopes.add(r[1])
                if c0 == S.GEXIT and t in self._native_in_gexit:
                    self._native_in_gexit.discard(t)
                    self.flags.add("native_cancel_inside_aexit")
                    lv = list(r[2]) if r[0] == "exc" else []
                    if 1000 not in lv and not any(x >= 2000 for x in lv):
                        self.v("C04", f"step {i}: a native cancellation interrupted task {t} inside the __aexit__ of group {b0} (no error was pending), but it did not come out of the block: result {r}")
                        self.v("C05", f"step {i}: a native cancellation request reached task {t} while it waited inside the __aexit__ of group {b0}; the block ended with {r} and the request was dropped (a native asyncio.timeout / Task.cancel() around the group is lost)")
                if c0 == S.GEXIT:
                    cut = self._gexit_cut.pop(t, None)
                    self._gexit_interrupted.discard(t)
                    if cut and cut[3] and b0 not in tainted_groups and not (r[0] == "exc" and any(is_cancel_code(x) for x in r[2])) \
                            and not any(tt == t for (_j, tt) in ext_events):
                        self.v("C02", f"step {i}: the cancellation of the enclosing scope {cut[3]} did not pass through the block of "
                                      f"group {b0}: the host (task {t}) was waiting in __aexit__ for the remaining children (parked in "
                                      f"scope {cut[2]}), the delivery of the cancelled scope {cut[1]} at step {cut[0]} left it alone "
                                      f"although it had not been interrupted yet, and the cancelled enclosing scope became visible from "
                                      f"the group's scope while it was still waiting; the block ended with {r}")
                    self.on_group_left(b0, r, snap, i, members, expected, finished_with)
                    if not snap["scopes"][group_scope.get(b0, 0)]["active"] if group_scope.get(b0) else True:
                        left_at[b0] = i
                if c0 == S.START:
                    self.on_start_done(t, start_child.pop(t, None), r, snap, i, started_val, finished_with)
                if c0 == S.EXIT:
                    self.on_scope_exit(b0, t, d0, r, snap, snap0, i, enter_info, ext_events, shield_events, hb0,
                                       failat_scopes)
                    if b0 in snap["scopes"] and not snap["scopes"][b0]["active"] and snap0["scopes"][b0]["active"]:
                        exited[b0] = i
                if c0 == S.EFFDL and r[0] == "time":
                    self.flags.add("effdl")
                    exp = ref_eff_deadline(snap0, snap0["tasks"][t]["cur"])
                    got = (r[1], r[2] if r[1] == 2 else 0)
                    if got != exp:
                        self.v("C06", f"step {i}: current_effective_deadline() = {got} but the reference says {exp}")

            ran = a if (c < 30 or c in (S.RUNSTEP, S.RUNWAKE)) else None
            for tt, tk in snap["tasks"].items():
                if tk["state"] >= 3:
                    continue
                vis = set(ref_visible_cancelled_set(snap, tk["cur"])) if tk["cur"] else set()
                if tt == ran:
                    vis_acc[tt] = vis
                    self._req_vis[tt] = set()
                else:
                    vis_acc.setdefault(tt, set()).update(vis)
                    pk_ = prev["tasks"].get(tt)
                    if pk_ is not None and (tk["ncancel"] > pk_["ncancel"] or (tk["must"] and not pk_["must"])):
                        # a cancellation request was placed on tt in this step: what was visible from its scope then
                        before_vis = set(ref_visible_cancelled_set(prev, pk_["cur"])) if pk_["cur"] else set()
                        self._req_vis.setdefault(tt, set()).update(before_vis | vis)
            # a host waiting in __aexit__ is still inside the group's scope: the delivery run of the cancelled scope that is
            # responsible for it (the nearest cancelled scope visible from the group's scope, the group's own included)
            # must reach it, unless it has already been interrupted in this __aexit__ or is about to wake up anyway.  If
            # it did not, and a cancelled ENCLOSING scope is visible from the group's scope while the host still waits,
            # that cancellation has to come out of the block.
            for a_, (op_, i_, snap_, _hb) in pending.items():
                if op_[0] != S.GEXIT or a_ in uncancelled_by_program or self.real:
                    continue
                gs_ = group_scope.get(op_[2])
                tk_ = snap["tasks"].get(a_)
                if not gs_ or tk_ is None or gs_ not in prev["scopes"] or a_ not in prev["tasks"]:
                    continue
                if tk_["ncancel"] != snap_["tasks"][a_]["ncancel"] or tk_["must"] or snap_["tasks"][a_]["must"] \
                        or (c in (S.RUNSTEP, S.RUNWAKE) and a == a_) or any(tt == a_ and j >= i_ for (j, tt) in ext_events):
                    # (conservative: any step the host ran inside this __aexit__ may have been an interruption)
                    self._gexit_interrupted.add(a_)
                    self._gexit_cut.pop(a_, None)
                if a_ in self._gexit_interrupted:
                    continue
                scg_ = prev["scopes"][gs_]
                waiting = tk_["state"] == 2 and prev["tasks"][a_]["state"] == 2 \
                    and not any((k_ + a_) in prev["ready"] or (k_ + a_) in snap["ready"] for k_ in (1000, 2000)) and snap["groups"].get(op_[2], {}).get("ntasks", 0) > 0
                cur_ = tk_["cur"]
                if not scg_["active"] or not waiting or not cur_ or snap["scopes"][cur_]["parent"] != gs_:
                    continue
                if c == S.RUNDELIVER and a_ not in self._gexit_cut and ref_eff_cancelled(prev, gs_) == a:
                    self._gexit_cut[a_] = [i, a, cur_, 0]
                if a_ in self._gexit_cut and not self._gexit_cut[a_][3] and not scg_["shield"] and scg_["parent"]:
                    outer = ref_eff_cancelled(snap, snap["scopes"][gs_]["parent"]) if not snap["scopes"][gs_]["shield"] else 0
                    if outer:
                        self._gexit_cut[a_][3] = outer
            for gs in self._failed_group_scopes:
                scg = snap["scopes"].get(gs)
                if scg and scg["active"] and not ref_eff_cancelled(snap, gs) and gs not in self._f23_reported:
                    self._f23_reported.add(gs)
                    self.v("C02", f"step {i}: a child or the body of the group with scope {gs} has failed, but the scope is no longer effectively cancelled (cancelled={scg['cancelled']}, shield={scg['shield']}): the remaining tasks and the body are not being cancelled")
            if self.real:
                self.check_not_stuck(prev, snap, op, i)
            else:
                self.check_delivery_alive(snap, i)
                self.check_timers(prev, snap, op, i, explicit_cancel)
            for tt, n in native_out.items():
                tk = snap["tasks"].get(tt)
                if tk is not None and tk["state"] < 3 and n > 0 and tt not in uncancelled_by_program:
                    self.flags.add("native_request_outstanding")
                    if tk["ncancel"] < n:
                        self.v("C05", f"step {i}: task {tt} has {n} native cancellation request(s) the program never uncancelled, but cancelling() = {tk['ncancel']}: a cancel scope erased a request it did not make")
            for sc_id, when in exited.items():
                if not snap["scopes"][sc_id]["active"] and (
                        any(code == 6000 + sc_id for (_w, code) in snap["timers"]) or (6000 + sc_id) in snap["ready"]):
                    self.v("C05", f"step {i}: a deadline timer of scope {sc_id} is still armed after the scope was left at step {when}")
            prev = snap

    # ---------- C01 / C02 ----------
    def on_group_left(self, g, res, snap, i, members, expected, finished_with):
        self.flags.add("group_left")
        mem = members.get(g, [])
        if mem:
            self.flags.add("group_left_with_members")
        for m in mem:
            tk = snap["tasks"].get(m)
            if tk is None:
                continue
            never_ran = m not in finished_with and tk["state"] == 5
            if tk["state"] < 3:
                self.v("C01", f"step {i}: group {g} block left while child task {m} has not terminated (state {tk['state']})")
            elif never_ran:
                self.flags.add("child_cancelled_before_first_step")
                if tk["hstatus"] in (1, 2):
                    self.v("C01", f"step {i}: group {g} block left while the handle of child {m} is still not final (status "
                                  f"{tk['hstatus']}): the child was cancelled before its first step, so TaskHandle._run_coro "
                                  f"never ran and nobody will ever set the handle's finished event",
                           tag="never_ran_handle_pending" if m in self._native_before_start else None)
                elif tk["hstatus"] in (3, 4):
                    self.v("C01", f"step {i}: child {m} was cancelled before its first step, but its handle reports status "
                                  f"{tk['hstatus']} (finished / failed) for a coroutine that never ran")
            elif tk["hstatus"] in (1, 2):
                self.v("C01", f"step {i}: group {g} block left while the handle of child {m} is not final (status {tk['hstatus']})")
            elif m in finished_with:
                kind, val = finished_with[m]
                if kind == "ret":
                    want = 3
                elif val is not None and not val[0] and len(val[1]) == 1 and is_cancel_code(val[1][0]):
                    want = 5
                else:
                    want = 4
                if tk["hstatus"] != want:
                    self.v("C01", f"step {i}: handle of child {m} reports status {tk['hstatus']} but its coroutine ended with {finished_with[m]} (expected {want})")
                # return value / exception recorded by the handle match how the coroutine ended
                if m not in self._dirty_finish and "hret" in tk:
                    self.flags.add("handle_outcome_checked")
                    if kind == "ret" and (tk["hret"] != val + 1 or tk["hexc"] != 0):
                        self.v("C01", f"step {i}: child {m} returned {val} but its handle holds return value {tk['hret'] - 1 if tk['hret'] else None} / exception code sum {tk['hexc']}")
                    if kind == "exc" and val is not None and (tk["hexc"] != sum(val[1]) or tk["hret"] != 0):
                        self.v("C01", f"step {i}: child {m} ended with exception leaves {val[1]} but its handle holds exception code sum {tk['hexc']} / return value {tk['hret']}")
        exp = sorted(expected.get(g, []))
        got_all = list(res[2]) if res[0] == "exc" else []
        got = sorted(x for x in got_all if not is_cancel_code(x))
        cancels = [x for x in got_all if is_cancel_code(x)]
        if g in self._tainted:
            return
        if res[0] == "exc" and res[2] == [3000] and not res[1] and 3000 not in exp:
            return  # API misuse (RuntimeError from the scope guards): compared by the correspondence only
        if exp:
            self.flags.add("group_raised_errors")
            if got != exp:
                self.v("C02", f"step {i}: group {g} raised error leaves {got} but body and children raised {exp}")
                lost = [x for x in self._start_errors.get(g, []) if x not in got]
                if lost:
                    self.v("C07", f"step {i}: errors {lost} raised by children started with start() were discarded (group {g} raised {got})")
            own = [x for x in cancels if x - 1000 == self._group_scope.get(g)]
            if own and res[1] and g not in self._user_wrapped:
                self.v("C02", f"step {i}: group {g} reported cancellations {own} caused by its own scope among its errors")
        elif got:
            self.v("C02", f"step {i}: group {g} raised {got} although neither body nor children failed")

    # ---------- C07 ----------
    def on_start_done(self, t, ch, res, snap, i, started_val, finished_with):
        self.flags.add("start_done")
        if ch is None:
            return
        if res[0] == "ret":
            self.flags.add("start_returned_value")
            if ch not in started_val:
                self.v("C07", f"step {i}: start() returned {res[1]} to task {t} but child {ch} never called started()")
            elif started_val[ch] != res[1]:
                self.v("C07", f"step {i}: start() returned {res[1]} but child {ch} passed {started_val[ch]} to started()")
        elif res[0] == "exc":
            child = snap["tasks"][ch]
            cancels = [x for x in res[2] if is_cancel_code(x)]
            if ch in self._routed_exact:
                at, want = self._routed_exact[ch]
                if sorted(res[2]) != want and not any(j >= at and tt == t for (j, tt) in self._ext_events):
                    self.v("C07", f"step {i}: child {ch} ended before started() with {want}; that outcome was handed to the waiting start(), but start() raised {sorted(res[2])}")
            if ch in started_val and ch not in self._late_started and cancels and 1000 not in cancels:
                self.v("C07", f"step {i}: child {ch} had called started({started_val[ch]}) while start() was still waiting, yet start() raised the cancellation {cancels} instead of returning the value")
            if ch in self._to_group_errors and not cancels:
                owned = self._to_group_errors[ch]
                if any(x in owned for x in res[2]):
                    self.v("C02", f"step {i}: start() raised {sorted(res[2])} to task {t} although the error of child {ch} had already been handed to the group (the start future was cancelled when the child ended): the error surfaces twice")
                    self.v("C07", f"step {i}: start() raised the error {sorted(res[2])} of child {ch}, which the group already owns, instead of the caller's own cancellation")
            if ch in started_val:
                self.flags.add("start_raised_after_started")
            if ch in finished_with and ch not in started_val and not cancels and ch not in self._dirty_finish:
                self.flags.add("start_child_failed_first")
                kind, val = finished_with[ch]
                if ch in self._own_cancel_finish:
                    kind, val = "ret", 0
                if kind == "ret" and res[2] != [3000]:
                    self.v("C07", f"step {i}: child {ch} returned before started() but start() raised {res[2]} instead of RuntimeError")
                if kind == "exc" and val is not None and sorted(res[2]) != sorted(val[1]):
                    self.v("C07", f"step {i}: child {ch} ended with {val[1]} before started() but start() raised {res[2]}")
            if cancels and ch not in finished_with:
                pass
            if cancels:
                self.flags.add("start_caller_cancelled")
                # a second *native* Task.cancel() can interrupt the shielded join; AnyIO cancellation cannot
                if child["state"] in (1, 2) and 1000 not in cancels:
                    self.v("C07", f"step {i}: start() re-raised cancellation {cancels} to task {t} while child {ch} has not terminated (state {child['state']})")

    # ---------- C04 ----------
    def check_containment(self, t, origins, prev, i, shield_events):
        cur = prev["tasks"][t]["cur"]
        # a request cannot be retracted: the origin must have been visible at some point since the task last ran
        # (another task may have raised a shield in between)
        visible = set(ref_visible_cancelled_set(prev, cur)) | self._vis_acc.get(t, set())
        if self.real and self._cur_snap is not None:
            # real loop: cancel + delivery may both have happened since the previous snapshot
            visible |= set(ref_visible_cancelled_set(self._cur_snap, cur))
            visible |= set(ref_visible_cancelled_set(self._cur_snap, self._cur_snap["tasks"][t]["cur"]))
        visible = sorted(visible)
        now_visible = set(ref_visible_cancelled_set(prev, cur))
        for o in origins:
            if o <= 0 or o not in prev["scopes"]:
                continue
            self.flags.add("cancel_delivered")
            if o not in visible:
                self.v("C04", f"step {i}: task {t} (current scope {cur}) received a cancellation of scope {o}; the cancelled scopes visible from its current scope are {visible}")
            elif not self.real and o not in now_visible and o not in self._req_vis.get(t, set()):
                # visible at some moment since the task last ran, but neither now nor when a request was placed
                self.v("C04", f"step {i}: task {t} (current scope {cur}) received the cancellation of scope {o}, which was "
                              f"visible from its scope neither when the request was placed ({sorted(self._req_vis.get(t, set()))}) "
                              f"nor now ({sorted(now_visible)})")
            elif not self.real and o not in now_visible:
                # the request was placed while the origin was visible, then a shield went up before the task ran:
                # asyncio cannot retract a Task.cancel(), the task is interrupted inside the now shielded scope
                self.flags.add("shield_raised_after_request")
                self.v("C04", f"step {i}: task {t} (current scope {cur}) received the cancellation of scope {o} although {o} is "
                              f"no longer visible from its scope (visible now: {sorted(now_visible)}): a shield was raised after "
                              f"the request had been placed and before the task ran", tag="shield_raised_after_request")

    # ---------- C04 / C05 / C06 at scope exit ----------
    def on_scope_exit(self, c, t, failat, res, snap, before, i, enter_info, ext_events, shield_events, hb, failat_scopes):
        sc_b = before["scopes"].get(c)
        if sc_b is None or not sc_b["active"] or sc_b["host"] != t or before["tasks"][t]["cur"] != c:
            return  # API misuse: RuntimeError paths are compared by the correspondence only
        self.flags.add("scope_exit")
        par = sc_b["parent"]
        parent_visible = bool(par) and (not sc_b["shield"]) and bool(ref_eff_cancelled(before, par))
        leaves = hb[1] if hb else []
        has_cancel = any(1001 <= x < 2000 for x in leaves)
        only_cancel = bool(leaves) and all(1001 <= x < 2000 for x in leaves)
        should_absorb = sc_b["cancelled"] and not parent_visible and has_cancel
        swallowed = res[0] == "ret" and res[1] == 1
        timeout_raised = res[0] == "exc" and res[2] == [3001] and 3001 not in leaves
        after = snap["scopes"][c]
        if should_absorb:
            self.flags.add("absorbed")
            if only_cancel and not (swallowed or timeout_raised):
                self.v("C04", f"step {i}: scope {c} did not absorb its own cancellation (held {hb}, result {res})")
            if not after["caught"]:
                self.v("C04", f"step {i}: scope {c} absorbed a cancellation but cancelled_caught is false")
            if not only_cancel:
                rest = sorted(x for x in leaves if not (1001 <= x < 2000))
                got = sorted(res[2]) if res[0] == "exc" else None
                if got != rest:
                    self.v("C04", f"step {i}: scope {c} must re-raise exactly the non-cancellation leaves {rest}, got {res}")
        else:
            if swallowed or timeout_raised:
                self.v("C04", f"step {i}: scope {c} swallowed {hb} although it must not (cancelled={sc_b['cancelled']}, parent cancellation visible={parent_visible})")
            if after["caught"] and not sc_b["caught"]:
                self.v("C04", f"step {i}: cancelled_caught set on scope {c} which absorbed nothing")
            if hb is not None and res[0] == "exc" and sorted(res[2]) != sorted(leaves):
                self.v("C04", f"step {i}: exception {hb} did not pass through scope {c} unchanged: {res}")
            if hb is not None and res[0] == "ret" and res[1] != 0:
                self.v("C04", f"step {i}: exception {hb} did not pass through scope {c}")
        ent0 = enter_info.get(c)
        if swallowed and ent0 and ent0[0] == t and not snap["tasks"][t]["must"] \
                and snap["tasks"][t]["ncancel"] > ent0[1]:
            lost = [j for (j, tt) in self._native_events if tt == t and ent0[2] < j < i
                    and not any(tt2 == t and j < k <= i for (k, tt2) in self._native_raised)
                    and not any(tt2 == t and j < k <= i for (k, tt2) in self._prog_uncancel)]
            if lost:
                self.flags.add("native_request_absorbed")
                self.v("C05", f"step {i}: a native Task.cancel() reached task {t} at step {lost[0]} inside scope {c}, "
                              f"but the only CancelledError that surfaced was the scope's own and scope {c} absorbed it: "
                              f"cancelling() is {snap['tasks'][t]['ncancel']} (was {ent0[1]} on entry), no cancellation is "
                              f"pending any more and the task runs on - an asyncio.timeout()/Task.cancel() around the "
                              f"scope is silently lost", tag="native_request_absorbed")
        if failat and c in failat_scopes:
            self.flags.add("failat_exit")
            due = sc_b["deadline"] >= 0 and before["now"] >= sc_b["deadline"]
            want = should_absorb and only_cancel and due
            if timeout_raised != want:
                self.v("C06", f"step {i}: fail_at scope {c}: TimeoutError raised={timeout_raised}, expected {want} (absorbed own cancellation={should_absorb and only_cancel}, deadline passed={due})")
            if timeout_raised:
                self.flags.add("failat_timeout")
        ent = enter_info.get(c)
        newcur = snap["tasks"][t]["cur"]
        if ent and ent[0] == t and not ref_eff_cancelled(snap, newcur) \
                and not any(ent[2] <= j <= i and tt == t for (j, tt) in ext_events) \
                and not any(ent[2] <= j <= i for j in shield_events):
            self.flags.add("ncancel_checked")
            if sc_b["cancelled"]:
                self.flags.add("ncancel_checked_after_cancel")
            if snap["tasks"][t]["ncancel"] != ent[1]:
                self.v("C05", f"step {i}: task {t} left scope {c} with cancelling() = {snap['tasks'][t]['ncancel']}; it was {ent[1]} on entry, no native request happened meanwhile and no enclosing scope is cancelled")

    # ---------- C03: the delivery loop is alive whenever somebody is left to cancel ----------
    def check_delivery_alive(self, snap, i):
        scopes = snap["scopes"]
        for t, tk in snap["tasks"].items():
            if tk["state"] >= 3 or not tk["cur"]:
                continue
            c = tk["cur"]
            seen = 0
            while c and seen < 200:
                sc = scopes[c]
                if sc["cancelled"]:
                    if sc["host"]:
                        self.flags.add("reach_nonempty")
                        if not sc["chandle"] or (3000 + c) not in snap["ready"]:
                            self.v("C03", f"step {i}: scope {c} is cancelled and task {t} (state {tk['state']}) is inside it with no shield in between, but no delivery callback is scheduled")
                            if c in self._failed_group_scopes:
                                self.v("C02", f"step {i}: a child or the body of the group with scope {c} failed, but task {t} inside that scope is not being cancelled (no delivery scheduled)")
                            if t in self._via_start:
                                self.v("C07", f"step {i}: task {t} was started with start() into a group whose scope chain shows the cancelled scope {c}, but nothing is cancelling it: it is not treated as an ordinary member of the group")
                    break
                if sc["shield"] or (c != tk["cur"] and not sc["active"]):
                    break                # the chain is cut by a shield or by a scope that was left (misuse)
                c = sc["parent"]
                seen += 1

    def check_not_stuck(self, prev, snap, op, i):
        """Real-loop mode (every snapshot is taken after the loop ran >= 8 full cycles): a task blocked in an
        effectively cancelled scope across two consecutive snapshots was not interrupted within the bound."""
        for t, tk in snap["tasks"].items():
            pk = prev["tasks"].get(t)
            if pk is None or tk["state"] != 2 or pk["state"] != 2 or tk["cur"] != pk["cur"] or not tk["cur"]:
                continue
            if op[1] == t and (op[0] < 30 or op[0] in (S.RUNSTEP, S.RUNWAKE, S.NATIVECANCEL)):
                continue                  # the op acted on t itself (for env ops op[1] is a scope id / tick length)
            c1, c0 = ref_eff_cancelled(snap, tk["cur"]), ref_eff_cancelled(prev, pk["cur"])
            if c1 and c0 and not (snap["scopes"][c1]["host"] and prev["scopes"][c0]["host"]):
                # the cancelled scope was left (CancelScope.__exit__ called on it, e.g. on a group's scope while
                # children remain): API misuse, nothing is promised (same exemption as check_delivery_alive)
                self.flags.add("blocked_under_exited_scope")
                continue
            if c1 and c0:
                self.flags.add("blocked_in_cancelled_scope_seen")
                self.v("C03", f"step {i}: task {t} stayed blocked in scope {tk['cur']}, which is effectively cancelled, for more than 8 event-loop cycles")

    # ---------- C06: timers ----------
    def check_timers(self, prev, snap, op, i, explicit_cancel):
        now = snap["now"]
        for c, sc in snap["scopes"].items():
            if not sc["active"] and (any(code == 6000 + c for (_w, code) in snap["timers"]) or (6000 + c) in snap["ready"]):
                self.v("C05", f"step {i}: a deadline timer of scope {c} is armed although the scope is not active (never entered, or already left)")
                self.v("C06", f"step {i}: a deadline timer of scope {c} is armed although the scope is not active")
            if sc["active"] and not sc["cancelled"] and sc["deadline"] >= 0:
                armed = [(w, code) for (w, code) in snap["timers"] if code == 6000 + c]
                fired = (6000 + c) in snap["ready"]
                self.flags.add("deadline_scope_active")
                if now < sc["deadline"]:
                    if not fired and (len(armed) != 1 or armed[0][0] != sc["deadline"]):
                        self.v("C06", f"step {i}: active scope {c} with deadline {sc['deadline']} (now {now}) has timers {armed}")
                else:
                    if not fired and not armed:
                        self.v("C06", f"step {i}: deadline {sc['deadline']} of active scope {c} has passed (now {now}) but no timeout callback is pending: the timeout is missed")
                    if armed and not fired and op[0] == S.TICK:
                        self.v("C06", f"step {i}: timer of scope {c} due at {armed[0][0]} was not moved to the ready queue at {now}")
            p = prev["scopes"].get(c)
            if p is not None and sc["cancelled"] and not p["cancelled"]:
                cop = op[0]
                by_timer = cop == S.RUNTIMEOUT and op[1] == c
                by_entry = cop in (S.ENTER, S.FAILAT, S.SETDEADLINE) and c not in explicit_cancel
                if by_timer or by_entry:
                    self.flags.add("deadline_fired")
                    if sc["deadline"] < 0 or now < sc["deadline"]:
                        self.v("C06", f"step {i}: scope {c} was cancelled by its timeout at {now}, before its deadline {sc['deadline']}")
                    if by_timer and not p["active"]:
                        self.v("C06", f"step {i}: timeout of scope {c} fired after the scope was left")


def analyse(ops, outs, real=False):
    h = History(decode_run(ops, outs), real=real)
    h.run()
    return h


# ------------------------------------------------------------------------------------------------------------
# generic check driver for C01-C07
# ------------------------------------------------------------------------------------------------------------

PROFILES = {
    "C01": dict(gnew=3, genter=9, gexit=5, spawn=6, start=2, finish=5, cancel=2.5, newroot=0.8, max_tasks=8, hold=1.2,
                newscope=1.5, sleep=1.5, deadline_prob=0.1),
    "C02": dict(gnew=3, genter=9, gexit=5, spawn=6, start=2.5, finish=6, hold=3, drop=0.8, wrap=0.5, cancel=2, newscope=1.2,
                deadline_prob=0.1),
    "C03": dict(cancel=4, extcancel=1.2, setshield=2.5, shield_prob=0.35, newscope=4, spawn=4, gnew=2, sleep=3,
                sleep_forever=1.0, run=6, deadline_prob=0.15),
    "C04": dict(cancel=4, extcancel=1.0, setshield=2.0, shield_prob=0.4, newscope=5, exit=6, max_depth=5, wrap=0.6, hold=1.0,
                deadline_prob=0.1, spawn=2),
    "C05": dict(cancel=4, exit=6, newscope=5, nativecancel=1.2, uncancel=0.3, spawn=4, hcancel=2.5, gnew=2.5, gexit=5,
                finish=4, deadline_prob=0.25, tick=2.5),
    "C06": dict(deadline_prob=0.85, failat=3, setdeadline=2.5, tick=5, sleep=4, effdl=2.0, newscope=5, exit=5, shield_prob=0.3,
                cancel=0.8, gnew=0.8),
    "C07": dict(start=6, started=8, gnew=3, genter=9, gexit=4, finish=5, cancel=3, hold=2, spawn=1.5, newscope=1.5,
                deadline_prob=0.1, extcancel=0.8),
}
INTERESTING = {
    "C01": ["group_left_with_members"],
    "C02": ["group_raised_errors", "member_error"],
    "C03": ["reach_nonempty", "cancel_delivered"],
    "C04": ["absorbed", "cancel_delivered"],
    "C05": ["ncancel_checked_after_cancel"],
    "C06": ["deadline_fired", "failat_timeout", "effdl"],
    "C07": ["start_returned_value", "start_caller_cancelled", "start_child_failed_first"],
}


def run_ops_safely(ops):
    try:
        return sgen.replay(ops)
    except (AssertionError, IndexError, KeyError, ValueError, StopIteration):
        return None


def shrink(pid: str, ops: list[int], budget: int = 80):
    """Greedy shrinking of a case that trips a monitor of `pid`: shortest prefix first, then drop single ops."""
    def trips(o):
        w = run_ops_safely(o)
        if w is None:
            return False
        return bool(analyse(w.ops, w.outs).viol.get(pid))

    best = ops
    n = len(ops) // 4
    lo, hi = 1, n
    while lo < hi and budget > 0:          # shortest failing prefix (monitors are prefix-monotone)
        mid = (lo + hi) // 2
        budget -= 1
        if trips(ops[:mid * 4]):
            hi = mid
        else:
            lo = mid + 1
    best = ops[:hi * 4]
    i = len(best) // 4 - 2
    while i >= 1 and budget > 0:
        cand = best[:i * 4] + best[(i + 1) * 4:]
        budget -= 1
        if trips(cand):
            best = cand
        i -= 1
    return best


_KNOWN_CACHE = {}


def known_tag(pid: str, msg: str):
    """If the monitor message carries the predicate tag of a finding listed (status known) for this property in
    known_findings.json, return the text to print after KNOWN-FINDING; the file is only ever read."""
    import re
    m = re.search(r"\[kf:(\w+)\]", msg)
    if not m:
        return None
    if pid not in _KNOWN_CACHE:
        data = json.loads((core.VERIF / "known_findings.json").read_text())
        _KNOWN_CACHE[pid] = {f["match"]["predicate"]: f for f in data.get("findings", [])
                             if f.get("property") == pid and f.get("status") == "known" and f.get("match", {}).get("predicate")}
    f = _KNOWN_CACHE[pid].get(m.group(1))
    if not f:
        return None
    return f"{f['what']} [{f['id']}, predicate {m.group(1)}]"


def scheck(pid: str, tier: str, extra_assumptions=None, known=None) -> int:
    import os
    rep = core.Report(pid, tier)
    rep.assumptions = core.TRUSTED_BASE_COMMON + [
        "model scopes/Machine.v hand-written from _asyncio.py (CancelScope 384-700, TaskGroup 751-975, checkpoint functions), _core/_tasks.py (TaskHandle, fail_at) and CPython 3.12 asyncio Task/Future/Event/sleep; tied to the code by lock-step observation of every scope/task/group field, the classified ready queue and the timer list after every step",
        "domain of generated programs: scopes entered once, cancel()/shield/deadline only on public scopes (CancelScope(), fail_at, tg.cancel_scope), handle ops only on handles returned by create_task",
    ] + (extra_assumptions or [])
    proofs_ok = core.proof_stage(rep, f"props/{pid}.v")
    exe = core.build_driver(*DRIVER)
    rng = random.Random(core.seed() * 31 + int(pid[1:]))
    prof = sgen.Profile(**PROFILES[pid])
    runs = []
    corpus_dir = core.VERIF / "corpus" / pid
    n_corpus = 0
    corpus_incomplete = []
    for f in sorted(corpus_dir.glob("*.json")) if corpus_dir.exists() else []:
        if json.loads(f.read_text()).get("real_only"):
            continue                      # a history recorded on a real loop: replayed in the real-loop part only
        data_ = json.loads(f.read_text())
        w = sgen.adaptive(data_["adaptive"]) if data_.get("adaptive") else sgen.replay(data_["ops"], tolerant=True)
        if data_.get("adaptive") and not w.incomplete:
            n_opt = sum(1 for x in data_["adaptive"] if x[0])
            n_req = len(data_["adaptive"]) - n_opt
            if n_opt and len(w.ops) // 4 <= n_req:
                w.incomplete = (len(w.ops) // 4, "adaptive scenario: every optional wake-up was skipped")
        runs.append(w)
        n_corpus += 1
        if w.incomplete:
            corpus_incomplete.append({"file": f.name, "stopped_at_step": w.incomplete[0], "why": w.incomplete[1],
                                      "ops": w.ops, "ops_readable": sgen.readable(w.ops)})
    n_random = 250 if tier == "quick" else 4000
    gen_errors = 0
    for _ in range(n_random):
        try:
            runs.append(sgen.random_run(rng, rng.choice([25, 50, 90, 140]), prof))
        except AssertionError:
            gen_errors += 1
    # exhaustive small scope: every sequence over a reduced op alphabet up to a depth
    alpha = {"C01": "groups", "C02": "groups", "C07": "groups", "C06": "deadlines"}.get(pid, "scopes")
    depth = {"scopes": (4, 5), "groups": (4, 6), "deadlines": (4, 5)}[alpha][0 if tier == "quick" else 1]
    ex_leaves, ex_truncated = sgen.exhaustive_small(alpha, depth, 4000 if tier == "quick" else 40000)
    runs += ex_leaves
    cases = [w.ops for w in runs]
    expected = [w.outs for w in runs]
    model = core.run_driver(exe, cases, timeout=1500)
    disagreements = []
    for w, m in zip(runs, model):
        if m != w.outs:
            si, a, b = sgen.first_diff_step(w, m)
            disagreements.append({"ops": w.ops[:(si + 1) * 4], "step": si, "impl": a[:80], "model": b[:80]})
    rejected = 0
    hits = []
    known_seen = {}
    flags = {}
    nontrivial = set()
    steps_total = 0
    opcount = {}
    for w in runs:
        h = analyse(w.ops, w.outs)
        steps_total += len(w.ops) // 4
        for i in range(0, len(w.ops), 4):
            nm = S.OPNAMES.get(w.ops[i])
            opcount[nm] = opcount.get(nm, 0) + 1
        for f in h.flags:
            flags[f] = flags.get(f, 0) + 1
        if any(f in h.flags for f in INTERESTING[pid]):
            nontrivial.add(tuple(w.ops))
        for msg in h.viol.get(pid, []):
            kf = known_tag(pid, msg)
            if kf:
                rep.known_finding(kf)
                known_seen[kf] = known_seen.get(kf, 0) + 1
                continue
            hits.append((w, msg))
            break
    # ---- the same kinds of programs on REAL loops (stock asyncio, eager task factory, uvloop) ----
    import sreal
    real_prof = sgen.Profile(**dict(PROFILES[pid], deadline_prob=0, failat=0, setdeadline=0, tick=0))
    real_cfg_runs = {}
    real_flags = {}
    real_hits = []
    n_real = 6 if tier == "quick" else 120
    if pid != "C06":          # C06 is judged on the virtual clock only
        for cfg in ("asyncio", "eager", "uvloop"):
            real_cfg_runs[cfg] = 0
            for f in sorted(corpus_dir.glob("*.json")) if corpus_dir.exists() else []:
                if json.loads(f.read_text()).get("virtual_only"):
                    continue            # a history whose meaning depends on the virtual schedule (reason in the file)
                rw = sreal.real_run(json.loads(f.read_text())["ops"], cfg)
                if rw is None:
                    continue
                real_cfg_runs[cfg] += 1
                hr = analyse(rw.ops, rw.outs, real=True)
                for msg in hr.viol.get(pid, []):
                    kf = known_tag(pid, msg)
                    if kf:
                        rep.known_finding(kf)
                        known_seen[kf] = known_seen.get(kf, 0) + 1
                        continue
                    real_hits.append((cfg, rw, msg))
                    break
            for _ in range(n_real):
                rw = sreal.real_random_run(rng, rng.choice([25, 50, 90]), real_prof, cfg)
                if rw is None:
                    continue
                real_cfg_runs[cfg] += 1
                hr = analyse(rw.ops, rw.outs, real=True)
                for f in hr.flags:
                    real_flags[f] = real_flags.get(f, 0) + 1
                if rw.info.get("timeout"):
                    real_hits.append((cfg, rw, "program did not finish on the real loop within the time limit (possible deadlock)"))
                for msg in hr.viol.get(pid, []):
                    kf = known_tag(pid, msg)
                    if kf:
                        rep.known_finding(kf)
                        known_seen[kf] = known_seen.get(kf, 0) + 1
                        continue
                    real_hits.append((cfg, rw, msg))
                    break

    # nested eager execution (outside the model, see eager_directed.py): judged by the property text directly
    eager_hits = []
    if pid in ("C04", "C05"):
        import eager_directed
        for name, msg in eager_directed.run_all():
            if pid == "C04" or "host_leaves" in name or "cancelling()" in msg:
                eager_hits.append((name, msg))
        real_flags["eager_directed_scenarios"] = len(eager_directed.SCENARIOS)
    if pid == "C03":
        import thread_directed               # tasks entering a scope from a worker thread (outside the model)
        eager_hits += thread_directed.run_all()
        real_flags["thread_boundary_scenarios"] = len(thread_directed.SCENARIOS)
    if pid == "C01":
        import deep_directed                 # nesting deeper than the recursion limit (outside the model)
        eager_hits += deep_directed.run_all()
        real_flags["deep_nesting_scenarios"] = 2
    if pid == "C02":
        import deep_directed                 # an error below 3500 nested groups (outside the model, F52)
        eager_hits += deep_directed.run_c02()
        real_flags["deep_nesting_scenarios"] = 2
    if pid in ("C02", "C04"):
        import native_directed               # asyncio.gather() / awaited native tasks inside a scope (outside the model)
        eager_hits += native_directed.run_all(pid)
        real_flags["native_construct_scenarios"] = len(native_directed.SCENARIOS[pid])
    directed_known = []
    for name, msg in list(eager_hits):
        kf = known_tag(pid, msg)
        if kf:
            rep.known_finding(kf)
            known_seen[kf] = known_seen.get(kf, 0) + 1
            directed_known.append(name)
            eager_hits.remove((name, msg))

    # kernel-checked sample (short cases keep vm_compute fast)
    idx = sorted(range(len(cases)), key=lambda i: len(cases[i]))[: (25 if tier == "quick" else 120)]
    vm_ok, vm_log = core.coq_eval_cases(pid.lower(), "Machine", [cases[i] for i in idx], [expected[i] for i in idx], chunk=40)

    known = known or []
    reported = 0
    for w, msg in hits:
        kf = next((k for k in known if k["match"](w, msg)), None)
        if kf:
            rep.known_finding(kf["what"])
            continue
        if reported >= 3:
            continue
        small = shrink(pid, w.ops)
        w2 = run_ops_safely(small)
        msg2 = (analyse(w2.ops, w2.outs).viol.get(pid) or [msg])[0] if w2 else msg
        rep.violation(msg2, {"kind": "monitor", "ops": small, "ops_readable": sgen.readable(small)})
        reported += 1
    for cfg, rw, msg in real_hits[:2]:
        rep.violation(f"[{cfg} loop] " + msg, {"kind": "monitor-real-loop", "config": cfg, "ops": rw.ops,
                                               "ops_readable": sgen.readable(rw.ops)[:200]})
    for name, msg in eager_hits[:2]:
        kind = "directed-deep" if "depth=" in name else ("directed-thread" if name.startswith("thread/") else
                                                         ("directed-native" if name.startswith("native/") else "directed-eager"))
        rep.violation(f"[directed scenario {name}] {msg}", {"kind": kind, "scenario": name,
                                                              "replay": f"harness/{kind.split('-')[1]}_directed.py runs the scenario"})
    tie = []
    if not proofs_ok:
        tie.append("proof obligation: " + str(rep.coverage.get("proof_failure", {}).get("where")))
    if disagreements:
        tie.append("correspondence Machine.run_case vs AnyIO (scopes/task groups) on SchedLoop")
    if not vm_ok and not disagreements:
        tie.append("vm_compute sample disagrees with the extracted model")
    if corpus_incomplete:
        tie.append("stored corpus history can no longer be executed on the implementation: " + corpus_incomplete[0]["file"])
    if tie and not hits and not real_hits and not eager_hits:
        d = min(disagreements, key=lambda x: len(x["ops"])) if disagreements else None
        if d:
            d = dict(d)
            d["ops_readable"] = sgen.readable(d["ops"])
        rep.violation("; ".join(tie), {"kind": "tie", "broken": tie, "case": d, "corpus_incomplete": corpus_incomplete[:2]},
                      no_input=True)

    rep.coverage.update({
        "trusted_base": rep.assumptions,
        "evaluations": len(runs),
        "programs": len(runs),
        "steps": steps_total,
        "traces_validated_against_impl": len(runs) - len(disagreements),
        "disagreements_checked": len(disagreements),
        "distinct_nontrivial": len(nontrivial),
        "rule": f"random walk over the operations the implementation enables (profile {pid}: {PROFILES[pid]}); every step compares result + full snapshot with the extracted Coq model; non-trivial = reaches one of {INTERESTING[pid]}",
        "corpus_cases": n_corpus,
        "exhaustive_small_scope": {"alphabet": alpha, "ops": [k for k, v in sgen.ALPHABETS[alpha].items() if v and k not in ("max_depth", "max_groups", "max_tasks", "deadline_prob", "shield_prob")],
                                   "depth": depth, "sequences": len(ex_leaves), "complete": not ex_truncated},
        "generator_rejected": gen_errors,
        "reached": flags,
        "op_distribution": opcount,
        "vm_compute_sample": len(idx),
        "vm_compute_ok": vm_ok,
        "monitor_hits": len(hits) + len(real_hits) + len(eager_hits),
        "known_finding_hits": known_seen,
        "real_loop_runs": real_cfg_runs,
        "real_loop_reached": real_flags,
        "samples": [sgen.readable(cases[i])[:40] for i in idx[-2:]],
    })
    for need in INTERESTING[pid]:
        if not flags.get(need):
            rep.notes.append(f"generator self-check: predicate {need} never reached")
    return rep.finish()


def sreplay(pid: str, path: str) -> int:
    """Re-executes a stored case: implementation trace, monitors, and comparison with the model."""
    data = json.loads(open(path).read())
    if data.get("kind") == "directed-thread":
        import thread_directed
        r = [(n, m) for n, m in thread_directed.run_all() if n == data.get("scenario")]
        for n, m in r:
            print(f"MONITOR {pid}: [{n}] {m}")
        return 1 if r else 0
    if data.get("kind") == "directed-native":
        import native_directed
        r = [(n, m) for n, m in native_directed.run_all(pid) if n == data.get("scenario") and not known_tag(pid, m)]
        for n, m in r:
            print(f"MONITOR {pid}: [{n}] {m}")
        return 1 if r else 0
    if data.get("kind") == "directed-deep":
        import deep_directed
        r = deep_directed.run_c02() if str(data.get("scenario", "")).startswith("leaf_error") else deep_directed.run_all()
        r = [(n, m) for n, m in r if not known_tag(pid, m)]
        for n, m in r:
            print(f"MONITOR {pid}: [{n}] {m}")
        return 1 if r else 0
    if data.get("kind") == "directed-eager":
        import eager_directed
        r = [(n, m) for n, m in eager_directed.run_all() if n == data.get("scenario")]
        for n, m in r:
            print(f"MONITOR {pid}: [{n}] {m}")
        return 1 if r else 0
    if data.get("kind") == "monitor-real-loop":
        import sreal
        rw = sreal.real_run(data["ops"], data.get("config", "asyncio"))
        hr = analyse(rw.ops, rw.outs, real=True) if rw is not None else None
        for p_, ms in (hr.viol.items() if hr else []):
            for m in ms[:3]:
                print(f"MONITOR {p_}: {m}")
        return 1 if (hr and [m for m in hr.viol.get(pid, []) if not known_tag(pid, m)]) else 0
    ops = data.get("ops") or (data.get("case") or {}).get("ops")
    if not ops:
        print("no op list in", path)
        return 2
    w = sgen.replay(ops, tolerant=True)
    for i, ((op, res, snap)) in enumerate(decode_run(w.ops, w.outs)):
        print(i, sgen.readable(list(op))[0], res)
    if w.incomplete:
        print("replay stopped at step", w.incomplete)
    h = analyse(w.ops, w.outs)
    for p, ms in h.viol.items():
        for m in ms[:3]:
            print(f"MONITOR {p}: {m}")
    exe = core.build_driver(*DRIVER)
    m = core.run_driver(exe, [w.ops])[0]
    if m != w.outs:
        si, a, b = sgen.first_diff_step(w, m)
        print(f"MODEL/IMPLEMENTATION DISAGREE at step {si}:\n impl  {a[:60]}\n model {b[:60]}")
    return 1 if (h.viol.get(pid) or m != w.outs) else 0
