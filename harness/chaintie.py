"""Tie T for C04 / C06: (1) regenerate coq/scopes/ChainGen.v from the Python source with tools/translate_chain.py
(fail closed: a refusal leaves a ChainGen.v that does not compile, so the proof stage of the check fails and names it);
(2) cross-check the TRANSLATED functions against the REAL Python code on explicit scope chains: real CancelScope
objects with `_parent_scope/_cancel_called/_shield/_deadline/_cancel_handle` set directly are evaluated by the real
properties / functions, and compared with `ChainCodec.run_case` (extracted OCaml for all cases, vm_compute by the Coq
kernel on a sample).  A translator bug therefore cannot hide a change of the code: the generated functions must both
equal the specs (ChainEq.v, proved) and agree with the running code (here, tested).
(3) run the generic S-machine check (scommon.scheck) with the results merged into its report."""

from __future__ import annotations

import asyncio
import itertools
import math
import os
import random
import subprocess
import sys
from asyncio import CancelledError

import core

TAG = "Cancelled via cancel scope "


# ------------------------------------------------------------------------------------------------------------
# 1. the translator
# ------------------------------------------------------------------------------------------------------------

def run_translator() -> tuple[bool, str]:
    env = dict(os.environ)
    env["VERIF_REPO"] = str(core.REPO)
    with core.locked("chaingen"):
        p = subprocess.run([sys.executable, str(core.VERIF / "tools" / "translate_chain.py")], env=env,
                           stdout=subprocess.PIPE, stderr=subprocess.STDOUT, text=True, timeout=120)
    return p.returncode == 0, p.stdout.strip()


# ------------------------------------------------------------------------------------------------------------
# 2. real code on explicit chains
# ------------------------------------------------------------------------------------------------------------

def gen_scope_chains(rng: random.Random, tier: str) -> list[list[tuple[int, int, int, int, int]]]:
    """(cancelled, shield, deadline (-1 = inf), cancel_handle set, hosted) innermost first.  hosted = 0 is a scope that has
    been exited (`_host_task is None`) but is still the `_parent_scope` of something below it (F42)."""
    atoms = [(c, s, d, h, o) for c in (0, 1) for s in (0, 1) for d in (-1, 3, 7) for h in (0, 1) for o in (0, 1)]
    out: list[list[tuple[int, int, int, int, int]]] = [[]]
    out += [[a] for a in atoms]
    out += [[a, b] for a in atoms for b in atoms]
    # all flag combinations up to depth 4 with fixed deadlines (the order of the cancel/shield/exited tests matters)
    flags = [(c, s, o) for c in (0, 1) for s in (0, 1) for o in (0, 1)]
    for n in (3, 4):
        for combo in itertools.product(flags, repeat=n):
            out.append([(c, s, (-1, 5, 2, 9)[i % 4], (i + c) % 2, o) for i, (c, s, o) in enumerate(combo)])
    n_rand = 1500 if tier == "quick" else 20000
    for _ in range(n_rand):
        n = rng.randint(1, 7)
        out.append([(int(rng.random() < 0.3), int(rng.random() < 0.3), rng.choice([-1, -1, 0, 1, 4, 4, 6, 12]),
                     rng.randint(0, 1), int(rng.random() < 0.8)) for _ in range(n)])
    return out


def gen_exc_chains(rng: random.Random, tier: str) -> list[list[tuple[int, int]]]:
    atoms = [(a, b) for a in (0, 1) for b in (0, 1)]
    out: list[list[tuple[int, int]]] = []
    for n in (1, 2, 3, 4):
        out += [list(c) for c in itertools.product(atoms, repeat=n)]
    for _ in range(300 if tier == "quick" else 3000):
        out.append([(int(rng.random() < 0.7), int(rng.random() < 0.25)) for _ in range(rng.randint(1, 8))])
    return out


def flat_scope(chain) -> list[int]:
    return [0, len(chain)] + [x for rec in chain for x in rec]


def flat_exc(chain) -> list[int]:
    return [1, len(chain)] + [x for rec in chain for x in rec]


def eval_real(scope_chains, exc_chains):
    """Evaluate the real code.  Returns (scope results, exc results); a scope result is the 7 integers
    [eff, parent_visible, ckif_spins, dl_kind, dl_val, check_cancelled_raises, restart_target+1]."""
    import anyio._backends._asyncio as A

    hits: list = []

    class Probe(A.CancelScope):
        __slots__ = ()

        def _deliver_cancellation(self, origin):  # records the target of _restart_cancellation
            hits.append(self)
            return False

    def build(chain):
        objs = []
        for (c, s, d, h, hosted) in chain:
            o = Probe()
            o._cancel_called = bool(c)
            o._shield = bool(s)
            o._deadline = math.inf if d < 0 else float(d)
            o._cancel_handle = object() if h else None
            # what __enter__ sets and the `finally` of __exit__ clears; an exited scope keeps its _parent_scope
            o._host_task = host if hosted else None
            objs.append(o)
        for i in range(len(objs) - 1):
            objs[i]._parent_scope = objs[i + 1]
        return objs

    def enc_time(x: float):
        if x == math.inf:
            return [0, 0]
        if x == -math.inf:
            return [1, 0]
        assert float(x).is_integer()
        return [2, int(x)]

    host = object()   # stands for the host task of every scope that is still entered

    async def main():
        task = asyncio.current_task()
        res = []
        for chain in scope_chains:
            objs = build(chain)
            head = objs[0] if objs else None
            eff = int(head._effectively_cancelled) if objs else 0
            pv = int(head._parent_cancellation_is_visible_to_us) if objs else 0
            A._task_states[task] = A.TaskState(None, head)
            coro = A.AsyncIOBackend.checkpoint_if_cancelled()
            try:
                coro.send(None)
                spins = 1           # it suspended in `await sleep(0)`: a cancelled scope was found
            except StopIteration:
                spins = 0
            finally:
                coro.close()
            dl = enc_time(A.AsyncIOBackend.current_effective_deadline())
            del A._task_states[task]
            A.threadlocals.current_cancel_scope = head
            try:
                A.AsyncIOBackend.check_cancelled()
                raises = 0
            except CancelledError:
                raises = 1
            finally:
                del A.threadlocals.current_cancel_scope
            hits.clear()
            A.CancelScope._restart_cancellation(head)
            assert len(hits) <= 1
            target = (objs.index(hits[0]) + 1) if hits else 0
            res.append([eff, pv, spins] + dl + [raises, target])
        return res

    sres = asyncio.run(main())
    eres = []
    for chain in exc_chains:
        excs = []
        for (ce, tag) in chain:
            cls = CancelledError if ce else ValueError
            excs.append(cls(TAG + "7f00") if tag else cls())
        for i in range(len(excs) - 1):
            excs[i].__context__ = excs[i + 1]
        eres.append(int(A.is_anyio_cancellation(excs[0])))
    return sres, eres


FIELDS = ["_effectively_cancelled", "_parent_cancellation_is_visible_to_us", "checkpoint_if_cancelled spins",
          "current_effective_deadline kind", "current_effective_deadline value", "check_cancelled raises",
          "_restart_cancellation target (index+1)"]


def crosscheck(tier: str) -> dict:
    """Compare real code and generated Coq functions.  Never raises; problems are returned."""
    out: dict = {"cases": 0, "mismatches": [], "error": None, "vm_compute_ok": None}
    rng = random.Random(core.seed() * 7 + 4)
    sc = gen_scope_chains(rng, tier)
    ec = gen_exc_chains(rng, tier)
    try:
        sres, eres = eval_real(sc, ec)
    except Exception as e:  # the real code could not even be evaluated on plain chains
        out["error"] = f"real code failed on explicit chains: {type(e).__name__}: {e}"
        return out
    cases = [flat_scope(c) for c in sc] + [flat_exc(c) for c in ec]
    out["cases"] = len(cases)
    out["scope_chains"] = len(sc)
    out["exc_chains"] = len(ec)
    out["chains_effectively_cancelled"] = sum(r[0] for r in sres)
    out["chains_with_restart_target"] = sum(1 for r in sres if r[6])
    out["chains_with_exited_scope"] = sum(1 for c in sc if any(not rec[4] for rec in c))
    try:
        ok_mk, log_mk = core.coq_make(["scopes/ChainCodec.vo"], timeout=600)
        if not ok_mk:
            raise RuntimeError(log_mk[-600:])
        exe = core.build_driver("chain", "ChainCodec")
        model = core.run_driver(exe, cases)
    except Exception as e:
        out["error"] = f"generated functions could not be built/extracted (ChainGen.v broken?): {str(e)[-400:]}"
        return out
    expected = []
    for chain, real, m in zip(sc, sres, model[:len(sc)]):
        gen, spec = m[:7], m[7:]
        expected.append(real + real)
        if gen != real or spec != real:
            bad = [FIELDS[i] for i in range(7) if gen[i] != real[i]]
            out["mismatches"].append({"chain": chain, "real": real, "generated": gen, "spec": spec,
                                      "differs_in": bad or ["spec only"]})
    for chain, real, m in zip(ec, eres, model[len(sc):]):
        expected.append([real, real])
        if m != [real, real]:
            out["mismatches"].append({"exc_chain": chain, "real": real, "generated": m[0], "spec": m[1],
                                      "differs_in": ["is_anyio_cancellation"]})
    out["mismatches"].sort(key=lambda d: len(d.get("chain", d.get("exc_chain"))))
    if not out["mismatches"]:
        idx = list(range(0, len(cases), max(1, len(cases) // (150 if tier == "quick" else 1500))))
        ok, log = core.coq_eval_cases("chain" + str(os.getpid()), "ChainCodec", [cases[i] for i in idx],
                                      [expected[i] for i in idx], chunk=400)
        out["vm_compute_ok"] = ok
        out["vm_compute_sample"] = len(idx)
        if not ok:
            out["error"] = "vm_compute of ChainCodec.run_case disagrees with the extracted code: " + log[-300:]
    return out


# ------------------------------------------------------------------------------------------------------------
# 3. the check
# ------------------------------------------------------------------------------------------------------------

def check(pid: str, tier: str, scheck) -> int:
    ok_t, msg_t = run_translator()
    print(msg_t)
    sys.stdout.flush()
    xc = crosscheck(tier)
    base = core.Report

    class TieReport(base):  # the report scheck creates, extended with the tie-T results
        def finish(self):
            self.coverage["tie_T"] = {
                "translator": "tools/translate_chain.py (python ast -> coq/scopes/ChainGen.v, fail closed)",
                "translator_ok": ok_t, "translator_output": msg_t,
                "crosscheck_cases": xc.get("cases"), "scope_chains": xc.get("scope_chains"),
                "exc_chains": xc.get("exc_chains"),
                "chains_effectively_cancelled": xc.get("chains_effectively_cancelled"),
                "chains_with_restart_target": xc.get("chains_with_restart_target"),
                "chains_with_exited_scope": xc.get("chains_with_exited_scope"),
                "crosscheck_mismatches": len(xc["mismatches"]), "crosscheck_error": xc["error"],
                "vm_compute_ok": xc.get("vm_compute_ok"), "vm_compute_sample": xc.get("vm_compute_sample"),
                "rule": "real CancelScope objects linked by _parent_scope (exhaustive depth<=2 over cancelled x shield x "
                        "deadline x handle x exited, all flag combinations to depth 4, random to depth 7) and __context__ chains "
                        "(exhaustive to length 4, random to 8), evaluated by the real properties/functions vs the generated "
                        "Coq functions and the specs",
            }
            if isinstance(self.coverage.get("evaluations"), int):
                self.coverage["evaluations"] += xc.get("cases") or 0
            for m in xc["mismatches"][:3]:
                if m["generated"] == m["real"]:
                    what = ("tie T: on an explicit chain the code (and its faithful translation) differ from the "
                            "specification the proofs are about")
                else:
                    what = (f"tie T: the translated function differs from the running code in {m['differs_in']} "
                            "(translator no longer faithful)")
                self.violation(f"{what}: {m}", {"kind": "chain", **m})
            if not ok_t:
                self.violation(f"tie T broken: {msg_t}", {"kind": "tie", "broken": ["translate_chain.py refused"],
                                                           "message": msg_t}, no_input=True)
            elif xc["error"] and not xc["mismatches"]:
                self.violation(f"tie T broken: {xc['error']}", {"kind": "tie", "broken": ["chain cross-check"],
                                                                "message": xc["error"]}, no_input=True)
            return super().finish()

    core.Report = TieReport
    try:
        return scheck(pid, tier, extra_assumptions=[
            "tie T: tools/translate_chain.py (python ast -> Coq, accepted grammar in its docstring, refuses everything "
            "else) is trusted only up to the behavioural cross-check of its output against the running code on "
            "explicit chains (harness/chaintie.py)",
        ])
    finally:
        core.Report = base
